"""Normal form for behaviour-equivalent spellings, applied in place to every module of the package when the Model is loaded and
to every source pattern of engine.pat, so that rules see (and are written against) one spelling:

  N1  x = x op e                      ->  x op= e
  N2  c < x  (constant on the left)   ->  x > c ;   a < b / a <= b (no constant operand)  ->  b > a / b >= a ;
      a == b / a != b (no constant operand): `self...` operand first, otherwise text order;
      a (dotted) ALL_CAPS name counts as a constant
  N3  if not C: A else: B             ->  if C: B else: A       (else-arm present; an `elif` chain under `if not C` becomes the body of the else)

Each rewrite preserves behaviour for the builtin types the package compares and accumulates (ints, bytes, str, names, lists).
engine.cfg.canonical_atom applies the same N2 convention to comparison atoms (also after a `not` has been pushed inwards).
"""
from __future__ import annotations

import ast
import re

_FLIP = {ast.Lt: ast.Gt, ast.Gt: ast.Lt, ast.LtE: ast.GtE, ast.GtE: ast.LtE, ast.Eq: ast.Eq, ast.NotEq: ast.NotEq}


_CONST_LIKE = re.compile(r"^(?:[A-Za-z_]\w*\.)*_*[A-Z][A-Z0-9_]*$")


def is_const_text(t: str) -> bool:
    """literal, or a constant-like name: a (dotted) name whose last component is ALL_CAPS (enum members, module constants)"""
    if _CONST_LIKE.match(t):
        return True
    try:
        ast.literal_eval(t)
        return True
    except Exception:
        return False


def _is_const(e) -> bool:
    if isinstance(e, ast.Constant) or (isinstance(e, ast.UnaryOp) and isinstance(e.op, ast.USub) and isinstance(e.operand, ast.Constant)):
        return True
    return isinstance(e, (ast.Name, ast.Attribute)) and bool(_CONST_LIKE.match(ast.unparse(e)))


def eq_rank(t: str) -> tuple:
    """order of the operands of == / != between two non-constants: receiver state first, then everything else, by text"""
    return (0 if t == "self" or t.startswith("self.") else 1, t)


def normalise(tree: ast.AST) -> ast.AST:
    for n in ast.walk(tree):
        if isinstance(n, ast.Compare) and len(n.ops) == 1 and type(n.ops[0]) in _FLIP:
            l, r = n.left, n.comparators[0]
            if (_is_const(l) and not _is_const(r)) or (not _is_const(l) and not _is_const(r) and isinstance(n.ops[0], (ast.Lt, ast.LtE))):
                n.left, n.comparators, n.ops = r, [l], [_FLIP[type(n.ops[0])]()]
            elif isinstance(n.ops[0], (ast.Eq, ast.NotEq)) and not _is_const(l) and not _is_const(r) and eq_rank(ast.unparse(l)) > eq_rank(ast.unparse(r)):
                n.left, n.comparators = r, [l]  # == / != between two non-constants: operands in text order

        elif isinstance(n, ast.If) and isinstance(n.test, ast.UnaryOp) and isinstance(n.test.op, ast.Not) and n.orelse and not _only_ellipsis(n.orelse):
            n.test = n.test.operand
            n.body, n.orelse = n.orelse, n.body
        elif isinstance(n, ast.Assign) and len(n.targets) == 1 and isinstance(n.targets[0], (ast.Name, ast.Attribute)) and isinstance(n.value, ast.BinOp) \
                and isinstance(n.value.left, type(n.targets[0])) and ast.unparse(n.value.left) == ast.unparse(n.targets[0]):
            tgt, op, val = n.targets[0], n.value.op, n.value.right
            ln, co, eln, eco = getattr(n, "lineno", 0), getattr(n, "col_offset", 0), getattr(n, "end_lineno", None), getattr(n, "end_col_offset", None)
            n.__class__ = ast.AugAssign
            n.__dict__.clear()
            n.target, n.op, n.value, n.lineno, n.col_offset, n.end_lineno, n.end_col_offset = tgt, op, val, ln, co, eln, eco
    return tree


def _only_ellipsis(stmts) -> bool:
    return False
