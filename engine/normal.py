"""Normal form for behaviour-equivalent spellings, applied in place to every module of the package when the Model is loaded and
to every source pattern of engine.pat, so that rules see (and are written against) one spelling:

  N1  x = x op e                      ->  x op= e
  N2  c < x  (constant on the left)   ->  x > c ;   a < b / a <= b (no constant operand)  ->  b > a / b >= a ;
      a == b / a != b (no constant operand): `self...` operand first, otherwise text order;
      a (dotted) ALL_CAPS name counts as a constant
  N3  if not C: A else: B             ->  if C: B else: A       (else-arm present; an `elif` chain under `if not C` becomes the body of the else)

  N4  noise statements are dropped: bare annotations (`x: int`), logging / print / warnings calls, stores of a constant or a name
      into a local that is never read (none of them can change what the function computes or raises)

Each rewrite preserves behaviour for the builtin types the package compares and accumulates (ints, bytes, str, names, lists).
engine.cfg.canonical_atom applies the same N2 convention to comparison atoms (also after a `not` has been pushed inwards).
"""
from __future__ import annotations

import ast
import re

_FLIP = {ast.Lt: ast.Gt, ast.Gt: ast.Lt, ast.LtE: ast.GtE, ast.GtE: ast.LtE, ast.Eq: ast.Eq, ast.NotEq: ast.NotEq}


_CONST_LIKE = re.compile(r"^(?:[A-Za-z_]\w*\.)*_*[A-Z][A-Z0-9_]*$")


def is_const_text(t: str) -> bool:
    """literal, or a constant-like name: a (dotted) name whose last component is ALL_CAPS (enum members, module constants)"""
    if _CONST_LIKE.match(t):
        return True
    try:
        ast.literal_eval(t)
        return True
    except Exception:
        return False


def _is_const(e) -> bool:
    if isinstance(e, ast.Constant) or (isinstance(e, ast.UnaryOp) and isinstance(e.op, ast.USub) and isinstance(e.operand, ast.Constant)):
        return True
    return isinstance(e, (ast.Name, ast.Attribute)) and bool(_CONST_LIKE.match(ast.unparse(e)))


def eq_rank(t: str) -> tuple:
    """order of the operands of == / != between two non-constants: receiver state first, then everything else, by text"""
    return (0 if t == "self" or t.startswith("self.") else 1, t)


def normalise(tree: ast.AST) -> ast.AST:
    drop_noise(tree)
    for n in ast.walk(tree):
        if isinstance(n, ast.Compare) and len(n.ops) == 1 and type(n.ops[0]) in _FLIP:
            l, r = n.left, n.comparators[0]
            if (_is_const(l) and not _is_const(r)) or (not _is_const(l) and not _is_const(r) and isinstance(n.ops[0], (ast.Lt, ast.LtE))):
                n.left, n.comparators, n.ops = r, [l], [_FLIP[type(n.ops[0])]()]
            elif isinstance(n.ops[0], (ast.Eq, ast.NotEq)) and not _is_const(l) and not _is_const(r) and eq_rank(ast.unparse(l)) > eq_rank(ast.unparse(r)):
                n.left, n.comparators = r, [l]  # == / != between two non-constants: operands in text order

        elif isinstance(n, ast.If) and isinstance(n.test, ast.UnaryOp) and isinstance(n.test.op, ast.Not) and n.orelse and not _only_ellipsis(n.orelse):
            n.test = n.test.operand
            n.body, n.orelse = n.orelse, n.body
        elif isinstance(n, ast.Assign) and len(n.targets) == 1 and isinstance(n.targets[0], (ast.Name, ast.Attribute)) and isinstance(n.value, ast.BinOp) \
                and isinstance(n.value.left, type(n.targets[0])) and ast.unparse(n.value.left) == ast.unparse(n.targets[0]):
            tgt, op, val = n.targets[0], n.value.op, n.value.right
            ln, co, eln, eco = getattr(n, "lineno", 0), getattr(n, "col_offset", 0), getattr(n, "end_lineno", None), getattr(n, "end_col_offset", None)
            n.__class__ = ast.AugAssign
            n.__dict__.clear()
            n.target, n.op, n.value, n.lineno, n.col_offset, n.end_lineno, n.end_col_offset = tgt, op, val, ln, co, eln, eco
    return tree


def _only_ellipsis(stmts) -> bool:
    return False


_LOG_ROOTS = ("logging", "log", "logger", "_log", "_logger", "LOG", "LOGGER", "warnings")


def _is_noise(st, dead) -> bool:
    """statements that cannot change what a function computes or raises (up to log output):
    bare annotations, logging / print / warnings calls, and stores of a constant into a local that is never read"""
    if isinstance(st, ast.AnnAssign) and st.value is None and isinstance(st.target, ast.Name):
        return True
    if isinstance(st, ast.Expr) and isinstance(st.value, ast.Call):
        f = st.value.func
        root = f
        while isinstance(root, (ast.Attribute, ast.Call)):
            root = root.value if isinstance(root, ast.Attribute) else root.func
        if isinstance(f, ast.Name) and f.id == "print":
            return True
        if isinstance(root, ast.Name) and root.id in _LOG_ROOTS and isinstance(f, ast.Attribute) and f.attr in ("debug", "info", "warning", "warn", "error", "exception", "critical", "log"):
            return True
    if isinstance(st, ast.Assign) and len(st.targets) == 1 and isinstance(st.targets[0], ast.Name) and st.targets[0].id in dead \
            and isinstance(st.value, (ast.Constant, ast.Name)):
        return True
    return False


def drop_noise(tree: ast.AST) -> ast.AST:
    """N4: remove noise statements from every function body (never leaving a body empty)."""
    for fn in ast.walk(tree):
        if not isinstance(fn, (ast.FunctionDef, ast.AsyncFunctionDef)):
            continue
        loads, stores = set(), {}
        declared = set()
        for n in ast.walk(fn):
            if isinstance(n, ast.Name):
                if isinstance(n.ctx, ast.Load) or isinstance(n.ctx, ast.Del):
                    loads.add(n.id)
                else:
                    stores[n.id] = stores.get(n.id, 0) + 1
            elif isinstance(n, (ast.Global, ast.Nonlocal)):
                declared |= set(n.names)
        params = {a.arg for a in fn.args.posonlyargs + fn.args.args + fn.args.kwonlyargs} | ({fn.args.vararg.arg} if fn.args.vararg else set()) | ({fn.args.kwarg.arg} if fn.args.kwarg else set())
        dead = {v for v in stores if v not in loads and v not in declared and v not in params}
        for n in ast.walk(fn):
            for fld in ("body", "orelse", "finalbody"):
                b = getattr(n, fld, None)
                if isinstance(b, list) and b and isinstance(b[0], ast.stmt):
                    kept = [st for st in b if not _is_noise(st, dead)]
                    if kept and len(kept) != len(b):
                        b[:] = kept
            if isinstance(n, ast.Try):
                for h in n.handlers:
                    kept = [st for st in h.body if not _is_noise(st, dead)]
                    if kept and len(kept) != len(h.body):
                        h.body[:] = kept
    return tree
