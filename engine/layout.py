"""Abstract wire layout of a codec method (writer `_to_wire` / reader `from_wire_parser`) as a token sequence,
and agreement of two layouts.

Tokens (after normalisation):
  ('ints', [bits...])               a run of adjacent fixed-width integer fields
  ('name', origin?)                 a domain name; origin? = whether the origin is passed (relative names)
  ('data', ref)                     opaque octets; ref = ('len', run_index, bit_offset) | ('fixed', n) | ('rest',) | ('any',)
  ('rep', [tokens])                 repeated until the RDATA is exhausted / once per element
  ('opt', [tokens])                 present only if data remains / only if non-empty
  ('sub', 'Helper')                 a helper codec (compared as its own pair)
  ('switch', {const: [tokens]})     alternatives selected by comparing one discriminant with constants
  ('times', n, [tokens])            n repetitions
  ('unknown', text)                 the engine does not understand the construct
"""
from __future__ import annotations

import ast
import struct
from typing import Optional

from .model import Model, FuncInfo, src, dotted

WIDTH = {"B": 8, "b": 8, "H": 16, "h": 16, "I": 32, "i": 32, "L": 32, "l": 32, "Q": 64, "q": 64}


TRANSFORMS = {"rstrip", "lstrip", "strip", "lower", "upper", "replace", "title", "swapcase", "zfill", "ljust", "rjust", "center", "translate", "removeprefix", "removesuffix"}


class LayoutError(Exception):
    pass


def _fmt_fields(fmt: str) -> Optional[list[int]]:
    body = fmt.lstrip("!<>=@")
    out = []
    num = ""
    for ch in body:
        if ch.isdigit():
            num += ch
            continue
        if ch not in WIDTH:
            return None
        out += [WIDTH[ch]] * (int(num) if num else 1)
        num = ""
    return out


# ------------------------------------------------------------------------------------------------ writer
class Writer:
    def __init__(self, model: Model, f: FuncInfo, file_name="file", inline=None, ctx_cls=None, depth=0):
        self.model, self.f, self.file = model, f, file_name
        self.env: dict[str, tuple] = {}
        self.inline = inline or {}
        self.ctx_cls = ctx_cls or f.cls
        self.depth = depth
        self.arm_pairs: list = []

    def run(self) -> list:
        return self.block(self.f.node.body)

    def block(self, stmts) -> list:
        out = []
        for st in stmts:
            out += self.stmt(st)
        return out

    def stmt(self, st) -> list:
        if isinstance(st, ast.Expr) and isinstance(st.value, ast.Constant):
            return []
        if isinstance(st, (ast.Assert, ast.Pass)):
            return []
        if isinstance(st, ast.Return) and isinstance(st.value, ast.Call) and isinstance(st.value.func, ast.Attribute) and st.value.func.attr == "to_wire":
            return self.call(st.value)
        if isinstance(st, ast.AugAssign) and isinstance(st.target, ast.Name) and isinstance(st.op, ast.Add) and st.target.id in self.env and self.env[st.target.id][0] == "tokens":
            self.env[st.target.id] = ("tokens", self.env[st.target.id][1] + self.tokens_of(st.value))
            return []
        if isinstance(st, ast.Raise):
            return [("raise",)]
        if isinstance(st, ast.Assign) and len(st.targets) == 1 and isinstance(st.targets[0], ast.Name):
            self.env[st.targets[0].id] = self.value(st.value)
            return []
        if isinstance(st, ast.AugAssign) and isinstance(st.target, ast.Name):
            # l |= 0x80 etc: keeps the kind
            return []
        if isinstance(st, ast.Assign):
            return []
        if isinstance(st, ast.Expr) and isinstance(st.value, ast.Call):
            return self.call(st.value)
        if isinstance(st, ast.For):
            it = src(st.iter)
            if not any(isinstance(n, ast.Name) and n.id == self.file for n in ast.walk(st)):
                return []  # a scan that writes nothing
            body = self.block(st.body)
            if not body:
                return []
            # `for i in range(len(address)-1, -1, -1)` style scans without writes are dropped above
            return [("rep", body)]
        if isinstance(st, ast.With):
            item = st.items[0].context_expr
            if isinstance(item, ast.Call) and (dotted(item.func) or "").endswith("prefixed_length") and len(item.args) == 2 and isinstance(item.args[1], ast.Constant):
                k = item.args[1].value
                key = f"@blk{id(st)}"
                return [("int", 8 * k, key), ("datakey", key, self.block(st.body))]
            return [("unknown", f"with {src(item)[:40]}")]
        if isinstance(st, ast.If):
            return self.if_(st)
        if isinstance(st, ast.Return):
            return []
        return [("unknown", src(st)[:50])]

    def if_(self, st: ast.If) -> list:
        t = " ".join(src(st.test).split())
        if t in (self.file, f"{self.file} is not None"):
            a = self.block(st.body)
            b = []
            for s2 in st.orelse:
                if isinstance(s2, ast.Return) and s2.value is not None:
                    b += self.tokens_of(s2.value)
                else:
                    b += self.stmt(s2)
            self.arm_pairs.append((a, b))
            return a
        # optional trailing field: `if len(self.x) > 0:` / `if l > 0:`
        if isinstance(st.test, ast.Compare) and len(st.test.ops) == 1 and isinstance(st.test.ops[0], ast.Gt) and src(st.test.comparators[0]) == "0" and not st.orelse:
            lhs = st.test.left
            if (isinstance(lhs, ast.Call) and dotted(lhs.func) == "len") or (isinstance(lhs, ast.Name) and self.env.get(lhs.id, ("",))[0] == "len"):
                body = self.block(st.body)
                return [("opt", body)] if body else []
        # switch on `X == const` chains
        arms = {}
        cur = st
        disc = None
        ok = True
        while True:
            c = cur.test
            if isinstance(c, ast.Compare) and len(c.ops) == 1 and isinstance(c.ops[0], ast.Eq) and isinstance(c.comparators[0], ast.Constant):
                d = src(c.left)
                if disc is None:
                    disc = d
                if d != disc:
                    ok = False
                    break
                arms[c.comparators[0].value] = self.block(cur.body)
            else:
                ok = False
                break
            if len(cur.orelse) == 1 and isinstance(cur.orelse[0], ast.If):
                cur = cur.orelse[0]
                continue
            if cur.orelse:
                arms["else"] = self.block(cur.orelse)
            break
        if ok and arms:
            if all(not v or v == [("raise",)] for v in arms.values()):
                return []
            return [("switch", {k: v for k, v in arms.items() if v != [("raise",)]})]
        a, b = self.block(st.body), self.block(st.orelse)
        a = [x for x in a if x != ("raise",)]
        b = [x for x in b if x != ("raise",)]
        if not a and not b:
            return []
        if t.endswith("is not None") and not b:
            return a  # `if value is not None: value.to_wire(...)` inside a sized block
        if t.endswith("is not None") and not a and not b:
            return []
        return [("unknown", f"if {t[:40]}")]

    def value(self, e) -> tuple:
        if isinstance(e, ast.BinOp) and isinstance(e.op, ast.Add):
            return ("tokens", self.tokens_of(e))
        if isinstance(e, ast.Call):
            d = dotted(e.func) or ""
            if d == "len" and e.args:
                a = e.args[0]
                if isinstance(a, ast.Name) and a.id in self.env and self.env[a.id][0] == "bytes":
                    return ("len", a.id)
                return ("len", src(a))
            if d == "struct.pack":
                return ("tokens", self.pack(e))
            if isinstance(e.func, ast.Attribute) and e.func.attr == "to_wire" and not e.args:
                return ("bytes", f"sub:{src(e.func.value)}")
            if d.endswith("inet_aton"):
                return ("tokens", [("fixed", 4 if "ipv4" in d else 16)])
            if d.endswith("parse_formatted_hex") and len(e.args) >= 3:
                try:
                    n = int(ast.literal_eval(e.args[1])) * int(ast.literal_eval(e.args[2])) // 2
                    return ("tokens", [("fixed", n)])
                except Exception:
                    pass
            if d.endswith("unhexlify"):
                return ("bytes", "unhexlify")
            if isinstance(e.func, ast.Attribute) and e.func.attr in TRANSFORMS and isinstance(e.func.value, (ast.Name, ast.Attribute)):
                return ("transformed", f"{src(e.func.value)}.{e.func.attr}({', '.join(src(a) for a in e.args)})")
        if isinstance(e, ast.Subscript) and isinstance(e.value, ast.Name) and e.value.id in self.env and self.env[e.value.id][0] in ("bytes", "tokens"):
            return ("bytes", e.value.id)  # a slice of local bytes: variable length
        if isinstance(e, ast.Name) and e.id in self.env:
            return self.env[e.id]
        return ("other", src(e)[:40])

    def pack(self, c: ast.Call) -> list:
        if not c.args or not isinstance(c.args[0], ast.Constant) or not isinstance(c.args[0].value, str):
            return [("unknown", src(c)[:40])]
        fields = _fmt_fields(c.args[0].value)
        if fields is None or len(fields) != len(c.args) - 1:
            return [("unknown", f"struct.pack({c.args[0].value!r}) with {len(c.args) - 1} values")]
        out = []
        for bits, a in zip(fields, c.args[1:]):
            key = None
            if isinstance(a, ast.Call) and dotted(a.func) == "len" and a.args:
                key = src(a.args[0])
            elif isinstance(a, ast.Name) and a.id in self.env and self.env[a.id][0] == "len":
                key = self.env[a.id][1]
            out.append(("int", bits, key))
        return out

    def tokens_of(self, e) -> list:
        if isinstance(e, ast.BinOp) and isinstance(e.op, ast.Add):
            return self.tokens_of(e.left) + self.tokens_of(e.right)
        if isinstance(e, ast.Call):
            d = dotted(e.func) or ""
            if d == "struct.pack":
                return self.pack(e)
            v = self.value(e)
            if v[0] == "tokens":
                return v[1]
            if v[0] == "bytes":
                return [("datakey", v[1], None)]
            if isinstance(e.func, ast.Attribute) and e.func.attr in ("encode", "decode"):
                return [("datakey", src(e.func.value), None)]
            if isinstance(e.func, ast.Attribute) and e.func.attr == "to_bytes" and len(e.args) >= 1 and isinstance(e.args[0], ast.Constant):
                inner = e.func.value
                key = src(inner.args[0]) if isinstance(inner, ast.Call) and dotted(inner.func) == "len" and inner.args else None
                return [("int", 8 * e.args[0].value, key)]
            return [("unknown", src(e)[:40])]
        if isinstance(e, ast.Name):
            v = self.env.get(e.id)
            if v is None:
                return [("datakey", e.id, None)]  # parameter / loop variable holding bytes
            if v[0] == "tokens":
                return v[1]
            if v[0] in ("bytes", "alias"):
                return [("datakey", e.id, None)]
            if v[0] == "transformed":
                return [("transformed", e.id, v[1])]
            return [("unknown", f"{e.id}={v}")]
        if isinstance(e, ast.Attribute):
            return [("datakey", src(e), None)]
        if isinstance(e, ast.Constant) and isinstance(e.value, bytes):
            return [("fixed", len(e.value))]
        return [("unknown", src(e)[:40])]

    def call(self, c: ast.Call) -> list:
        f = c.func
        d = dotted(f) or ""
        if isinstance(f, ast.Attribute) and f.attr == "write" and src(f.value) == self.file and len(c.args) == 1:
            return self.tokens_of(c.args[0])
        if isinstance(f, ast.Attribute) and f.attr in ("to_wire", "_to_wire") and c.args and src(c.args[0]) == self.file:
            recv = f.value
            # super()._to_wire(...)
            if isinstance(recv, ast.Call) and src(recv.func) == "super":
                base = self.model.lookup_method(self.ctx_cls, f.attr, after=self.f.cls)
                if base is None or self.depth > 4:
                    return [("unknown", "super()._to_wire unresolved")]
                return Writer(self.model, base, self.file, self.inline, self.ctx_cls, self.depth + 1).run()
            # Helper(...).to_wire(file, ...)
            if isinstance(recv, ast.Call):
                tgt = self.model.resolve_expr(self.f, recv.func)
                if tgt in self.model.classes:
                    return [("sub", self.model.classes[tgt].mro[-1].name if False else _helper_name(self.model, tgt))]
            key = (self.f.qualname, src(f))
            if key in self.inline:
                g = self.model.func(self.inline[key])
                return Writer(self.model, g, "file", self.inline, g.cls, self.depth + 1).run()
            if len(c.args) + len(c.keywords) >= 3:
                kw = {k.arg: k.value for k in c.keywords}
                o = c.args[2] if len(c.args) >= 3 else kw.get("origin")
                return [("name", o is not None and not (isinstance(o, ast.Constant) and o.value is None))]
            if len(c.args) == 2 and src(c.args[1]) == "origin":
                return [("sub", "value")]
            if isinstance(recv, ast.Attribute) and src(recv.value) == "self":
                return [("name", False)]  # a field encoding itself into the file with default arguments: a domain name
            return [("unknown", f"{src(f)}(...)")]
        # module-level helper taking the file: inline it
        if isinstance(f, ast.Name) and c.args and src(c.args[0]) == self.file and f.id in self.f.module.functions and self.depth < 4:
            g = self.f.module.functions[f.id]
            w = Writer(self.model, g, g.params()[0], self.inline, None, self.depth + 1)
            # bind the helper's parameters to the caller's expressions (for length references)
            for p, a in zip(g.params()[1:], c.args[1:]):
                w.env[p] = ("alias", src(a))
            toks = w.run()
            return _rename_keys(toks, {p: src(a) for p, a in zip(g.params()[1:], c.args[1:])})
        return []  # other calls do not write


def _helper_name(model, tgt):
    ci = model.classes[tgt]
    # Relay derives from Gateway: compare under the base that defines the codec
    for c in ci.mro:
        if "to_wire" in c.methods:
            return c.name
    return ci.name


def _rename_keys(toks, mp):
    out = []
    for t in toks:
        if t[0] == "int" and t[2] in mp:
            out.append(("int", t[1], mp[t[2]]))
        elif t[0] == "datakey" and t[1] in mp:
            out.append(("datakey", mp[t[1]], t[2]))
        else:
            out.append(t)
    return out


# ------------------------------------------------------------------------------------------------ reader
class Reader:
    def __init__(self, model: Model, f: FuncInfo, parser_name="parser", depth=0):
        self.model, self.f, self.p = model, f, parser_name
        self.alias: dict[str, str] = {}  # var -> int key
        self.n = 0

    def run(self) -> list:
        return self.block(self.f.node.body)

    def key(self) -> str:
        self.n += 1
        return f"@r{self.n}"

    def block(self, stmts) -> list:
        out = []
        for st in stmts:
            out += self.stmt(st)
        return out

    def stmt(self, st) -> list:
        if isinstance(st, ast.Expr) and isinstance(st.value, ast.Constant):
            return []
        if isinstance(st, (ast.Assert, ast.Pass, ast.Raise)):
            return []
        if isinstance(st, ast.Assign):
            toks = self.expr(st.value, st.targets[0])
            return toks
        if isinstance(st, ast.AugAssign):
            return self.expr(st.value, None)
        if isinstance(st, ast.Expr):
            return self.expr(st.value, None)
        if isinstance(st, ast.Return):
            return self.expr(st.value, None) if st.value is not None else []
        if isinstance(st, ast.While):
            t = " ".join(src(st.test).split())
            if t in (f"{self.p}.remaining() > 0", f"{self.p}.remaining() != 0", f"{self.p}.remaining()"):
                return [("rep", self.block(st.body))]
            return [("unknown", f"while {t[:40]}")]
        if isinstance(st, ast.For):
            it = st.iter
            if isinstance(it, ast.Call) and dotted(it.func) == "range" and len(it.args) == 1 and isinstance(it.args[0], ast.Constant):
                body = self.block(st.body)
                out = []
                for _ in range(int(it.args[0].value)):
                    out += _fresh(body, self)
                return out
            body = self.block(st.body)
            return [("unknown", f"for {src(it)[:30]}")] if body else []
        if isinstance(st, ast.With):
            item = st.items[0].context_expr
            if isinstance(item, ast.Call) and src(item.func) == f"{self.p}.restrict_to" and len(item.args) == 1:
                a = item.args[0]
                k = self.alias.get(a.id) if isinstance(a, ast.Name) else None
                return [("datakey", k or f"?{src(a)}", self.block(st.body))]
            return self.block(st.body)
        if isinstance(st, ast.If):
            t = " ".join(src(st.test).split())
            if t in (f"{self.p}.remaining() > 0", f"{self.p}.remaining() != 0"):
                a = self.block(st.body)
                return [("opt", a)] if a else []
            # switch on constants
            arms, cur, disc, ok = {}, st, None, True
            while True:
                c = cur.test
                if isinstance(c, ast.Compare) and len(c.ops) == 1 and isinstance(c.ops[0], ast.Eq) and isinstance(c.comparators[0], ast.Constant):
                    d = src(c.left)
                    disc = disc or d
                    if d != disc:
                        ok = False
                        break
                    arms[c.comparators[0].value] = self.block(cur.body)
                else:
                    ok = False
                    break
                if len(cur.orelse) == 1 and isinstance(cur.orelse[0], ast.If):
                    cur = cur.orelse[0]
                    continue
                if cur.orelse:
                    arms["else"] = self.block(cur.orelse)
                break
            if ok and arms and any(arms.values()):
                return [("switch", {k: v for k, v in arms.items()})]
            a, b = self.block(st.body), self.block(st.orelse)
            if not a and not b:
                return []
            return [("unknown", f"if {t[:40]}")]
        if isinstance(st, ast.Try):
            return self.block(st.body)
        return []

    def bind(self, target, keys: list[str]):
        if target is None:
            return
        if isinstance(target, ast.Name):
            if len(keys) == 1:
                self.alias[target.id] = keys[0]
            else:
                for i, k in enumerate(keys):
                    self.alias[f"{target.id}[{i}]"] = k
        elif isinstance(target, (ast.Tuple, ast.List)):
            for t, k in zip(target.elts, keys):
                if isinstance(t, ast.Name):
                    self.alias[t.id] = k

    def expr(self, e, target) -> list:
        """tokens produced by evaluating e (in evaluation order); binds integer keys to the assignment target."""
        if e is None:
            return []
        if isinstance(e, ast.Subscript) and isinstance(e.value, ast.Name) and isinstance(e.slice, ast.Constant) and target is not None and isinstance(target, ast.Name):
            k = self.alias.get(f"{e.value.id}[{e.slice.value}]")
            if k:
                self.alias[target.id] = k
            return []
        if isinstance(e, ast.Name) and target is not None and isinstance(target, ast.Name) and e.id in self.alias:
            self.alias[target.id] = self.alias[e.id]
            return []
        if target is not None and isinstance(target, ast.Name) and not any(isinstance(n, ast.Name) and n.id == self.p for n in ast.walk(e)):
            used = [n.id for n in ast.walk(e) if isinstance(n, ast.Name) and n.id in self.alias]
            if len(set(used)) == 1:
                self.alias[target.id] = self.alias[used[0]]  # a length derived from one integer field (e.g. ceil(bits / 8))
                return []
        out = []
        calls = []

        def visit(n):
            for ch in ast.iter_child_nodes(n):
                if isinstance(ch, (ast.Lambda,)):
                    continue
                visit(ch)
            if isinstance(n, ast.Call):
                calls.append(n)

        visit(e)
        top = e.value if isinstance(e, ast.Starred) else e
        for c in calls:
            toks, keys = self.call(c)
            out += toks
            if c is top and keys:
                self.bind(target, keys)
        return out

    def call(self, c: ast.Call):
        f = c.func
        if isinstance(f, ast.Attribute) and src(f.value) == self.p:
            a = f.attr
            if a in ("get_uint8", "get_uint16", "get_uint32", "get_uint48"):
                k = self.key()
                return [("int", int(a[8:]), k)], [k]
            if a == "get_struct" and c.args and isinstance(c.args[0], ast.Constant):
                fields = _fmt_fields(c.args[0].value)
                if fields is None:
                    return [("unknown", f"get_struct({c.args[0].value!r})")], []
                keys = [self.key() for _ in fields]
                return [("int", b, k) for b, k in zip(fields, keys)], keys
            if a == "get_name":
                kw = {k.arg: k.value for k in c.keywords}
                o = c.args[0] if c.args else kw.get("origin")
                return [("name", o is not None and not (isinstance(o, ast.Constant) and o.value is None))], []
            if a == "get_counted_bytes":
                n = 1
                if c.args and isinstance(c.args[0], ast.Constant):
                    n = c.args[0].value
                elif c.args or c.keywords:
                    kw = {k.arg: k.value for k in c.keywords}
                    v = c.args[0] if c.args else kw.get("length_size")
                    if isinstance(v, ast.Constant):
                        n = v.value
                    else:
                        return [("unknown", src(c)[:40])], []
                k = self.key()
                return [("int", 8 * n, k), ("datakey", k, None)], []
            if a == "get_remaining":
                return [("rest",)], []
            if a == "get_bytes" and c.args:
                x = c.args[0]
                if isinstance(x, ast.Constant):
                    return [("fixed", x.value)], []
                if isinstance(x, ast.Name) and x.id in self.alias:
                    return [("datakey", self.alias[x.id], None)], []
                if isinstance(x, ast.Attribute) and src(x.value) == "cls":
                    return [("anybytes",)], []
                if isinstance(x, ast.Call) and src(x.func) == f"{self.p}.remaining":
                    return [("rest",)], []
                return [("unknown", src(c)[:40])], []
            if a in ("remaining", "restrict_to", "seek", "restore_furthest"):
                return [], []
            return [("unknown", src(c)[:40])], []
        # Helper.from_wire_parser(..., parser, ...)
        if isinstance(f, ast.Attribute) and f.attr == "from_wire_parser" and any(src(x) == self.p for x in c.args):
            tgt = self.model.resolve_expr(self.f, f.value)
            if tgt in self.model.classes:
                return [("sub", _helper_name_r(self.model, tgt))], []
            if src(f.value) == "pcls":
                return [("sub", "value")], []
            return [("unknown", src(c)[:40])], []
        if dotted(f) and (dotted(f) or "").endswith("option_from_wire_parser"):
            return [("sub", "option")], []
        return [], []


def _helper_name_r(model, tgt):
    ci = model.classes[tgt]
    for c in ci.mro:
        if "from_wire_parser" in c.methods:
            return c.name
    return ci.name


def _fresh(body, reader: Reader):
    """Copy of a token list with fresh integer keys (loop unrolling)."""
    mp = {}
    out = []
    for t in body:
        if t[0] == "int":
            mp[t[2]] = reader.key()
            out.append(("int", t[1], mp[t[2]]))
        elif t[0] == "datakey":
            out.append(("datakey", mp.get(t[1], t[1]), t[2]))
        else:
            out.append(t)
    return out


# ------------------------------------------------------------------------------------------------ normalisation
def normalise(toks: list, side: str) -> list:
    """Resolve length keys to (run, bit offset) references, merge integer runs, canonicalise."""
    # 1. positions of ints
    out = []
    run_index = -1
    bit = 0
    keypos = {}
    prev_int = False
    for t in toks:
        if t[0] == "int":
            if not prev_int:
                run_index += 1
                bit = 0
                out.append(["ints", []])
            out[-1][1].append(t[1])
            if t[2] is not None:
                keypos[t[2]] = (run_index, bit)
            bit += t[1]
            prev_int = True
            continue
        prev_int = False
        if t[0] == "datakey":
            ref = keypos.get(t[1])
            inner = normalise(t[2], side) if t[2] else None
            if ref is not None:
                out.append(["data", ("len",) + ref])
            elif isinstance(t[1], str) and t[1].startswith("?"):
                out.append(["unknown", f"length variable {t[1][1:]} is not an integer read earlier"])
            else:
                out.append(["data", ("any",)])
        elif t[0] == "fixed":
            out.append(["data", ("fixed", t[1])])
        elif t[0] == "rest":
            out.append(["data", ("rest",)])
        elif t[0] == "anybytes":
            out.append(["data", ("any",)])
        elif t[0] in ("rep", "opt"):
            inner = normalise(t[1], side)
            # an optional block that only (re)writes counted data whose length is already on the wire is that data
            if t[0] == "opt" and len(inner) == 1 and inner[0][0] == "data" and inner[0][1][0] in ("any",):
                # `if len(x) > 0: file.write(x)` after an explicit length field
                keys = [x[1] for x in t[1] if x[0] == "datakey"]
                ref = keypos.get(keys[0]) if keys else None
                out.append(["data", ("len",) + ref] if ref is not None else ["data", ("any",)])
            else:
                out.append([t[0], inner])
        elif t[0] == "switch":
            out.append(["switch", {k: normalise(v, side) for k, v in t[1].items()}])
        elif t[0] == "raise":
            continue
        else:
            out.append(list(t))
    return out


def compare(w: list, r: list, path="") -> Optional[str]:
    """None if the writer layout `w` and the reader layout `r` agree, else a description of the first difference."""
    i = j = 0
    while i < len(w) and j < len(r):
        a, b = w[i], r[j]
        here = f"{path}[{i}]"
        if a[0] == "unknown" or b[0] == "unknown":
            raise LayoutError(f"{here}: {a if a[0] == 'unknown' else b}")
        if a[0] == "transformed":
            return (f"{here}: the writer emits `{a[2]}` instead of the field `{a[1]}` itself; the reader stores what it reads, so a value the reader (and the constructor) accepts "
                    "is written differently from how it was read - not a fixed point, and possibly not even decodable (e.g. an all-zero bitmap window stripped to length 0)")
        if a[0] != b[0]:
            # a trailing fixed/any writer datum may be read as 'rest'
            return f"{here}: writer has {fmt(a)} where the reader has {fmt(b)}"
        if a[0] == "ints":
            if sum(a[1]) != sum(b[1]):
                return f"{here}: integer fields differ: writer {a[1]} bits ({sum(a[1])} total) vs reader {b[1]} bits ({sum(b[1])} total)"
            if len(a[1]) == len(b[1]) and a[1] != b[1]:
                return f"{here}: integer field widths differ: writer {a[1]} vs reader {b[1]}"
        elif a[0] == "data":
            ra, rb = a[1], b[1]
            last = (i == len(w) - 1 and j == len(r) - 1)
            ok = False
            if ra == rb:
                ok = True
            elif ra[0] == "any" or rb[0] == "any":
                # writer writes a field whose length the constructor fixed; the reader must say how much it takes
                ok = rb[0] in ("rest", "fixed", "any") or ra[0] in ("fixed",)
                if ra[0] == "any" and rb[0] == "len":
                    ok = True  # length derived from an integer field both sides carry (a missing prefix shows up as an integer-run difference)
                if ra[0] == "len" and rb[0] == "any":
                    ok = True
            elif {ra[0], rb[0]} == {"fixed", "rest"}:
                ok = last
            elif ra[0] == "fixed" and rb[0] == "fixed":
                ok = ra[1] == rb[1]
            if not ok:
                return f"{here}: octet field differs: writer {fmt(a)} vs reader {fmt(b)}"
            if rb[0] == "rest" and not last and j != len(r) - 1:
                return f"{here}: reader takes the rest of the RDATA but more fields follow"
        elif a[0] in ("rep", "opt"):
            d = compare(a[1], b[1], f"{here}/{a[0]}")
            if d:
                return d
        elif a[0] == "sub":
            if a[1] != b[1]:
                return f"{here}: helper codec differs: {a[1]} vs {b[1]}"
        elif a[0] == "switch":
            ka, kb = set(a[1]), set(b[1])
            for k in sorted(ka | kb, key=str):
                va, vb = a[1].get(k, []), b[1].get(k, [])
                d = compare(va, vb, f"{here}/case {k}")
                if d:
                    return d
        elif a[0] == "name":
            if len(a) > 1 and len(b) > 1 and a[1] != b[1]:
                return (f"{here}: domain name is {'written relative to the origin' if a[1] else 'written absolute'} but "
                        f"{'read relative to the origin' if b[1] else 'read without the origin'}: with an origin the decoded record differs from the encoded one")
        i += 1
        j += 1
    if i < len(w):
        return f"{path}[{i}]: writer emits {fmt(w[i])} that the reader never consumes"
    if j < len(r):
        return f"{path}[{j}]: reader expects {fmt(r[j])} that the writer never emits"
    return None


def fmt(t) -> str:
    if t[0] == "ints":
        return "int fields " + "+".join(str(x) for x in t[1])
    if t[0] == "data":
        r = t[1]
        return {"len": lambda: f"octets counted by the length at run {r[1]} bit {r[2]}", "fixed": lambda: f"{r[1]} fixed octets", "rest": lambda: "the rest of the RDATA",
                "any": lambda: "octets of constructor-determined length"}[r[0]]()
    if t[0] in ("rep", "opt"):
        return f"{t[0]}[{', '.join(fmt(x) for x in t[1])}]"
    if t[0] == "sub":
        return f"helper {t[1]}"
    return str(t[0])


def show(toks) -> str:
    return " | ".join(fmt(t) for t in toks)
