"""Structural source patterns with metavariables, so that rules name the *shape* of a statement and not the spelling of its locals.

A pattern is Python source in which
  __x        (a Name starting with two underscores) is a metavariable: it binds any local identifier (a Name), consistently
             within one Env (the same __x must be the same identifier everywhere the Env is used) and injectively (two
             different metavariables never bind the same identifier);
  __any1     (any name starting with __any) matches any identifier and remembers nothing;
  ___x       (three underscores) binds any expression (compared by its unparsed text when it occurs again);
  await      in the code is transparent (a pattern without it matches the awaited call);
  ...        as a statement in a body matches any (possibly empty) run of statements; as a call argument matches any remaining
             arguments; as an expression matches any expression.
Everything else must match node for node (constants by value, attribute and keyword names by spelling, operators by type).
Comments, blank lines, line breaks, parenthesisation and quoting style never matter (the comparison is on the AST), and patterns
are put into the same normal form as the analysed code (engine.normal): `x = x + e` / `x += e`, the orientation of a comparison
and `if not C: A else: B` / `if C: B else: A` are one spelling each, so a pattern may be written either way.

find(func_node, "stmt; stmt", env)       -> first place where the statement sequence occurs consecutively in any body of func
has(func_node, pattern, env)             -> bool
find_expr(func_node, "expr", env)        -> first sub-expression matching
"""
from __future__ import annotations

import ast
from typing import Optional


class Env(dict):
    """metavariable -> bound identifier / expression text"""

    def name(self, mv: str, default: Optional[str] = None) -> Optional[str]:
        return self.get(mv, default)


def _is_mv(n) -> Optional[str]:
    if isinstance(n, ast.Name) and n.id.startswith("__") and not n.id.endswith("__"):
        return n.id
    return None


def _is_ellipsis_stmt(s) -> bool:
    return isinstance(s, ast.Expr) and isinstance(s.value, ast.Constant) and s.value.value is Ellipsis


def _is_ellipsis_expr(e) -> bool:
    return isinstance(e, ast.Constant) and e.value is Ellipsis


def _norm_text(n) -> str:
    return ast.unparse(n)


def match(p, n, env: Env) -> bool:
    """Match pattern node p against node n, extending env; on failure env may hold partial bindings (callers copy)."""
    mv = _is_mv(p) if isinstance(p, ast.AST) else None
    if mv is not None:
        if mv.startswith("___"):
            if not isinstance(n, ast.expr):
                return False
            t = _norm_text(n)
            if mv in env:
                return env[mv] == t
            env[mv] = t
            return True
        if not isinstance(n, ast.Name):
            return False
        if mv.startswith("__any"):
            return True  # __any, __any1, ...: some identifier, not remembered
        if mv in env:
            return env[mv] == n.id
        if any(v == n.id and k != mv and not k.startswith("___") for k, v in env.items()):
            return False  # two roles are never the same variable
        env[mv] = n.id
        return True
    if isinstance(p, ast.AST) and _is_ellipsis_expr(p) and isinstance(n, ast.expr):
        return True
    if isinstance(n, ast.Await) and not isinstance(p, ast.Await):
        return match(p, n.value, env)  # awaits are transparent: one pattern serves the sync and the async twin
    if type(p) is not type(n):
        return False
    if isinstance(p, ast.Compare) and len(p.ops) == 1 and isinstance(p.ops[0], (ast.Eq, ast.NotEq)) and len(n.ops) == 1 and type(n.ops[0]) is type(p.ops[0]):
        # == and != are symmetric: accept either operand order
        e1 = Env(env)
        if match(p.left, n.left, e1) and match(p.comparators[0], n.comparators[0], e1):
            env.update(e1)
            return True
        e2 = Env(env)
        if match(p.left, n.comparators[0], e2) and match(p.comparators[0], n.left, e2):
            env.update(e2)
            return True
        return False
    if isinstance(p, ast.AST):
        for fld in p._fields:
            if fld in ("ctx", "type_comment", "kind", "lineno", "col_offset", "end_lineno", "end_col_offset", "type_params"):
                continue
            a, b = getattr(p, fld, None), getattr(n, fld, None)
            if fld == "annotation" or (fld == "returns"):
                continue
            if isinstance(p, ast.AnnAssign) and fld == "simple":
                continue
            if fld in ("orelse", "finalbody", "handlers", "decorator_list") and a == []:
                continue  # the pattern does not mention it: anything goes
            if fld == "keywords" and a == [] and isinstance(p, ast.Call) and p.args and _is_ellipsis_expr(p.args[-1]):
                continue  # f(..., ...) leaves the keyword arguments open as well
            if not match(a, b, env):
                return False
        return True
    if isinstance(p, list):
        if p and all(isinstance(x, ast.stmt) for x in p):
            return _match_stmts(p, n, env, anchored_end=True)
        # expression lists (call args, targets...): allow a trailing ... to absorb the rest
        if p and isinstance(p[-1], ast.AST) and _is_ellipsis_expr(p[-1]) and not (n and len(n) == len(p)):
            if len(n) < len(p) - 1:
                return False
            return all(match(a, b, env) for a, b in zip(p[:-1], n[:len(p) - 1]))
        if len(p) != len(n):
            return False
        return all(match(a, b, env) for a, b in zip(p, n))
    return p == n


def _match_stmts(ps, ns, env: Env, anchored_end: bool) -> bool:
    """ps against the whole list ns (ps may contain `...` statements standing for any run)."""
    ns = _strip_doc(ns)
    if not ps:
        return not ns if anchored_end else True
    if _is_ellipsis_stmt(ps[0]):
        for k in range(len(ns) + 1):
            e2 = Env(env)
            if _match_stmts(ps[1:], ns[k:], e2, anchored_end):
                env.update(e2)
                return True
        return False
    if not ns:
        return False
    e2 = Env(env)
    if _match_stmt(ps[0], ns[0], e2) and _match_stmts(ps[1:], ns[1:], e2, anchored_end):
        env.update(e2)
        return True
    return False


def _strip_doc(ns):
    if ns and isinstance(ns[0], ast.Expr) and isinstance(ns[0].value, ast.Constant) and isinstance(ns[0].value.value, str):
        return ns[1:]
    return ns


def _match_stmt(p, n, env: Env) -> bool:
    # AnnAssign in the code matches a plain Assign pattern (annotations never matter)
    if isinstance(p, ast.Assign) and isinstance(n, ast.AnnAssign) and n.value is not None and len(p.targets) == 1:
        return match(p.targets[0], n.target, env) and match(p.value, n.value, env)
    return match(p, n, env)


def _bodies(root):
    for n in ast.walk(root):
        for fld in ("body", "orelse", "finalbody"):
            b = getattr(n, fld, None)
            if isinstance(b, list) and b and isinstance(b[0], ast.stmt):
                yield b
        if isinstance(n, ast.Try):
            for h in n.handlers:
                yield h.body
        if isinstance(n, ast.Match):
            for c in n.cases:
                yield c.body


_cache: dict = {}


def parse(pattern: str):
    if pattern not in _cache:
        from .normal import normalise
        _cache[pattern] = normalise(ast.parse(_prep(pattern))).body
    return _cache[pattern]


def parse_expr(pattern: str):
    key = ("e", pattern)
    if key not in _cache:
        from .normal import normalise
        _cache[key] = normalise(ast.parse(pattern.strip(), mode="eval")).body
    return _cache[key]


def _prep(pattern: str) -> str:
    """Allow one-line compound patterns ending in ':' (header only) by giving them a `...` body."""
    lines = pattern.strip("\n").split("\n")
    out = []
    for i, ln in enumerate(lines):
        out.append(ln)
        if ln.rstrip().endswith(":"):
            nxt = lines[i + 1] if i + 1 < len(lines) else ""
            ind = len(ln) - len(ln.lstrip())
            if not nxt.strip() or (len(nxt) - len(nxt.lstrip())) <= ind:
                out.append(" " * (ind + 4) + "...")
    return "\n".join(out)


def find(root, pattern: str, env: Optional[Env] = None):
    """First (body, index) where the pattern's statements occur consecutively; binds env on success."""
    ps = parse(pattern)
    env = env if env is not None else Env()
    for b in _bodies(root):
        for i in range(len(b)):
            if i + _min_len(ps) > len(b):
                break
            e2 = Env(env)
            if _match_prefix(ps, b[i:], e2):
                env.update(e2)
                return (b, i)
    return None


def _min_len(ps):
    return sum(0 if _is_ellipsis_stmt(p) else 1 for p in ps)


def _match_prefix(ps, ns, env):
    return _match_stmts(ps, ns, env, anchored_end=False)


def has(root, pattern: str, env: Optional[Env] = None) -> bool:
    return find(root, pattern, env) is not None


def find_all(root, pattern: str, env: Optional[Env] = None):
    ps = parse(pattern)
    out = []
    for b in _bodies(root):
        for i in range(len(b)):
            e2 = Env(env or {})
            if _match_prefix(ps, b[i:], e2):
                out.append((b[i], e2))
    return out


def find_expr(root, pattern: str, env: Optional[Env] = None):
    p = parse_expr(pattern)
    env = env if env is not None else Env()
    for n in ast.walk(root):
        if isinstance(n, ast.expr):
            e2 = Env(env)
            if match(p, n, e2):
                env.update(e2)
                return n
    return None


def has_expr(root, pattern: str, env: Optional[Env] = None) -> bool:
    return find_expr(root, pattern, env) is not None


def ends_with(func_node, pattern: str, env: Optional[Env] = None) -> bool:
    """The function body's last statements match the pattern."""
    ps = parse(pattern)
    body = func_node.body
    k = _min_len(ps)
    if len(body) < k:
        return False
    env = env if env is not None else Env()
    for start in range(len(body) - k, -1, -1):
        e2 = Env(env)
        if _match_stmts(ps, body[start:], e2, anchored_end=True):
            env.update(e2)
            return True
        if not any(_is_ellipsis_stmt(p) for p in ps):
            break
    return False


class _Rename(ast.NodeTransformer):
    def __init__(self, mapping):
        self.mapping = mapping

    def visit_Name(self, node):
        if node.id in self.mapping:
            return ast.copy_location(ast.Name(id=self.mapping[node.id], ctx=node.ctx), node)
        return node


def canon(func_node, patterns, env: Optional[Env] = None):
    """Canonicalise the local names of a function: each pattern (a statement shape that *defines* a local) is searched with a
    shared Env; every bound metavariable __x renames the identifier it bound to `x` in a deep copy of the function.  Rules can
    then keep naming locals by their role ("rrnamebuf") while the code is free to spell them differently.  A pattern that does
    not match binds nothing (the role stays unnamed, and the rule that needs it reports the shape change).
    Returns (canonicalised copy, env).  Line numbers are preserved."""
    import copy
    env = env if env is not None else Env()
    for p in patterns:
        has(func_node, p, env)
    mapping = {}
    for mv, actual in env.items():
        if mv.startswith("___"):
            continue
        role = mv[2:]
        if actual != role:
            mapping[actual] = role
    if not mapping:
        return func_node, env
    taken = set(mapping.values())
    # a different local that already uses a role name must get out of the way
    for n in ast.walk(func_node):
        if isinstance(n, ast.Name) and n.id in taken and n.id not in mapping and n.id not in env.values():
            mapping[n.id] = n.id + "__other"
    return _Rename(mapping).visit(copy.deepcopy(func_node)), env


def canon_func(f, patterns, env: Optional[Env] = None):
    """FuncInfo-level convenience: a shallow copy of `f` whose .node is the canonicalised tree (file, qualname, lines unchanged)."""
    import copy
    node, _ = canon(f.node, patterns, env)
    if node is f.node:
        return f
    g = copy.copy(f)
    g.node = node
    return g
