"""Reaching definitions on the statement CFG and a small 'kind' (taint / provenance) evaluation."""
from __future__ import annotations

import ast
from dataclasses import dataclass
from typing import Callable, Optional

from .cfg import CFG, Node
from .model import src, walk_no_nested
from .util import own_exprs, own_nodes


@dataclass
class Def:
    var: str
    node: Optional[Node]  # None => parameter (defined at entry)
    rhs: Optional[ast.AST]  # value expression (None for params / for-targets without a simple rhs)
    index: Optional[int] = None  # tuple-unpack position
    kind: str = "assign"  # assign | param | for | with | aug | except | import | def

    def __repr__(self):
        return f"<def {self.var} {self.kind} L{self.node.lineno if self.node else 0} {src(self.rhs)[:40] if self.rhs is not None else ''}>"


class ReachingDefs:
    def __init__(self, cfg: CFG, params: list[str]):
        self.cfg = cfg
        self.defs: dict[str, list[Def]] = {}
        for p in params:
            self.defs.setdefault(p, []).append(Def(p, None, None, kind="param"))
        for n in cfg.nodes:
            if n.ast is None:
                continue
            for d in self._defs_of(n):
                self.defs.setdefault(d.var, []).append(d)
        self._cache: dict = {}

    def _targets(self, t, rhs, node, kind, out, index=None):
        if isinstance(t, ast.Name):
            out.append(Def(t.id, node, rhs, index, kind))
        elif isinstance(t, (ast.Tuple, ast.List)):
            for i, e in enumerate(t.elts):
                self._targets(e, rhs, node, kind, out, i if index is None else index)
        elif isinstance(t, ast.Starred):
            self._targets(t.value, rhs, node, kind, out, index)

    def _defs_of(self, n: Node) -> list[Def]:
        st = n.ast
        out: list[Def] = []
        if n.kind == "except":
            if st.name:
                out.append(Def(st.name, n, st.type, kind="except"))
            return out
        if isinstance(st, ast.Assign):
            for t in st.targets:
                self._targets(t, st.value, n, "assign", out)
        elif isinstance(st, ast.AnnAssign) and st.value is not None:
            self._targets(st.target, st.value, n, "assign", out)
        elif isinstance(st, ast.AugAssign):
            self._targets(st.target, st, n, "aug", out)
        elif isinstance(st, (ast.For, ast.AsyncFor)):
            self._targets(st.target, st.iter, n, "for", out)
        elif isinstance(st, (ast.With, ast.AsyncWith)):
            for i in st.items:
                if i.optional_vars is not None:
                    self._targets(i.optional_vars, i.context_expr, n, "with", out)
        elif isinstance(st, (ast.FunctionDef, ast.AsyncFunctionDef, ast.ClassDef)):
            out.append(Def(st.name, n, None, kind="def"))
        elif isinstance(st, (ast.Import, ast.ImportFrom)):
            for a in st.names:
                out.append(Def((a.asname or a.name).split(".")[0], n, None, kind="import"))
        # walrus
        for e in own_nodes(st):
            if isinstance(e, ast.NamedExpr) and isinstance(e.target, ast.Name):
                out.append(Def(e.target.id, n, e.value, kind="assign"))
        return out

    def reaching(self, var: str, at: Node, skip_kinds: Optional[set] = None, blocked_edges: Optional[set] = None) -> list[Def]:
        """Definitions of `var` that may reach the *entry* of node `at`."""
        ds = self.defs.get(var, [])
        out = []
        def_nodes = {d.node.id for d in ds if d.node is not None}
        for d in ds:
            if d.node is None:
                start = [self.cfg.entry.id]
                blocked = def_nodes
                r = self.cfg.reachable(start, blocked=blocked - {at.id}, skip_kinds=skip_kinds, blocked_edges=blocked_edges)
                if at.id in r:
                    out.append(d)
            else:
                # leave d.node through non-exceptional edges (the def happened), then avoid other defs
                starts = [y for (y, k) in self.cfg.succ[d.node.id] if k not in ("exc", "raise")
                          and not (blocked_edges and (d.node.id, k) in blocked_edges)]
                if d.kind == "for":
                    starts = [y for (y, k) in self.cfg.succ[d.node.id] if k == "t"]
                blocked = def_nodes - {at.id}
                # a def node re-entered (loop) re-defines; but reaching `at` == d.node itself via loop is fine
                r = self.cfg.reachable([s for s in starts if s not in blocked or s == at.id], blocked=blocked, skip_kinds=skip_kinds,
                                       blocked_edges=blocked_edges)
                if at.id in r:
                    out.append(d)
        return out


def uses_in(node_ast: ast.AST) -> list[ast.Name]:
    return [e for e in own_nodes(node_ast) if isinstance(e, ast.Name) and isinstance(e.ctx, ast.Load)]
