"""Call resolution (who may be called at a call site) with a small flow-insensitive receiver-type inference,
falling back to class-hierarchy analysis by method name."""
from __future__ import annotations

import ast
from typing import Optional

from .model import Model, FuncInfo, ClassInfo, dotted, src, walk_no_nested

# methods of builtin containers / str / bytes / io that are not package code
BUILTIN_METHODS = {
    "append", "extend", "insert", "pop", "popleft", "appendleft", "remove", "clear", "sort", "reverse", "copy", "count", "index", "get", "items", "keys", "values",
    "setdefault", "update", "add", "discard", "union", "intersection", "difference", "issubset", "issuperset", "join", "split", "rsplit", "strip", "lstrip", "rstrip",
    "startswith", "endswith", "lower", "upper", "encode", "decode", "replace", "format", "find", "rfind", "isdigit", "isdecimal", "isspace", "isalpha", "isalnum", "hex",
    "fromhex", "to_bytes", "from_bytes", "bit_length", "write", "read", "readline", "tell", "seek", "truncate", "getvalue", "close", "translate", "maketrans", "zfill",
    "partition", "rpartition", "splitlines", "title", "capitalize", "center", "ljust", "rjust", "group", "groups", "match", "search", "fullmatch", "sub", "digest", "hexdigest",
    "total_seconds", "acquire", "release", "wait", "set", "is_set", "popitem", "most_common", "sendto", "recvfrom", "send", "recv", "sendall", "fileno", "setblocking",
    "getpeername", "getsockname", "connect", "bind", "listen", "accept", "shutdown", "__enter__", "__exit__", "cast", "with_traceback", "cursor",
}
PARAM_NAME_TYPES = {
    "tok": "dns.tokenizer.Tokenizer",
    "parser": "dns.wirebase.Parser",
}


class Resolver:
    def __init__(self, model: Model):
        self.m = model
        self._by_name: dict[str, list[FuncInfo]] = {}
        for f in model.functions.values():
            if f.cls is not None:
                self._by_name.setdefault(f.name, []).append(f)
        self._field_types: dict[tuple[str, str], set] = {}
        self._active: set = set()
        self._tcache: dict = {}
        self.hints_field: dict = {}  # (class qualname, attr) -> set of class qualnames
        self.hints_param: dict = {}  # (function qualname, name) -> set of class qualnames (parameters and locals)
        self.stats = {"resolved": 0, "cha": 0, "builtin": 0, "external": 0, "unresolved": 0}
        self.unresolved_sites: list = []

    # ---------------------------------------------------------------- types
    def ann_classes(self, mi, ann) -> set[str]:
        """Class qualnames named by an annotation expression (handles X | None, Optional[X], "X")."""
        out = set()
        if ann is None:
            return out
        if isinstance(ann, ast.Constant) and isinstance(ann.value, str):
            try:
                ann = ast.parse(ann.value, mode="eval").body
            except SyntaxError:
                return out
        if isinstance(ann, ast.BinOp) and isinstance(ann.op, ast.BitOr):
            return self.ann_classes(mi, ann.left) | self.ann_classes(mi, ann.right)
        if isinstance(ann, ast.Subscript):
            base = dotted(ann.value) or ""
            if base.split(".")[-1] in ("Optional", "Union"):
                sl = ann.slice
                elts = sl.elts if isinstance(sl, ast.Tuple) else [sl]
                for e in elts:
                    out |= self.ann_classes(mi, e)
                return out
            return self.ann_classes(mi, ann.value)
        d = dotted(ann)
        if d:
            r = self.m.resolve_dotted(mi, d)
            if r in self.m.classes:
                out.add(r)
        return out

    def param_types(self, f: FuncInfo, name: str) -> set[str]:
        if (f.qualname, name) in self.hints_param:
            return set(self.hints_param[(f.qualname, name)])
        a = f.node.args
        for arg in a.posonlyargs + a.args + a.kwonlyargs:
            if arg.arg == name:
                t = self.ann_classes(f.module, arg.annotation)
                if t:
                    return t
                # annotation of the same parameter in an overridden base method
                if f.cls is not None:
                    for c in f.cls.mro[1:]:
                        g = c.methods.get(f.name)
                        if g is not None:
                            for ga in g.node.args.posonlyargs + g.node.args.args + g.node.args.kwonlyargs:
                                if ga.arg == name:
                                    t = self.ann_classes(g.module, ga.annotation)
                                    if t:
                                        return t
                if name in PARAM_NAME_TYPES:
                    return {PARAM_NAME_TYPES[name]}
        return set()

    def field_types(self, ci: ClassInfo, attr: str) -> set[str]:
        key = (ci.qualname, attr)
        for c in ci.mro:
            if (c.qualname, attr) in self.hints_field:
                return set(self.hints_field[(c.qualname, attr)])
        if key in self._field_types:
            return self._field_types[key]
        self._field_types[key] = set()
        out = set()
        for c in ci.mro:
            if attr in c.annots:
                out |= self.ann_classes(c.module, c.annots[attr])
            if attr in c.assigns:
                d = dotted(c.assigns[attr])
                r = self.m.resolve_dotted(c.module, d) if d else None
                if r in self.m.classes:
                    out.add(r)
            for mname, f in c.methods.items():
                for n in ast.walk(f.node):
                    if isinstance(n, ast.AnnAssign) and isinstance(n.target, ast.Attribute) and src(n.target.value) == "self" and n.target.attr == attr:
                        out |= self.ann_classes(c.module, n.annotation)
                        if n.value is not None:
                            out |= self.expr_types(f, n.value, depth=1)
                    elif isinstance(n, ast.Assign):
                        for t in n.targets:
                            if isinstance(t, ast.Attribute) and src(t.value) == "self" and t.attr == attr:
                                out |= self.expr_types(f, n.value, depth=1)
        self._field_types[key] = out
        return out

    def expr_types(self, f: FuncInfo, e: ast.AST, depth=0) -> set[str]:
        if depth > 4:
            return set()
        key = (f.qualname, id(e))
        if key in self._active or len(self._active) > 40:
            return set()
        ck = (f.qualname, src(e)) if isinstance(e, (ast.Name, ast.Attribute)) else None
        if ck is not None and ck in self._tcache:
            return self._tcache[ck]
        self._active.add(key)
        try:
            out = self._expr_types(f, e, depth)
        finally:
            self._active.discard(key)
        if ck is not None and len(self._active) == 0:
            self._tcache[ck] = out
        return out

    def _expr_types(self, f: FuncInfo, e: ast.AST, depth=0) -> set[str]:
        if isinstance(e, ast.Name):
            if e.id == "self" and f.cls is not None:
                return {f.cls.qualname}
            if e.id == "cls" and f.cls is not None:
                return {f.cls.qualname}
            t = self.param_types(f, e.id)
            if t:
                return t
            if (f.qualname, e.id) in self.hints_param:
                return set(self.hints_param[(f.qualname, e.id)])
            out = set()
            for n in walk_no_nested(f.node):
                if isinstance(n, ast.Assign) and any(isinstance(t, ast.Name) and t.id == e.id for t in n.targets):
                    out |= self.expr_types(f, n.value, depth + 1)
                elif isinstance(n, ast.AnnAssign) and isinstance(n.target, ast.Name) and n.target.id == e.id:
                    out |= self.ann_classes(f.module, n.annotation)
                elif isinstance(n, (ast.With, ast.AsyncWith)):
                    for i in n.items:
                        if isinstance(i.optional_vars, ast.Name) and i.optional_vars.id == e.id:
                            out |= self.expr_types(f, i.context_expr, depth + 1)
            # closure variable of the enclosing function
            if not out and f.parent is not None:
                out |= self.expr_types(f.parent, e, depth + 1)
            return out
        if isinstance(e, ast.Await):
            return self.expr_types(f, e.value, depth)
        if isinstance(e, ast.Call):
            d = dotted(e.func)
            if d == "cast" and len(e.args) == 2:
                return self.ann_classes(f.module, e.args[0]) or self.expr_types(f, e.args[1], depth + 1)
            tgt = self.m.resolve_expr(f, e.func) if d else None
            if tgt in self.m.classes:
                return {tgt}
            if tgt in self.m.functions:
                g = self.m.functions[tgt]
                return self.ann_classes(g.module, g.node.returns)
            if isinstance(e.func, ast.Attribute):
                out = set()
                for g in self.resolve_method(f, e.func, count=False):
                    if g is not None:
                        out |= self.ann_classes(g.module, g.node.returns)
                return out
            return set()
        if isinstance(e, ast.Attribute):
            base = self.expr_types(f, e.value, depth + 1)
            out = set()
            for b in base:
                ci = self.m.classes.get(b)
                if ci is not None:
                    out |= self.field_types(ci, e.attr)
                    p = self.m.lookup_method(ci, e.attr)
                    if p is not None and "property" in p.decorators():
                        out |= self.ann_classes(p.module, p.node.returns)
            if not out:
                r = self.m.resolve_expr(f, e)
                if r in self.m.classes:
                    out.add(r)
            return out
        if isinstance(e, ast.IfExp):
            return self.expr_types(f, e.body, depth + 1) | self.expr_types(f, e.orelse, depth + 1)
        if isinstance(e, ast.BoolOp):
            out = set()
            for v in e.values:
                out |= self.expr_types(f, v, depth + 1)
            return out
        return set()

    # ---------------------------------------------------------------- kinds (classes + builtin type names), for isinstance pruning
    BUILTIN_KINDS = {"str", "int", "bytes", "bool", "float", "list", "dict", "tuple", "set", "bytearray", "NoneType"}

    def ann_kinds(self, mi, ann, elem=False) -> set[str]:
        out = set()
        if ann is None:
            return out
        if isinstance(ann, ast.Constant):
            if ann.value is None:
                return {"NoneType"}
            if isinstance(ann.value, str):
                try:
                    return self.ann_kinds(mi, ast.parse(ann.value, mode="eval").body, elem)
                except SyntaxError:
                    return out
        if isinstance(ann, ast.BinOp) and isinstance(ann.op, ast.BitOr):
            a, b = self.ann_kinds(mi, ann.left, elem), self.ann_kinds(mi, ann.right, elem)
            return (a | b) if (a and b) else set()
        if isinstance(ann, ast.Subscript):
            base = (dotted(ann.value) or "").split(".")[-1]
            if base in ("Optional",):
                a = self.ann_kinds(mi, ann.slice, elem)
                return (a | {"NoneType"}) if a else set()
            if base == "Union":
                elts = ann.slice.elts if isinstance(ann.slice, ast.Tuple) else [ann.slice]
                parts = [self.ann_kinds(mi, e, elem) for e in elts]
                return set().union(*parts) if all(parts) else set()
            if elem:
                sl = ann.slice
                if base.lower() in ("list", "set", "iterable", "sequence", "collection", "deque", "tuple", "iterator"):
                    e0 = sl.elts[0] if isinstance(sl, ast.Tuple) else sl
                    return self.ann_kinds(mi, e0)
                return set()
            return self.ann_kinds(mi, ann.value)
        d = dotted(ann)
        if d:
            last = d.split(".")[-1]
            if d in self.BUILTIN_KINDS:
                return {d}
            if last in ("List", "Dict", "Tuple", "Set"):
                return {last.lower()}
            r = self.m.resolve_dotted(mi, d)
            if r in self.m.classes:
                return {r}
        return out

    def expr_kinds(self, f: FuncInfo, e: ast.AST, depth=0) -> set[str]:
        """Possible runtime types of e (package class qualnames and builtin type names); empty set = unknown."""
        if depth > 3:
            return set()
        if isinstance(e, ast.Constant):
            return {type(e.value).__name__}
        if isinstance(e, (ast.List, ast.ListComp)):
            return {"list"}
        if isinstance(e, (ast.Dict, ast.DictComp)):
            return {"dict"}
        if isinstance(e, ast.Tuple):
            return {"tuple"}
        if isinstance(e, ast.JoinedStr):
            return {"str"}
        if isinstance(e, ast.Name):
            if e.id == "self" and f.cls is not None:
                return {f.cls.qualname}
            a = f.node.args
            for arg in a.posonlyargs + a.args + a.kwonlyargs:
                if arg.arg == e.id:
                    # a parameter that is re-assigned in the body has whatever kind it was given
                    re_assigned = any(isinstance(n, ast.Assign) and any(isinstance(t, ast.Name) and t.id == e.id for t in n.targets) for n in walk_no_nested(f.node))
                    k = self.ann_kinds(f.module, arg.annotation)
                    if k and not re_assigned:
                        return k
                    if not k:
                        t = self.param_types(f, e.id)
                        if t and not re_assigned:
                            return set(t)
                    return set()
            out = set()
            n_defs = 0
            for n in walk_no_nested(f.node):
                if isinstance(n, ast.Assign) and any(isinstance(t, (ast.Tuple, ast.List)) and any(isinstance(x, ast.Name) and x.id == e.id for x in t.elts) for t in n.targets):
                    # tuple unpacking
                    v = n.value
                    tgt = [t for t in n.targets if isinstance(t, (ast.Tuple, ast.List))][0]
                    idx = [i for i, x in enumerate(tgt.elts) if isinstance(x, ast.Name) and x.id == e.id][0]
                    if isinstance(v, ast.Call) and isinstance(v.func, ast.Attribute) and v.func.attr in ("get_struct", "unpack"):
                        out |= {"int"}
                        n_defs += 1
                        continue
                    if isinstance(v, ast.Tuple) and idx < len(v.elts):
                        k = self.expr_kinds(f, v.elts[idx], depth + 1)
                        if not k:
                            return set()
                        out |= k
                        continue
                    if isinstance(v, ast.Call):
                        gs = []
                        d = dotted(v.func)
                        tq = self.m.resolve_expr(f, v.func) if d else None
                        if tq in self.m.functions:
                            gs = [self.m.functions[tq]]
                        elif isinstance(v.func, ast.Attribute):
                            gs = [g for g in self.resolve_method(f, v.func, count=False) if g is not None]
                        ks = set()
                        okk = bool(gs)
                        for g in gs:
                            r = g.node.returns
                            if isinstance(r, ast.Subscript) and (dotted(r.value) or "").split(".")[-1].lower() == "tuple" and isinstance(r.slice, ast.Tuple) and idx < len(r.slice.elts):
                                kk = self.ann_kinds(g.module, r.slice.elts[idx])
                                if not kk:
                                    okk = False
                                ks |= kk
                            else:
                                okk = False
                        if okk:
                            out |= ks
                            continue
                    return set()
                if isinstance(n, ast.Assign) and any(isinstance(t, ast.Name) and t.id == e.id for t in n.targets):
                    n_defs += 1
                    k = self.expr_kinds(f, n.value, depth + 1)
                    if not k:
                        return set()
                    out |= k
                elif isinstance(n, ast.AnnAssign) and isinstance(n.target, ast.Name) and n.target.id == e.id:
                    n_defs += 1
                    k = self.ann_kinds(f.module, n.annotation)
                    if not k:
                        return set()
                    out |= k
                elif isinstance(n, (ast.For, ast.AsyncFor)) and any(isinstance(t, ast.Name) and t.id == e.id for t in ast.walk(n.target)):
                    return set()
            return out
        if isinstance(e, ast.Call):
            d = dotted(e.func) or ""
            if d in ("int", "len", "ord"):
                return {"int"}
            if d in ("str", "repr", "chr"):
                return {"str"}
            if d in ("bytes",):
                return {"bytes"}
            if d in ("list", "sorted"):
                return {"list"}
            if d in ("dict",):
                return {"dict"}
            if d in ("tuple",):
                return {"tuple"}
            if d == "cast" and len(e.args) == 2:
                return self.ann_kinds(f.module, e.args[0])
            tgt = self.m.resolve_expr(f, e.func) if d else None
            if tgt in self.m.classes:
                return {tgt}
            if tgt in self.m.functions:
                g = self.m.functions[tgt]
                return self.ann_kinds(g.module, g.node.returns)
            if isinstance(e.func, ast.Attribute):
                gs = [g for g in self.resolve_method(f, e.func, count=False) if g is not None]
                if gs:
                    parts = [self.ann_kinds(g.module, g.node.returns) for g in gs]
                    return set().union(*parts) if all(parts) else set()
            return set()
        if isinstance(e, ast.Attribute):
            base = self.expr_types(f, e.value, depth + 1)
            out = set()
            for b in base:
                ci = self.m.classes.get(b)
                if ci is None:
                    return set()
                k = set()
                for c in ci.mro:
                    if e.attr in c.annots:
                        k = self.ann_kinds(c.module, c.annots[e.attr])
                        break
                if not k:
                    for c in ci.mro:
                        for mm in c.methods.values():
                            for n in ast.walk(mm.node):
                                if isinstance(n, ast.AnnAssign) and isinstance(n.target, ast.Attribute) and src(n.target.value) == "self" and n.target.attr == e.attr:
                                    k = self.ann_kinds(c.module, n.annotation)
                    p = self.m.lookup_method(ci, e.attr)
                    if not k and p is not None and "property" in p.decorators():
                        k = self.ann_kinds(p.module, p.node.returns)
                if not k:
                    return set()
                out |= k
            return out
        if isinstance(e, ast.Subscript):
            # element type of an annotated container
            v = e.value
            if isinstance(v, ast.Attribute):
                base = self.expr_types(f, v.value, depth + 1)
                for b in base:
                    ci = self.m.classes.get(b)
                    if ci is None:
                        continue
                    for c in ci.mro:
                        for mm in list(c.methods.values()):
                            for n in ast.walk(mm.node):
                                if isinstance(n, ast.AnnAssign) and isinstance(n.target, ast.Attribute) and src(n.target.value) == "self" and n.target.attr == v.attr:
                                    k = self.ann_kinds(c.module, n.annotation, elem=True)
                                    if k:
                                        return k
                        if v.attr in c.annots:
                            k = self.ann_kinds(c.module, c.annots[v.attr], elem=True)
                            if k:
                                return k
                        p = c.methods.get(v.attr)
                        if p is not None and "property" in p.decorators():
                            k = self.ann_kinds(p.module, p.node.returns, elem=True)
                            if k:
                                return k
            return set()
        return set()

    def kind_is(self, kinds: set[str], tname: str) -> Optional[bool]:
        """Is every / no kind a subtype of tname?  None = cannot tell."""
        if not kinds:
            return None
        res = []
        for k in kinds:
            if k == tname:
                res.append(True)
            elif k in self.m.classes and tname in self.m.classes:
                res.append(self.m.is_subclass(self.m.classes[k], tname))
            elif k in self.m.classes and tname not in self.m.classes:
                # a package class is never a str/int/bytes/list... unless it derives from one
                ext = [b for c in self.m.classes[k].mro for b in c.external_bases]
                res.append(any((b or "").split(".")[-1] == tname for b in ext))
            elif k == "bool" and tname == "int":
                res.append(True)
            elif k in self.BUILTIN_KINDS or k in ("type",):
                res.append(False)
            else:
                return None
        if all(res):
            return True
        if not any(res):
            return False
        return None

    # ---------------------------------------------------------------- calls
    def resolve_method(self, f: FuncInfo, func: ast.Attribute, count=True, ctx: Optional[ClassInfo] = None) -> list[FuncInfo]:
        name = func.attr
        recv = func.value
        # super().m
        if isinstance(recv, ast.Call) and src(recv.func) == "super" and f.cls is not None:
            base = ctx or f.cls
            g = self.m.lookup_method(base, name, after=f.cls)
            return [g] if g else [None]  # None: resolved to a class outside the package (builtin base)
        types = set()
        if isinstance(recv, ast.Name) and recv.id in ("self", "cls") and f.cls is not None:
            base = ctx or f.cls
            g = self.m.lookup_method(base, name)
            out = [g] if g else []
            # virtual dispatch to overriding subclasses of the static class
            for s in self.m.subclasses(base):
                if name in s.methods and s.methods[name] not in out:
                    out.append(s.methods[name])
            if not out:
                # maybe a callable stored in a field / class attribute
                ft = self.field_types(base, name)
                for t in sorted(ft):
                    if t in self.m.classes:
                        out += self._ctor(self.m.classes[t])
                return out or [None]
            return out
        types = self.expr_types(f, recv)
        out = []
        for t in sorted(types):
            ci = self.m.classes.get(t)
            if ci is None:
                continue
            g = self.m.lookup_method(ci, name)
            if g is not None and g not in out:
                out.append(g)
            for s in self.m.subclasses(ci):
                if name in s.methods and s.methods[name] not in out:
                    out.append(s.methods[name])
        return out

    def resolve(self, f: FuncInfo, c: ast.Call, ctx: Optional[ClassInfo] = None) -> tuple[list[FuncInfo], str]:
        """(callees, kind) kind in resolved|cha|builtin|external|unresolved"""
        fn = c.func
        if isinstance(fn, ast.Name) and fn.id == "cls" and f.cls is not None:
            base = ctx or f.cls
            outs = self._ctor(base)
            return outs, ("resolved" if outs else "builtin")
        if isinstance(fn, ast.Name):
            # nested function of this or an enclosing function
            g = f
            while g is not None:
                if fn.id in g.nested:
                    return [g.nested[fn.id]], "resolved"
                g = g.parent
            tgt = self.m.resolve_dotted(f.module, fn.id)
            if tgt in self.m.functions:
                return [self.m.functions[tgt]], "resolved"
            if tgt in self.m.classes:
                return self._ctor(self.m.classes[tgt]), "resolved"
            import builtins as _b
            if hasattr(_b, fn.id) or fn.id in f.module.imports:
                return [], ("builtin" if hasattr(_b, fn.id) else "external")
            # a local variable / parameter holding a callable
            outs = []
            for n in walk_no_nested(f.node):
                if isinstance(n, ast.Assign) and any(isinstance(t, ast.Name) and t.id == fn.id for t in n.targets):
                    v = n.value
                    cands = [v]
                    if isinstance(v, ast.IfExp):
                        cands = [v.body, v.orelse]
                    for v2 in cands:
                        if isinstance(v2, ast.Attribute):
                            fake = ast.Call(func=v2, args=[], keywords=[])
                            r, k = self.resolve(f, fake, ctx)
                            outs += [g for g in r if g not in outs]
                        elif isinstance(v2, ast.Name) and v2.id != fn.id:
                            fake = ast.Call(func=v2, args=[], keywords=[])
                            r, k = self.resolve(f, fake, ctx)
                            outs += [g for g in r if g not in outs]
            if outs:
                return outs, "resolved"
            t = self.expr_types(f, fn)
            for q in sorted(t):
                if q in self.m.classes:
                    g = self.m.lookup_method(self.m.classes[q], "__call__")
                    if g:
                        outs.append(g)
            if outs:
                return outs, "resolved"
            return [], "unresolved"
        if isinstance(fn, ast.Attribute):
            d = dotted(fn)
            if d:
                tgt = self.m.resolve_dotted(f.module, d)
                if tgt in self.m.functions:
                    return [self.m.functions[tgt]], "resolved"
                if tgt in self.m.classes:
                    return self._ctor(self.m.classes[tgt]), "resolved"
                if tgt and "." in tgt:
                    modcls, _, attr = tgt.rpartition(".")
                    if modcls in self.m.classes:
                        g = self.m.lookup_method(self.m.classes[modcls], attr)
                        if g:
                            return [g], "resolved"
                    head = d.split(".")[0]
                    if head in f.module.imports and not f.module.imports[head].startswith(self.m.package):
                        return [], "external"
            out = self.resolve_method(f, fn, ctx=ctx)
            if out:
                real = [g for g in out if g is not None]
                return real, ("resolved" if real else "builtin")
            if fn.attr in BUILTIN_METHODS:
                return [], "builtin"
            cands = self._by_name.get(fn.attr, [])
            if cands:
                return list(cands), "cha"
            return [], "unresolved"
        return [], "unresolved"

    def _ctor(self, ci: ClassInfo) -> list[FuncInfo]:
        out = []
        g = self.m.lookup_method(ci, "__init__")
        if g:
            out.append(g)
        n = self.m.lookup_method(ci, "__new__")
        if n:
            out.append(n)
        return out
