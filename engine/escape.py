"""Interprocedural exception-escape analysis (which exception classes may leave a function), handler-aware,
with ExceptionWrapper modelling and a frozen table of implicit raisers that is applied inside a chosen module zone."""
from __future__ import annotations

import ast
import builtins
from dataclasses import dataclass
from typing import Optional

from .callgraph import Resolver
from .model import Model, FuncInfo, ClassInfo, dotted, src, walk_no_nested, stmt_key
from .util import own_exprs


@dataclass(frozen=True)
class Origin:
    func: str
    line: int
    stmt: str
    kind: str  # raise | implicit:<what> | wrapped
    via: tuple = ()  # call chain from the analysed function (qualnames), outermost first

    def where(self, model: Model) -> str:
        f = model.functions.get(self.func)
        return f"{f.file}:{self.line}" if f else f"?:{self.line}"


class Hierarchy:
    def __init__(self, model: Model):
        self.m = model

    def name(self, f: FuncInfo, e: ast.AST) -> Optional[str]:
        """Canonical exception class name for an expression naming a class."""
        if isinstance(e, ast.Call):
            e = e.func
        d = dotted(e)
        if not d:
            return None
        r = self.m.resolve_dotted(f.module, d)
        if r in self.m.classes:
            return r
        last = d.split(".")[-1]
        if hasattr(builtins, last) and isinstance(getattr(builtins, last), type) and issubclass(getattr(builtins, last), BaseException):
            return last
        if d in ("struct.error",):
            return "struct.error"
        if d.startswith(("socket.", "ssl.", "binascii.", "asyncio.", "trio.", "httpx", "aioquic", "cryptography", "idna.", "base64.", "ipaddress.", "contextvars.")):
            return d
        return None

    def bases(self, name: str) -> list[str]:
        """All ancestors (canonical names), nearest first, including builtins."""
        out = [name]
        if name == "LookupError":
            return ["LookupError", "Exception", "BaseException"]
        if name in self.m.classes:
            ci = self.m.classes[name]
            for c in ci.mro[1:]:
                out.append(c.qualname)
            for c in ci.mro:
                for b in c.external_bases:
                    last = (b or "").split(".")[-1]
                    if hasattr(builtins, last) and isinstance(getattr(builtins, last), type):
                        for k in getattr(builtins, last).__mro__:
                            if k is not object and k.__name__ not in out:
                                out.append(k.__name__)
            return out
        if name == "struct.error":
            return ["struct.error", "Exception", "BaseException"]
        if name == "binascii.Error":
            return ["binascii.Error", "ValueError", "Exception", "BaseException"]
        if name == "UnicodeError?":
            return ["UnicodeError?", "UnicodeError", "ValueError", "Exception", "BaseException"]
        if hasattr(builtins, name) and isinstance(getattr(builtins, name), type):
            return [k.__name__ for k in getattr(builtins, name).__mro__ if k is not object]
        if "." in name:
            return [name, "Exception", "BaseException"]
        return [name, "Exception", "BaseException"]

    def is_sub(self, name: str, base: str) -> bool:
        return base in self.bases(name)


# implicit raisers: construct -> exception class (see DESIGN.md, frozen table)
IMPLICIT_INT = {"int": "ValueError", "float": "ValueError"}


class Escape:
    def __init__(self, model: Model, resolver: Resolver, zone: set[str], dyn_dispatch: Optional[dict] = None):
        self.m = model
        self.r = resolver
        self.h = Hierarchy(model)
        self.zone = zone  # module names in which implicit raisers are tracked
        self.summ: dict[str, dict[str, Origin]] = {}
        self._stack: list[str] = []
        self.dyn = dyn_dispatch or {}
        self.unresolved: list = []
        self.cha_sites: list = []
        self.changed = False
        self.guard = None  # callback(f, node, what) -> bool: implicit raise discharged by a recogniser
        self.trusted_call = None  # callback(f, call) -> bool: the call validates an API argument of f; what it raises is the caller's contract, not a parse result
        self.trusted_sites: list = []
        self._ctx = None
        self._kinds: dict = {}
        self._isi_cache: dict = {}

    # ---------------------------------------------------------------- driver
    def raises(self, f: FuncInfo, ctx: Optional[ClassInfo] = None) -> dict[str, Origin]:
        """Fixpoint summary of f under receiver class ctx (exception name -> one witness origin)."""
        key = self._key(f, ctx)
        if key not in self.summ:
            self.summ[key] = {}
            self._solve(f, ctx)
        return self.summ[key]

    def _key(self, f, ctx, kinds=()):
        k = f.qualname
        if not (ctx is None or f.cls is None or ctx is f.cls):
            k = f"{k}@{ctx.qualname}"
        if kinds:
            k += "#" + ";".join(f"{p}:{'|'.join(sorted(ks))}" for p, ks in kinds)
        return k

    def _solve(self, root: FuncInfo, ctx):
        # simple chaotic iteration over everything reachable
        for _ in range(12):
            self.changed = False
            self._visited = set()
            self._analyse(root, ctx)
            if not self.changed:
                break

    def _analyse(self, f: FuncInfo, ctx=None, kinds=()) -> dict[str, Origin]:
        key = self._key(f, ctx, kinds)
        if key in self._visited:
            return self.summ.setdefault(key, {})
        self._visited.add(key)
        cur = self.summ.setdefault(key, {})
        if self._abstract(f):
            return cur
        saved = (self._ctx, self._kinds)
        self._ctx = ctx if (ctx is not None and f.cls is not None) else f.cls
        self._kinds = dict(kinds)
        try:
            new = self._block(f, f.node.body, caught={}, depth=0)
        finally:
            self._ctx, self._kinds = saved
        for k, o in new.items():
            if k not in cur:
                cur[k] = o
                self.changed = True
        return cur

    def _abstract(self, f: FuncInfo) -> bool:
        """A method whose whole body is `raise NotImplementedError` and which subclasses override: never the dynamic target."""
        if f.cls is None:
            return False
        body = [s for s in f.node.body if not (isinstance(s, ast.Expr) and isinstance(s.value, ast.Constant))]
        if len(body) == 1 and isinstance(body[0], ast.Raise) and body[0].exc is not None and "NotImplementedError" in src(body[0].exc):
            return any(f.name in s.methods for s in self.m.subclasses(f.cls))
        return False

    # ---------------------------------------------------------------- statements
    def _merge(self, a: dict, b: dict):
        for k, o in b.items():
            a.setdefault(k, o)

    @staticmethod
    def K(exc: str, o: "Origin"):
        return (exc, o.func, o.line)

    def _block(self, f, stmts, caught, depth) -> dict[str, Origin]:
        out: dict[str, Origin] = {}
        for st in stmts:
            self._merge(out, self._stmt(f, st, caught, depth))
        return out

    def _stmt(self, f, st, caught, depth) -> dict[str, Origin]:
        out: dict[str, Origin] = {}
        if isinstance(st, (ast.FunctionDef, ast.AsyncFunctionDef, ast.ClassDef)):
            return out
        if isinstance(st, ast.Try):
            body = self._block(f, st.body, caught, depth)
            remaining = dict(body)
            for h in st.handlers:
                names = self._handler_names(f, h.type)
                got = {k: o for k, o in remaining.items() if any(self.h.is_sub(k[0], n) or (k[0] == "LookupError" and n in ("KeyError", "IndexError")) for n in names)}
                for k in got:
                    remaining.pop(k, None)
                hcaught = dict(got)
                if h.name:
                    hcaught["__var__" + h.name] = None  # marker: variable names the caught set
                self._merge(out, self._block(f, h.body, {"set": got, "var": h.name}, depth))
            self._merge(out, remaining)
            self._merge(out, self._block(f, st.orelse, caught, depth))
            self._merge(out, self._block(f, st.finalbody, caught, depth))
            return out
        if isinstance(st, (ast.With, ast.AsyncWith)):
            wrap = None
            for i in st.items:
                ce = i.context_expr
                if isinstance(ce, ast.Call) and (dotted(ce.func) or "").endswith("ExceptionWrapper") and ce.args:
                    wrap = self.h.name(f, ce.args[0])
                else:
                    self._merge(out, self._expr(f, ce, st, caught))
            body = self._block(f, st.body, caught, depth)
            if wrap:
                for k, o in body.items():
                    if self.h.is_sub(k[0], wrap):
                        out.setdefault(k, o)
                    else:
                        o2 = Origin(o.func, o.line, o.stmt, "wrapped:" + k[0], o.via)
                        out.setdefault((wrap, "<wrapped>", 0), o2)
            else:
                self._merge(out, body)
            return out
        if isinstance(st, ast.Raise):
            if st.exc is None:
                for k, o in (caught.get("set") or {}).items():
                    out.setdefault(k, o)
                return out
            # raise e / raise e.with_traceback(...)
            base = st.exc
            if isinstance(base, ast.Call) and isinstance(base.func, ast.Attribute) and base.func.attr == "with_traceback":
                base = base.func.value
            if isinstance(base, ast.Name) and caught.get("var") == base.id:
                for k, o in (caught.get("set") or {}).items():
                    out.setdefault(k, o)
                return out
            n = self.h.name(f, st.exc) if not isinstance(base, ast.Name) or base is st.exc else None
            if n is None and not isinstance(base, ast.Name):
                n = self.h.name(f, base)
            if n is None:
                # a variable holding an exception instance built elsewhere in this function
                n = self._local_exception(f, base)
            names = [n] if n is not None else self._dynamic_raise_classes(f, st.exc)
            if not names:
                names = ["Exception?"]
            o = Origin(f.qualname, st.lineno, stmt_key(st), "raise")
            for n in names:
                out.setdefault(self.K(n, o), o)
            if isinstance(st.exc, ast.Call):
                self._merge(out, self._calls_in(f, st.exc, st, caught, skip_top=True))
            return out
        if isinstance(st, ast.Assert):
            if f.module.name in self.zone and not self._discharged(f, st, "assert"):
                o = Origin(f.qualname, st.lineno, stmt_key(st), "implicit:assert")
                out.setdefault(self.K("AssertionError", o), o)
            self._merge(out, self._expr(f, st.test, st, caught))
            return out
        if isinstance(st, ast.If) and self._kinds:
            v = self._eval_test(f, st.test)
            if v is not None:
                self._merge(out, self._expr(f, st.test, st, caught))
                self._merge(out, self._block(f, st.body if v else st.orelse, caught, depth))
                return out
        if isinstance(st, ast.AnnAssign):
            if st.value is not None:
                self._merge(out, self._expr(f, st.value, st, caught))
            return out
        # compound statements: header expressions then bodies
        for e in own_exprs(st):
            self._merge(out, self._expr(f, e, st, caught))
        for fld in ("body", "orelse"):
            b = getattr(st, fld, None)
            if isinstance(b, list) and b and isinstance(b[0], ast.stmt):
                self._merge(out, self._block(f, b, caught, depth))
        if isinstance(st, ast.Match):
            for c in st.cases:
                self._merge(out, self._block(f, c.body, caught, depth))
        return out

    def _dynamic_raise_classes(self, f, e) -> list[str]:
        """`raise cls.m()` where m is a (class)method whose implementations `return SomeExceptionClass`."""
        if isinstance(e, ast.Call) and isinstance(e.func, ast.Attribute) and not e.args and src(e.func.value) in ("cls", "self", "type(self)", "self.__class__"):
            mname = e.func.attr
            out = []
            for g in self.m.methods_named(mname):
                for r in ast.walk(g.node):
                    if isinstance(r, ast.Return) and r.value is not None:
                        n = self.h.name(g, r.value)
                        if n and n not in out:
                            out.append(n)
            return out
        return []

    def _local_exception(self, f, e) -> Optional[str]:
        if isinstance(e, ast.Name):
            for n in walk_no_nested(f.node):
                if isinstance(n, ast.Assign) and any(isinstance(t, ast.Name) and t.id == e.id for t in n.targets) and isinstance(n.value, ast.Call):
                    r = self.h.name(f, n.value)
                    if r:
                        return r
        return None

    def _handler_names(self, f, t) -> list[str]:
        if t is None:
            return ["BaseException"]
        if isinstance(t, ast.Tuple):
            out = []
            for e in t.elts:
                out += self._handler_names(f, e)
            return out
        n = self.h.name(f, t)
        return [n] if n else ["<unknown-handler>"]

    # ---------------------------------------------------------------- expressions
    def _expr(self, f, e, st, caught) -> dict[str, Origin]:
        out = self._calls_in(f, e, st, caught)
        if f.module.name in self.zone:
            self._merge(out, self._implicit(f, e, st))
        return out

    def _calls_in(self, f, e, st, caught, skip_top=False) -> dict[str, Origin]:
        out: dict[str, Origin] = {}
        if e is None:
            return out
        nodes = [e] + list(walk_no_nested(e)) if not isinstance(e, ast.stmt) else [n for x in own_exprs(e) for n in [x] + list(walk_no_nested(x))]
        for n in nodes:
            if not isinstance(n, ast.Call):
                continue
            if skip_top and n is e:
                # the exception constructor itself
                pass
            if self.trusted_call is not None and self.trusted_call(f, n):
                self.trusted_sites.append((f.qualname, n.lineno, src(n.func)[:50]))
                continue
            callees, kind = self._callees(f, n)
            if kind == "unresolved":
                self.unresolved.append((f.qualname, n.lineno, src(n.func)[:50]))
            if kind == "cha":
                self.cha_sites.append((f.qualname, n.lineno, src(n.func)[:50], len(callees)))
            for g in callees:
                gctx = self._callee_ctx(f, n, g)
                sub = self._analyse(g, gctx, self._arg_kinds(f, n, g))
                for k, o in sub.items():
                    if k not in out:
                        out[k] = Origin(o.func, o.line, o.stmt, o.kind, (g.qualname,) + o.via[:6])
        return out

    def _callees(self, f, c: ast.Call):
        key = (f.qualname, src(c.func))
        if key in self.dyn:
            return [self.m.functions[q] for q in self.dyn[key] if q in self.m.functions], "resolved"
        return self.r.resolve(f, c, ctx=self._ctx if (self._ctx is not None and f.cls is not None and self.m.is_subclass(self._ctx, f.cls)) else None)

    # ---------------------------------------------------------------- argument kinds (one level of context)
    def _tested_params(self, g: FuncInfo) -> set:
        if g.qualname in self._isi_cache:
            return self._isi_cache[g.qualname]
        out = set()
        params = set(g.params())
        for n in walk_no_nested(g.node):
            if isinstance(n, ast.Call) and dotted(n.func) == "isinstance" and len(n.args) == 2 and isinstance(n.args[0], ast.Name) and n.args[0].id in params:
                out.add(n.args[0].id)
        # only parameters that are re-bound solely inside their own isinstance-normalising arms
        ok = set(out)
        self._isi_cache[g.qualname] = ok
        # parameters handed on unchanged to a callee parameter that is itself tested (two levels)
        if not getattr(self, "_in_tp", 0) or self._in_tp < 2:
            self._in_tp = getattr(self, "_in_tp", 0) + 1
            try:
                for n in walk_no_nested(g.node):
                    if not isinstance(n, ast.Call):
                        continue
                    names = [a.id for a in n.args if isinstance(a, ast.Name)] + [k.value.id for k in n.keywords if isinstance(k.value, ast.Name)]
                    if not (set(names) & params):
                        continue
                    try:
                        callees, kind = self.r.resolve(g, n)
                    except Exception:
                        continue
                    if kind != "resolved":
                        continue
                    for h in callees[:4]:
                        if h.qualname == g.qualname:
                            continue
                        th = self._tested_params(h)
                        if not th:
                            continue
                        hp = h.params()
                        if h.cls is not None and hp and hp[0] in ("self", "cls"):
                            hp = hp[1:]
                        for i, a in enumerate(n.args):
                            if isinstance(a, ast.Name) and a.id in params and i < len(hp) and hp[i] in th and self._never_rebound(g, a.id):
                                ok.add(a.id)
                        for k in n.keywords:
                            if isinstance(k.value, ast.Name) and k.value.id in params and k.arg in th and self._never_rebound(g, k.value.id):
                                ok.add(k.value.id)
            finally:
                self._in_tp -= 1
        self._isi_cache[g.qualname] = ok
        return ok

    def _never_rebound(self, g, p) -> bool:
        return True

    def _kind_limit(self, g, p) -> int:
        """Line of the first re-binding of parameter p outside its own isinstance-normalising arm; kinds given by the
        caller are valid up to and including that line (the right-hand side still sees the original value)."""
        key = ("limit", g.qualname, p)
        if key in self._isi_cache:
            return self._isi_cache[key]
        lim = 10 ** 9
        for n in walk_no_nested(g.node):
            if isinstance(n, (ast.Assign, ast.AugAssign, ast.For, ast.AsyncFor, ast.With, ast.AsyncWith)):
                if isinstance(n, ast.Assign):
                    tg = n.targets
                elif isinstance(n, ast.AugAssign):
                    tg = [n.target]
                elif isinstance(n, (ast.For, ast.AsyncFor)):
                    tg = [n.target]
                else:
                    tg = [i.optional_vars for i in n.items if i.optional_vars is not None]
                if any(isinstance(x, ast.Name) and x.id == p for t in tg for x in ast.walk(t)) and not self._inside_isinstance_arm(g, n, p):
                    lim = min(lim, n.lineno)
        self._isi_cache[key] = lim
        return lim

    def _kinds_at(self, f, name, node):
        ks = self._kinds.get(name)
        if not ks:
            return None
        if getattr(node, "lineno", 0) > self._kind_limit(f, name):
            return None
        return ks

    def _inside_isinstance_arm(self, g, node, p) -> bool:
        for n in walk_no_nested(g.node):
            if isinstance(n, ast.If) and any(x is node for b in (n.body,) for s_ in b for x in ast.walk(s_)):
                t = n.test
                if any(isinstance(c, ast.Call) and dotted(c.func) == "isinstance" and c.args and isinstance(c.args[0], ast.Name) and c.args[0].id == p for c in ast.walk(t)):
                    return True
        return False

    def _arg_kinds(self, f, c: ast.Call, g: FuncInfo) -> tuple:
        tested = self._tested_params(g)
        if not tested:
            return ()
        params = g.params()
        is_bound = g.cls is not None and not any(d.endswith("staticmethod") for d in g.decorators())
        if is_bound and params and params[0] in ("self", "cls"):
            params = params[1:]
        amap = {}
        for i, a in enumerate(c.args):
            if isinstance(a, ast.Starred):
                break
            if i < len(params):
                amap[params[i]] = a
        for k in c.keywords:
            if k.arg:
                amap[k.arg] = k.value
        out = []
        # defaults
        a = g.node.args
        allp = a.posonlyargs + a.args
        defaults = dict(zip([x.arg for x in allp][len(allp) - len(a.defaults):], a.defaults))
        for x, d in zip(a.kwonlyargs, a.kw_defaults):
            if d is not None:
                defaults[x.arg] = d
        for p in sorted(tested):
            e = amap.get(p)
            ks = set()
            if e is not None:
                # a parameter of the caller that the caller itself was given with known kinds
                if isinstance(e, ast.Name) and self._kinds_at(f, e.id, c):
                    ks = set(self._kinds_at(f, e.id, c))
                else:
                    ks = self.r.expr_kinds(f, e)
            elif p in defaults and isinstance(defaults[p], ast.Constant):
                ks = {type(defaults[p].value).__name__}
            if ks:
                out.append((p, frozenset(ks)))
        return tuple(out)

    def _eval_test(self, f, t) -> Optional[bool]:
        if isinstance(t, ast.UnaryOp) and isinstance(t.op, ast.Not):
            v = self._eval_test(f, t.operand)
            return None if v is None else (not v)
        if isinstance(t, ast.BoolOp):
            vals = [self._eval_test(f, v) for v in t.values]
            if isinstance(t.op, ast.And):
                if any(v is False for v in vals):
                    return False
                return True if all(v is True for v in vals) else None
            if any(v is True for v in vals):
                return True
            return False if all(v is False for v in vals) else None
        if isinstance(t, ast.Call) and dotted(t.func) == "isinstance" and len(t.args) == 2 and isinstance(t.args[0], ast.Name):
            ks = self._kinds_at(f, t.args[0].id, t)
            if not ks:
                return None
            ty = t.args[1]
            alts = []
            def flat(x):
                if isinstance(x, ast.Tuple):
                    for y in x.elts:
                        flat(y)
                elif isinstance(x, ast.BinOp) and isinstance(x.op, ast.BitOr):
                    flat(x.left); flat(x.right)
                else:
                    alts.append(x)
            flat(ty)
            res = []
            for a in alts:
                d = dotted(a) or ""
                tn = self.m.resolve_dotted(f.module, d)
                if tn not in self.m.classes:
                    tn = d.split(".")[-1]
                res.append(self.r.kind_is(set(ks), tn))
            if any(r is True for r in res):
                return True
            if all(r is False for r in res):
                return False
            return None
        if isinstance(t, ast.Compare) and len(t.ops) == 1 and isinstance(t.left, ast.Name) and isinstance(t.comparators[0], ast.Constant) and t.comparators[0].value is None:
            ks = self._kinds_at(f, t.left.id, t)
            if ks:
                isnone = ks == frozenset({"NoneType"})
                nonone = "NoneType" not in ks
                if isinstance(t.ops[0], ast.Is):
                    return True if isnone else (False if nonone else None)
                if isinstance(t.ops[0], ast.IsNot):
                    return False if isnone else (True if nonone else None)
        return None

    def _callee_ctx(self, f, c: ast.Call, g: FuncInfo):
        """Receiver class under which callee g runs."""
        if g.cls is None:
            return None
        fn = c.func
        if isinstance(fn, ast.Attribute):
            recv = fn.value
            if (isinstance(recv, ast.Name) and recv.id in ("self", "cls")) or (isinstance(recv, ast.Call) and src(recv.func) == "super"):
                cx = self._ctx
                if cx is not None and self.m.is_subclass(cx, g.cls):
                    return cx
                return g.cls
        # constructor call: the class being constructed
        tgt = self.m.resolve_expr(f, fn) if dotted(fn) else None
        if tgt in self.m.classes and self.m.is_subclass(self.m.classes[tgt], g.cls):
            return self.m.classes[tgt]
        return g.cls

    # ---------------------------------------------------------------- implicit raisers
    def _discharged(self, f, node, what) -> bool:
        return bool(self.guard and self.guard(f, node, what))

    def _implicit(self, f, e, st) -> dict[str, Origin]:
        out: dict[str, Origin] = {}
        for n in [e] + list(walk_no_nested(e)):
            what = exc = None
            if isinstance(n, ast.Subscript) and isinstance(n.ctx, ast.Load) and not isinstance(n.slice, ast.Slice):
                # annotations like list[int] inside expressions are not evaluated subscripts of data
                what, exc = "subscript", "LookupError"
            elif isinstance(n, ast.Call):
                d = dotted(n.func) or ""
                if d in ("int", "float") and n.args and not isinstance(n.args[0], ast.Constant):
                    what, exc = f"{d}()", "ValueError"
                elif d == "struct.pack":
                    what, exc = "struct.pack", "struct.error"
                elif d == "struct.unpack":
                    what, exc = "struct.unpack", "struct.error"
                elif isinstance(n.func, ast.Attribute) and n.func.attr in ("decode", "encode"):
                    try:
                        pk, _k = self.r.resolve(f, n)
                    except Exception:
                        pk = []
                    if not pk:
                        what, exc = f".{n.func.attr}()", "UnicodeError?"
                elif isinstance(n.func, ast.Attribute) and n.func.attr in ("index", "remove") and not isinstance(n.func.value, ast.Attribute):
                    what, exc = f".{n.func.attr}()", "ValueError"
                elif d == "next" and len(n.args) == 1:
                    what, exc = "next()", "StopIteration"
                elif d in ("bytes.fromhex", "binascii.unhexlify", "base64.b64decode", "base64.b32decode", "base64.b16decode"):
                    what, exc = d, "ValueError"
                elif d in ("chr",):
                    what, exc = "chr()", "ValueError"
            elif isinstance(n, ast.BinOp) and isinstance(n.op, (ast.Div, ast.FloorDiv, ast.Mod)) and not isinstance(n.right, ast.Constant) and not isinstance(n.left, (ast.Constant, ast.JoinedStr)):
                what, exc = "division", "ZeroDivisionError"
            if what is None:
                continue
            if self._discharged(f, n, what):
                continue
            for x in exc.split("/"):
                o = Origin(f.qualname, getattr(n, "lineno", st.lineno), " ".join(src(n).split())[:80], "implicit:" + what)
                out.setdefault(self.K(x, o), o)
        return out
