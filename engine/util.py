"""Shared helpers for rule modules: statement-own expressions, attribute accesses with
lexical `with` context, path enumeration, etc."""
from __future__ import annotations

import ast
from dataclasses import dataclass
from typing import Iterable, Iterator, Optional

from .cfg import CFG, Node
from .model import FuncInfo, Model, dotted, src, walk_no_nested, stmt_key


def own_exprs(st: ast.AST) -> list[ast.AST]:
    """The expressions evaluated by the CFG node of statement `st` itself (compound
    statements: header only)."""
    if isinstance(st, (ast.If, ast.While)):
        return [st.test]
    if isinstance(st, (ast.For, ast.AsyncFor)):
        return [st.target, st.iter]
    if isinstance(st, (ast.With, ast.AsyncWith)):
        out = []
        for i in st.items:
            out.append(i.context_expr)
            if i.optional_vars is not None:
                out.append(i.optional_vars)
        return out
    if isinstance(st, ast.ExceptHandler):
        return [st.type] if st.type is not None else []
    if isinstance(st, ast.Match):
        return [st.subject]
    if isinstance(st, (ast.FunctionDef, ast.AsyncFunctionDef, ast.ClassDef)):
        return []
    if isinstance(st, ast.Try):
        return []
    return [st]


def own_nodes(st: ast.AST) -> Iterator[ast.AST]:
    for e in own_exprs(st):
        yield e
        yield from walk_no_nested(e)


@dataclass
class Access:
    func: FuncInfo
    cfg: CFG
    node: Node
    expr: ast.Attribute
    field: str
    store: bool
    receiver: str

    @property
    def where(self):
        return f"{self.func.file}:{self.expr.lineno}"


def with_exprs(node: Node) -> list[str]:
    return [src(w.context_expr) for w in node.withs]


def attr_accesses(fi: FuncInfo, cfg: CFG, fields: set[str]) -> list[Access]:
    out = []
    for n in cfg.stmts():
        if n.copy_of_finally:
            continue
        for e in own_nodes(n.ast):
            if isinstance(e, ast.Attribute) and e.attr in fields:
                out.append(Access(fi, cfg, n, e, e.attr, isinstance(e.ctx, (ast.Store, ast.Del)), src(e.value)))
    return out


def calls_with_nodes(cfg: CFG) -> list[tuple[Node, ast.Call]]:
    out = []
    for n in cfg.stmts():
        if n.copy_of_finally:
            continue
        for e in own_nodes(n.ast):
            if isinstance(e, ast.Call):
                out.append((n, e))
    return out


def enumerate_paths(cfg: CFG, start: int, ends: set[int], skip_kinds: Optional[set] = None, limit: int = 20000,
                    loop_unroll: int = 1) -> list[list[tuple[int, str]]]:
    """All paths start -> any end; each node may be visited at most 1+loop_unroll times.
    A path is a list of (node id, edge kind taken to leave it); the last element has kind ''."""
    out = []
    stack = [(start, [], {})]
    while stack:
        x, pth, cnt = stack.pop()
        if x in ends:
            out.append(pth + [(x, "")])
            if len(out) > limit:
                raise OverflowError("too many paths")
            continue
        c = cnt.get(x, 0)
        if c > loop_unroll:
            continue
        cnt2 = dict(cnt)
        cnt2[x] = c + 1
        for (y, k) in cfg.succ[x]:
            if skip_kinds and k in skip_kinds:
                continue
            stack.append((y, pth + [(x, k)], cnt2))
    return out


def is_const_none(e: Optional[ast.AST]) -> bool:
    return e is None or (isinstance(e, ast.Constant) and e.value is None)


def is_self_attr(e: ast.AST, name: Optional[str] = None) -> bool:
    return isinstance(e, ast.Attribute) and isinstance(e.value, ast.Name) and e.value.id == "self" and (name is None or e.attr == name)


def root_name(e: ast.AST) -> Optional[str]:
    while isinstance(e, (ast.Attribute, ast.Subscript, ast.Call)):
        e = e.value if not isinstance(e, ast.Call) else e.func
    return e.id if isinstance(e, ast.Name) else None


def assigned_names(st: ast.AST) -> set[str]:
    out = set()
    if isinstance(st, ast.Assign):
        for t in st.targets:
            for n in ast.walk(t):
                if isinstance(n, ast.Name):
                    out.add(n.id)
    elif isinstance(st, (ast.AugAssign, ast.AnnAssign)):
        for n in ast.walk(st.target):
            if isinstance(n, ast.Name):
                out.add(n.id)
    elif isinstance(st, (ast.For, ast.AsyncFor)):
        for n in ast.walk(st.target):
            if isinstance(n, ast.Name):
                out.add(n.id)
    elif isinstance(st, (ast.With, ast.AsyncWith)):
        for i in st.items:
            if i.optional_vars is not None:
                for n in ast.walk(i.optional_vars):
                    if isinstance(n, ast.Name):
                        out.add(n.id)
    return out


def local_defs(fi: FuncInfo) -> dict[str, list[ast.AST]]:
    """name -> list of rhs expressions assigned to it anywhere in the function (flow-insensitive)."""
    out: dict[str, list] = {}
    for n in [*fi.node.body, *[x for st in fi.node.body for x in walk_no_nested(st)]]:
        if isinstance(n, ast.Assign):
            for t in n.targets:
                if isinstance(t, ast.Name):
                    out.setdefault(t.id, []).append(n.value)
                elif isinstance(t, (ast.Tuple, ast.List)):
                    for i, el in enumerate(t.elts):
                        if isinstance(el, ast.Name):
                            out.setdefault(el.id, []).append(ast.Subscript(value=n.value, slice=ast.Constant(i), ctx=ast.Load()))
        elif isinstance(n, ast.AnnAssign) and isinstance(n.target, ast.Name) and n.value is not None:
            out.setdefault(n.target.id, []).append(n.value)
        elif isinstance(n, ast.NamedExpr) and isinstance(n.target, ast.Name):
            out.setdefault(n.target.id, []).append(n.value)
    return out


def find_stmts(fi: FuncInfo, pred) -> list[ast.AST]:
    out = []
    for st in fi.node.body:
        for n in [st, *walk_no_nested(st)]:
            if isinstance(n, ast.stmt) and pred(n):
                out.append(n)
    return out


def where(fi: FuncInfo, node: ast.AST) -> str:
    return f"{fi.file}:{getattr(node, 'lineno', fi.lineno)}"


def optional_numeric_params(f) -> set:
    """parameters annotated `int | None` / `float | None` (0 is a legitimate value distinct from 'absent')"""
    out = set()
    a = f.node.args
    for arg in a.posonlyargs + a.args + a.kwonlyargs:
        ann = ast.unparse(arg.annotation) if arg.annotation is not None else ""
        if "None" in ann and any(t in ann.replace("Optional", "") for t in ("int", "float")):
            out.add(arg.arg)
    return out


def optional_numeric_attrs(ci) -> set:
    """`self.x` attributes of a class annotated `int | None` / `float | None` in any of its methods (or as class-level annotations)"""
    out = set()
    for n in ast.walk(ci.node):
        if isinstance(n, ast.AnnAssign):
            ann = ast.unparse(n.annotation)
            if "None" in ann and any(t in ann.replace("Optional", "") for t in ("int", "float")):
                if isinstance(n.target, ast.Attribute) and isinstance(n.target.value, ast.Name) and n.target.value.id == "self":
                    out.add("self." + n.target.attr)
                elif isinstance(n.target, ast.Name) and n in ci.node.body:
                    out.add("self." + n.target.id)
    return out


def truthiness_uses(fnode, names) -> list:
    """(node, name, how): places where one of `names` is used for its truth value: a test atom (`if x`, `if not x`, `x and ...`)
    or a non-final operand of `x or default` / `x and ...` in any expression."""
    from .cfg import normalise_compare, atoms
    out = []
    seen = set()
    for n in ast.walk(fnode):
        if isinstance(n, (ast.If, ast.While, ast.IfExp, ast.Assert)):
            for a in atoms(normalise_compare(n.test)):
                if a[0] in names and a[1] in ("truthy", "falsy"):
                    out.append((n, a[0], f"tested as `{'not ' if a[1] == 'falsy' else ''}{a[0]}`"))
                    for x in ast.walk(n.test):
                        seen.add(id(x))
    for n in ast.walk(fnode):
        if isinstance(n, ast.BoolOp) and id(n) not in seen:
            for v in n.values[:-1]:
                if isinstance(v, (ast.Name, ast.Attribute)) and ast.unparse(v) in names:
                    out.append((n, ast.unparse(v), f"used as `{ast.unparse(n)[:40]}`"))
    return out
