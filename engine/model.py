"""Program model of /repo/dns built from source text only (ast); nothing is imported or run.

Model: modules, import aliases, classes with C3 MRO, functions (methods, nested
functions), module-level constants, field tables, and a small flow-insensitive
type inference for receiver expressions (used to resolve `var.m()` calls).
"""
from __future__ import annotations

import ast
import os
import sys
from dataclasses import dataclass, field
from typing import Iterable, Iterator, Optional


class AnalysisError(Exception):
    """The checker is blind (anchor vanished, unknown shape): exit 2, never a pass."""


REPO = os.environ.get("VERIF_REPO", "/repo")


@dataclass
class FuncInfo:
    qualname: str  # dns.name.Name.to_wire / dns.name.from_text / dns.x.f.<locals>.g
    name: str
    node: ast.AST  # FunctionDef | AsyncFunctionDef
    module: "ModuleInfo"
    cls: Optional["ClassInfo"]
    parent: Optional["FuncInfo"] = None
    nested: dict = field(default_factory=dict)

    @property
    def is_async(self) -> bool:
        return isinstance(self.node, ast.AsyncFunctionDef)

    @property
    def file(self) -> str:
        return self.module.relpath

    @property
    def lineno(self) -> int:
        return self.node.lineno

    def params(self) -> list[str]:
        a = self.node.args
        return [x.arg for x in a.posonlyargs + a.args] + ([a.vararg.arg] if a.vararg else []) + [
            x.arg for x in a.kwonlyargs
        ] + ([a.kwarg.arg] if a.kwarg else [])

    def decorators(self) -> list[str]:
        return [dotted(d) or "" for d in self.node.decorator_list]

    def __repr__(self):
        return f"<func {self.qualname}>"


@dataclass
class ClassInfo:
    qualname: str
    name: str
    node: ast.ClassDef
    module: "ModuleInfo"
    bases: list = field(default_factory=list)  # resolved qualnames (or raw dotted text if external)
    methods: dict = field(default_factory=dict)  # name -> FuncInfo
    assigns: dict = field(default_factory=dict)  # class-level name -> value node
    annots: dict = field(default_factory=dict)  # class-level name -> annotation node
    mro: list = field(default_factory=list)  # ClassInfo list (internal classes only)
    external_bases: list = field(default_factory=list)

    @property
    def file(self) -> str:
        return self.module.relpath

    def decorators(self) -> list[str]:
        return [dotted(d.func if isinstance(d, ast.Call) else d) or "" for d in self.node.decorator_list]

    def __repr__(self):
        return f"<class {self.qualname}>"

    def __hash__(self):
        return hash(self.qualname)

    def __eq__(self, o):
        return isinstance(o, ClassInfo) and o.qualname == self.qualname


@dataclass
class ModuleInfo:
    name: str
    path: str
    relpath: str
    source: str
    tree: ast.Module
    imports: dict = field(default_factory=dict)  # local alias -> dotted target
    assigns: dict = field(default_factory=dict)  # top-level name -> value node (last one)
    classes: dict = field(default_factory=dict)
    functions: dict = field(default_factory=dict)
    lines: list = field(default_factory=list)


def dotted(node: ast.AST) -> Optional[str]:
    """a.b.c for Name/Attribute chains, else None."""
    parts = []
    while isinstance(node, ast.Attribute):
        parts.append(node.attr)
        node = node.value
    if isinstance(node, ast.Name):
        parts.append(node.id)
        return ".".join(reversed(parts))
    return None


def src(node: ast.AST) -> str:
    """Normalised source text of a node (whitespace/quote independent)."""
    try:
        return ast.unparse(node)
    except Exception:  # pragma: no cover
        return "<?>"


def stmt_key(node: ast.AST) -> str:
    s = src(node)
    s = s.split("\n")[0] if isinstance(node, (ast.If, ast.While, ast.For, ast.With, ast.Try, ast.AsyncFor, ast.AsyncWith)) else s
    return " ".join(s.split())[:200]


class Model:
    def __init__(self, repo: str = REPO, package: str = "dns"):
        self.repo = repo
        self.package = package
        self.modules: dict[str, ModuleInfo] = {}
        self.classes: dict[str, ClassInfo] = {}
        self.functions: dict[str, FuncInfo] = {}
        self._subclasses: dict[str, list] = {}
        self._load()
        self._link()
        self._normalise()
        self._apply_roles()

    def _normalise(self):
        """Every function of the package is rewritten in place into the normal form of engine.normal (line numbers kept)."""
        from .normal import normalise
        for mi in self.modules.values():
            normalise(mi.tree)

    def _apply_roles(self):
        """Rename the locals of the functions listed in rules.roles.ROLES to their role names, in place (line numbers kept).
        A role pattern names a local by the shape of the statement that defines it, so rules can speak of `rr_start` or
        `least_kept` while the code is free to spell the variable differently (a consistent rename is behaviour-preserving)."""
        try:
            from rules.roles import ROLES
        except Exception:
            return
        from . import pat
        self.role_stats = {"functions": 0, "functions_missing": [], "locals_renamed": 0, "unbound_patterns": []}
        for q, patterns in ROLES.items():
            f = self.functions.get(q)
            if f is None:
                self.role_stats["functions_missing"].append(q)
                continue
            self.role_stats["functions"] += 1
            env = pat.Env()
            for p_ in patterns:
                if not pat.has(f.node, p_, env):
                    self.role_stats["unbound_patterns"].append(f"{q}: {p_.splitlines()[0][:60]}")
            mapping = {actual: mv[2:] for mv, actual in env.items() if not mv.startswith("___") and actual != mv[2:]}
            if not mapping:
                continue
            taken = set(mapping.values())
            bound = set(env.values())
            for n in ast.walk(f.node):
                if isinstance(n, ast.Name) and n.id in taken and n.id not in mapping and n.id not in bound:
                    mapping[n.id] = n.id + "__other"
            self.role_stats["locals_renamed"] += len(mapping)
            for n in ast.walk(f.node):
                if isinstance(n, ast.Name) and n.id in mapping:
                    n.id = mapping[n.id]

    # ------------------------------------------------------------------ loading
    def _load(self):
        root = os.path.join(self.repo, self.package)
        if not os.path.isdir(root):
            raise AnalysisError(f"package directory {root} not found")
        for dirpath, dirnames, filenames in os.walk(root):
            dirnames[:] = sorted(d for d in dirnames if d != "__pycache__")
            for fn in sorted(filenames):
                if not fn.endswith(".py"):
                    continue
                path = os.path.join(dirpath, fn)
                rel = os.path.relpath(path, self.repo)
                modname = rel[:-3].replace(os.sep, ".")
                if modname.endswith(".__init__"):
                    modname = modname[: -len(".__init__")]
                with open(path, encoding="utf-8") as f:
                    text = f.read()
                try:
                    tree = ast.parse(text, filename=path)
                except SyntaxError as e:
                    raise AnalysisError(f"cannot parse {rel}: {e}")
                mi = ModuleInfo(modname, path, rel, text, tree, lines=text.split("\n"))
                self.modules[modname] = mi
                self._index_module(mi)

    def _index_module(self, mi: ModuleInfo):
        def walk_body(body, in_try=False):
            for st in body:
                if isinstance(st, ast.Import):
                    for a in st.names:
                        if a.asname:
                            mi.imports[a.asname] = a.name
                        else:
                            mi.imports[a.name.split(".")[0]] = a.name.split(".")[0]
                elif isinstance(st, ast.ImportFrom):
                    base = st.module or ""
                    if st.level:
                        pkg = mi.name.split(".")
                        if not mi.path.endswith("__init__.py"):
                            pkg = pkg[:-1]
                        pkg = pkg[: len(pkg) - (st.level - 1)]
                        base = ".".join(pkg + ([st.module] if st.module else []))
                    for a in st.names:
                        mi.imports[a.asname or a.name] = f"{base}.{a.name}"
                elif isinstance(st, ast.Assign):
                    for t in st.targets:
                        if isinstance(t, ast.Name):
                            mi.assigns[t.id] = st.value
                elif isinstance(st, ast.AnnAssign):
                    if isinstance(st.target, ast.Name) and st.value is not None:
                        mi.assigns[st.target.id] = st.value
                elif isinstance(st, ast.ClassDef):
                    self._index_class(mi, st, mi.name, None)
                elif isinstance(st, (ast.FunctionDef, ast.AsyncFunctionDef)):
                    fi = self._index_func(mi, st, mi.name, None, None)
                    mi.functions[st.name] = fi
                elif isinstance(st, ast.If):
                    walk_body(st.body)
                    walk_body(st.orelse)
                elif isinstance(st, ast.Try):
                    walk_body(st.body)
                    for h in st.handlers:
                        walk_body(h.body)
                    walk_body(st.orelse)
                    walk_body(st.finalbody)

        walk_body(mi.tree.body)

    def _index_class(self, mi, node: ast.ClassDef, prefix: str, parent_func):
        qn = f"{prefix}.{node.name}"
        ci = ClassInfo(qn, node.name, node, mi)
        self.classes[qn] = ci
        if prefix == mi.name:
            mi.classes[node.name] = ci
        for st in node.body:
            if isinstance(st, (ast.FunctionDef, ast.AsyncFunctionDef)):
                fi = self._index_func(mi, st, qn, ci, parent_func)
                # keep the last definition (property setter etc. share a name): prefer the getter
                if st.name in ci.methods and any(
                    (dotted(d) or "").endswith(".setter") for d in st.decorator_list
                ):
                    ci.methods[st.name + ".setter"] = fi
                else:
                    ci.methods[st.name] = fi
            elif isinstance(st, ast.Assign):
                for t in st.targets:
                    if isinstance(t, ast.Name):
                        ci.assigns[t.id] = st.value
            elif isinstance(st, ast.AnnAssign) and isinstance(st.target, ast.Name):
                ci.annots[st.target.id] = st.annotation
                if st.value is not None:
                    ci.assigns[st.target.id] = st.value
            elif isinstance(st, ast.ClassDef):
                self._index_class(mi, st, qn, parent_func)
        return ci

    def _index_func(self, mi, node, prefix: str, cls, parent):
        qn = f"{prefix}.{node.name}"
        if qn in self.functions:
            # property setter / overload: disambiguate
            if any((dotted(d) or "").endswith(".setter") for d in node.decorator_list):
                qn = qn + ".setter"
            else:
                k = 2
                while f"{qn}#{k}" in self.functions:
                    k += 1
                qn = f"{qn}#{k}"
        fi = FuncInfo(qn, node.name, node, mi, cls, parent)
        self.functions[qn] = fi

        # nested functions / classes
        def scan(body):
            for st in body:
                if isinstance(st, (ast.FunctionDef, ast.AsyncFunctionDef)):
                    sub = self._index_func(mi, st, qn + ".<locals>", None, fi)
                    fi.nested[st.name] = sub
                elif isinstance(st, ast.ClassDef):
                    self._index_class(mi, st, qn + ".<locals>", fi)
                else:
                    for fld in ("body", "orelse", "finalbody", "handlers"):
                        sub = getattr(st, fld, None)
                        if isinstance(sub, list):
                            scan([x for x in sub if isinstance(x, ast.stmt)] )
                            for h in sub:
                                if isinstance(h, ast.ExceptHandler):
                                    scan(h.body)

        scan(node.body)
        return fi

    # ------------------------------------------------------------------ linking
    def _link(self):
        for ci in self.classes.values():
            for b in ci.node.bases:
                base_expr = b
                if isinstance(b, ast.Subscript):  # Generic[T] etc.
                    base_expr = b.value
                d = dotted(base_expr)
                tgt = self.resolve_dotted(ci.module, d) if d else None
                if tgt in self.classes:
                    ci.bases.append(tgt)
                else:
                    ci.external_bases.append(tgt or d or src(b))
        for ci in self.classes.values():
            for b in ci.bases:
                self._subclasses.setdefault(b, []).append(ci)
        for ci in self.classes.values():
            ci.mro = self._c3(ci)

    def _c3(self, ci: ClassInfo, _seen=()) -> list:
        if ci.qualname in _seen:
            raise AnalysisError(f"inheritance cycle at {ci.qualname}")
        seqs = [self._c3(self.classes[b], _seen + (ci.qualname,)) for b in ci.bases]
        seqs.append([self.classes[b] for b in ci.bases])
        res = [ci]
        seqs = [list(s) for s in seqs if s]
        while seqs:
            for s in seqs:
                cand = s[0]
                if not any(cand in t[1:] for t in seqs):
                    break
            else:
                raise AnalysisError(f"no C3 linearisation for {ci.qualname}")
            res.append(cand)
            seqs = [[x for x in s if x != cand] for s in seqs]
            seqs = [s for s in seqs if s]
        return res

    # ------------------------------------------------------------------ resolution
    def resolve_dotted(self, mi: ModuleInfo, d: Optional[str], _depth=0) -> Optional[str]:
        """Resolve a dotted expression text seen in module `mi` to a package-qualified name
        (module, class, function, or module attribute).  Follows import aliases and
        module-level aliases such as ``Node = dns.zone.VersionedNode``."""
        if not d or _depth > 8:
            return d
        parts = d.split(".")
        head = parts[0]
        # local definitions first
        if head in mi.classes or head in mi.functions:
            cur = f"{mi.name}.{head}"
            rest = parts[1:]
        elif head in mi.assigns and head not in mi.imports:
            v = mi.assigns[head]
            vd = dotted(v) if isinstance(v, (ast.Name, ast.Attribute)) else None
            if vd and vd != head:
                r = self.resolve_dotted(mi, vd, _depth + 1)
                cur, rest = r, parts[1:]
            else:
                cur, rest = f"{mi.name}.{head}", parts[1:]
        elif head in mi.imports:
            cur, rest = mi.imports[head], parts[1:]
        else:
            return d
        # walk the remaining attributes through modules / module aliases
        while rest:
            nxt = f"{cur}.{rest[0]}"
            if nxt in self.modules or nxt in self.classes or nxt in self.functions:
                cur = nxt
            elif cur in self.modules:
                m2 = self.modules[cur]
                if rest[0] in m2.imports and rest[0] not in m2.classes and rest[0] not in m2.functions:
                    cur = m2.imports[rest[0]]
                elif rest[0] in m2.assigns:
                    v = m2.assigns[rest[0]]
                    vd = dotted(v) if isinstance(v, (ast.Name, ast.Attribute)) else None
                    if vd:
                        cur = self.resolve_dotted(m2, vd, _depth + 1)
                    else:
                        cur = nxt
                else:
                    cur = nxt
            else:
                cur = nxt
            rest = rest[1:]
        # a final alias hop (X imported from module where X is itself an alias)
        if cur not in self.classes and cur not in self.functions and cur not in self.modules and "." in cur:
            modn, _, attr = cur.rpartition(".")
            if modn in self.modules:
                m2 = self.modules[modn]
                if attr in m2.imports:
                    return self.resolve_dotted(m2, attr, _depth + 1)
                if attr in m2.assigns:
                    v = m2.assigns[attr]
                    vd = dotted(v) if isinstance(v, (ast.Name, ast.Attribute)) else None
                    if vd and vd != attr:
                        return self.resolve_dotted(m2, vd, _depth + 1)
        return cur

    def resolve_expr(self, fi_or_mi, node: ast.AST) -> Optional[str]:
        mi = fi_or_mi.module if isinstance(fi_or_mi, FuncInfo) else fi_or_mi
        d = dotted(node)
        return self.resolve_dotted(mi, d) if d else None

    # ------------------------------------------------------------------ lookups
    def module(self, name: str) -> ModuleInfo:
        if name not in self.modules:
            raise AnalysisError(f"anchor module {name} not found")
        return self.modules[name]

    def cls(self, qualname: str) -> ClassInfo:
        if qualname not in self.classes:
            raise AnalysisError(f"anchor class {qualname} not found")
        return self.classes[qualname]

    def func(self, qualname: str) -> FuncInfo:
        if qualname not in self.functions:
            # allow Class.method through MRO
            modcls, _, meth = qualname.rpartition(".")
            if modcls in self.classes:
                f = self.lookup_method(self.classes[modcls], meth)
                if f:
                    return f
            raise AnalysisError(f"anchor function {qualname} not found")
        return self.functions[qualname]

    def has_func(self, qualname: str) -> bool:
        return qualname in self.functions

    def lookup_method(self, ci: ClassInfo, name: str, after: Optional[ClassInfo] = None) -> Optional[FuncInfo]:
        mro = ci.mro
        if after is not None:
            if after in mro:
                mro = mro[mro.index(after) + 1 :]
            else:
                mro = after.mro[1:]
        for c in mro:
            if name in c.methods:
                return c.methods[name]
        return None

    def lookup_class_attr(self, ci: ClassInfo, name: str):
        for c in ci.mro:
            if name in c.assigns:
                return c, c.assigns[name]
        return None, None

    def subclasses(self, ci: ClassInfo, strict=True) -> list[ClassInfo]:
        out, todo = [], [ci]
        seen = set()
        while todo:
            c = todo.pop()
            for s in self._subclasses.get(c.qualname, []):
                if s.qualname not in seen:
                    seen.add(s.qualname)
                    out.append(s)
                    todo.append(s)
        if not strict:
            out.insert(0, ci)
        return sorted(out, key=lambda c: c.qualname)

    def is_subclass(self, ci: ClassInfo, base: ClassInfo | str) -> bool:
        bq = base if isinstance(base, str) else base.qualname
        return any(c.qualname == bq for c in ci.mro)

    def methods_named(self, name: str) -> list[FuncInfo]:
        return [f for f in self.functions.values() if f.name == name and f.cls is not None]

    def all_functions(self) -> Iterable[FuncInfo]:
        return self.functions.values()

    def functions_in(self, modname: str) -> list[FuncInfo]:
        return [f for f in self.functions.values() if f.module.name == modname]

    # ------------------------------------------------------------------ constants
    def const(self, mi: ModuleInfo, node: ast.AST, _depth=0):
        """Fold a constant expression (literals, module-level names, simple operators,
        enum member values).  Raises AnalysisError when it cannot."""
        if _depth > 10:
            raise AnalysisError("constant folding too deep")
        if isinstance(node, ast.Constant):
            return node.value
        if isinstance(node, (ast.Tuple, ast.List, ast.Set)):
            vals = [self.const(mi, e, _depth + 1) for e in node.elts]
            return tuple(vals) if isinstance(node, ast.Tuple) else (vals if isinstance(node, ast.List) else set(vals))
        if isinstance(node, ast.Dict):
            return {self.const(mi, k, _depth + 1): self.const(mi, v, _depth + 1) for k, v in zip(node.keys, node.values)}
        if isinstance(node, ast.UnaryOp) and isinstance(node.op, (ast.USub, ast.Invert, ast.Not)):
            v = self.const(mi, node.operand, _depth + 1)
            return -v if isinstance(node.op, ast.USub) else (~v if isinstance(node.op, ast.Invert) else (not v))
        if isinstance(node, ast.BinOp):
            a, b = self.const(mi, node.left, _depth + 1), self.const(mi, node.right, _depth + 1)
            ops = {ast.Add: lambda: a + b, ast.Sub: lambda: a - b, ast.Mult: lambda: a * b, ast.BitOr: lambda: a | b,
                   ast.BitAnd: lambda: a & b, ast.LShift: lambda: a << b, ast.RShift: lambda: a >> b,
                   ast.FloorDiv: lambda: a // b, ast.Mod: lambda: a % b, ast.Pow: lambda: a ** b}
            if type(node.op) in ops:
                return ops[type(node.op)]()
        if isinstance(node, (ast.Name, ast.Attribute)):
            d = dotted(node)
            if d:
                r = self.resolve_dotted(mi, d)
                if r and "." in r:
                    modn, _, attr = r.rpartition(".")
                    if modn in self.modules and attr in self.modules[modn].assigns:
                        return self.const(self.modules[modn], self.modules[modn].assigns[attr], _depth + 1)
                    if modn in self.classes and attr in self.classes[modn].assigns:
                        ci = self.classes[modn]
                        return self.const(ci.module, ci.assigns[attr], _depth + 1)
                if isinstance(node, ast.Name) and node.id in mi.assigns:
                    return self.const(mi, mi.assigns[node.id], _depth + 1)
        if isinstance(node, ast.Call) and dotted(node.func) in ("frozenset", "set", "tuple", "list", "bytes") and len(node.args) == 1:
            v = self.const(mi, node.args[0], _depth + 1)
            return {"frozenset": frozenset, "set": set, "tuple": tuple, "list": list, "bytes": bytes}[dotted(node.func)](v)
        if isinstance(node, ast.Call) and dotted(node.func) == "ord" and len(node.args) == 1 and not node.keywords:
            v = self.const(mi, node.args[0], _depth + 1)
            if isinstance(v, (str, bytes)) and len(v) == 1:
                return ord(v)
        raise AnalysisError(f"cannot fold constant {src(node)[:60]}")

    def enum_members(self, ci: ClassInfo) -> dict:
        out = {}
        for k, v in ci.assigns.items():
            if k.startswith("_"):
                continue
            try:
                out[k] = self.const(ci.module, v)
            except AnalysisError:
                pass
        return out

    # ------------------------------------------------------------------ helpers
    def loc(self, owner, node: ast.AST) -> str:
        mi = owner.module if hasattr(owner, "module") else owner
        return f"{mi.relpath}:{getattr(node, 'lineno', 0)}"

    def stats(self) -> dict:
        return {
            "modules": len(self.modules),
            "classes": len(self.classes),
            "functions": len(self.functions),
        }


# ---------------------------------------------------------------------- generic AST helpers
def walk_no_nested(node: ast.AST) -> Iterator[ast.AST]:
    """ast.walk that does not descend into nested function/class definitions or lambdas."""
    todo = list(ast.iter_child_nodes(node))
    while todo:
        n = todo.pop(0)
        yield n
        if isinstance(n, (ast.FunctionDef, ast.AsyncFunctionDef, ast.ClassDef, ast.Lambda)):
            continue
        todo[0:0] = list(ast.iter_child_nodes(n))


def calls_in(node: ast.AST) -> list[ast.Call]:
    return [n for n in walk_no_nested(node) if isinstance(n, ast.Call)]


def func_body_nodes(fi: FuncInfo) -> Iterator[ast.AST]:
    for st in fi.node.body:
        yield st
        yield from walk_no_nested(st)


def call_name(c: ast.Call) -> str:
    return dotted(c.func) or src(c.func)


def kwarg(c: ast.Call, name: str, pos: Optional[int] = None) -> Optional[ast.AST]:
    for k in c.keywords:
        if k.arg == name:
            return k.value
    if pos is not None and pos < len(c.args) and not any(isinstance(a, ast.Starred) for a in c.args[: pos + 1]):
        return c.args[pos]
    return None


def parent_map(root: ast.AST) -> dict:
    pm = {}
    for n in ast.walk(root):
        for ch in ast.iter_child_nodes(n):
            pm[ch] = n
    return pm
