"""A tiny evaluator for side-effect-free integer/boolean expressions taken from the analysed source.

Used for *constant propagation over a small finite domain* (boundary values of a validator, the sixteen opcodes, ...): the
checker evaluates the expression itself - arithmetic, bit operations, comparisons (chained too), and/or/not - with names
bound to integers it chooses or folds from module constants.  Nothing of the repository is imported or run; an expression
that uses anything else (calls, attributes that do not fold, subscripts) raises `Unsupported`, which callers report as blind.
"""
from __future__ import annotations

import ast


class Unsupported(Exception):
    pass


_BIN = {
    ast.Add: lambda a, b: a + b, ast.Sub: lambda a, b: a - b, ast.Mult: lambda a, b: a * b, ast.FloorDiv: lambda a, b: a // b,
    ast.Mod: lambda a, b: a % b, ast.BitAnd: lambda a, b: a & b, ast.BitOr: lambda a, b: a | b, ast.BitXor: lambda a, b: a ^ b,
    ast.LShift: lambda a, b: a << b, ast.RShift: lambda a, b: a >> b, ast.Pow: lambda a, b: a ** b,
}
_CMP = {
    ast.Lt: lambda a, b: a < b, ast.LtE: lambda a, b: a <= b, ast.Gt: lambda a, b: a > b, ast.GtE: lambda a, b: a >= b,
    ast.Eq: lambda a, b: a == b, ast.NotEq: lambda a, b: a != b,
}


def evaluate(node: ast.AST, env: dict, fold=None):
    """env: name/dotted text -> int|bool.  fold(node) may return a constant for names the env does not know (module constants)."""
    if isinstance(node, ast.Constant) and isinstance(node.value, (int, bool)):
        return node.value
    if isinstance(node, ast.Call):
        key = ast.unparse(node)
        if key in env:
            return env[key]
        raise Unsupported(f"call `{key[:40]}` (not bound by the caller)")
    if isinstance(node, (ast.Name, ast.Attribute)):
        key = ast.unparse(node)
        if key in env:
            return env[key]
        if fold is not None:
            try:
                v = fold(node)
            except Exception as e:  # AnalysisError of the model
                raise Unsupported(f"{key}: {e}")
            if isinstance(v, (int, bool)):
                return v
            if isinstance(v, (tuple, list, set, frozenset)) and all(isinstance(x, (int, bool)) for x in v):
                return tuple(v)
        raise Unsupported(f"unbound name {key}")
    if isinstance(node, ast.UnaryOp):
        v = evaluate(node.operand, env, fold)
        if isinstance(node.op, ast.Not):
            return not v
        if isinstance(node.op, ast.USub):
            return -v
        if isinstance(node.op, ast.Invert):
            return ~v
        if isinstance(node.op, ast.UAdd):
            return +v
    if isinstance(node, ast.BinOp) and type(node.op) in _BIN:
        return _BIN[type(node.op)](evaluate(node.left, env, fold), evaluate(node.right, env, fold))
    if isinstance(node, ast.BoolOp):
        vals = (evaluate(v, env, fold) for v in node.values)
        if isinstance(node.op, ast.And):
            r = True
            for v in vals:
                r = v
                if not v:
                    return v
            return r
        r = False
        for v in vals:
            r = v
            if v:
                return v
        return r
    if isinstance(node, (ast.Tuple, ast.List, ast.Set)):
        return tuple(evaluate(e, env, fold) for e in node.elts)
    if isinstance(node, ast.Compare) and len(node.ops) == 1 and isinstance(node.ops[0], (ast.In, ast.NotIn)):
        left, right = evaluate(node.left, env, fold), evaluate(node.comparators[0], env, fold)
        if not isinstance(right, tuple):
            raise Unsupported(f"membership in a non-tuple `{ast.unparse(node.comparators[0])[:40]}`")
        return (left in right) if isinstance(node.ops[0], ast.In) else (left not in right)
    if isinstance(node, ast.Compare) and all(type(o) in _CMP for o in node.ops):
        left = evaluate(node.left, env, fold)
        for o, c in zip(node.ops, node.comparators):
            right = evaluate(c, env, fold)
            if not _CMP[type(o)](left, right):
                return False
            left = right
        return True
    if isinstance(node, ast.IfExp):
        return evaluate(node.body if evaluate(node.test, env, fold) else node.orelse, env, fold)
    raise Unsupported(f"unsupported expression `{ast.unparse(node)[:50]}`")


class Raised(Exception):
    """run_block: the block reached a `raise` (args[0] = unparsed exception expression)."""


def run_block(stmts, env: dict, fold=None):
    """Execute a straight-line / branching block of simple statements over `env` (keys: unparsed names and dotted attributes).

    Supported: docstrings, assert (evaluated; failing -> Raised), Assign / AugAssign / AnnAssign to a Name or dotted Attribute, If, Raise (-> Raised),
    Return (-> ("return", value | None)), Pass.  Anything else -> Unsupported.  Returns ("fall", None) when the block ends normally."""
    for st in stmts:
        if isinstance(st, ast.Expr) and isinstance(st.value, ast.Constant):
            continue
        if isinstance(st, ast.Pass):
            continue
        if isinstance(st, ast.Assert):
            if not evaluate(st.test, env, fold):
                raise Raised("AssertionError")
            continue
        if isinstance(st, ast.Assign) and len(st.targets) == 1 and isinstance(st.targets[0], (ast.Name, ast.Attribute)):
            env[ast.unparse(st.targets[0])] = evaluate(st.value, env, fold)
            continue
        if isinstance(st, ast.AnnAssign) and st.value is not None and isinstance(st.target, (ast.Name, ast.Attribute)):
            env[ast.unparse(st.target)] = evaluate(st.value, env, fold)
            continue
        if isinstance(st, ast.AugAssign) and isinstance(st.target, (ast.Name, ast.Attribute)) and type(st.op) in _BIN:
            k = ast.unparse(st.target)
            if k not in env:
                raise Unsupported(f"unbound {k}")
            env[k] = _BIN[type(st.op)](env[k], evaluate(st.value, env, fold))
            continue
        if isinstance(st, ast.If):
            r = run_block(st.body if evaluate(st.test, env, fold) else st.orelse, env, fold)
            if r[0] != "fall":
                return r
            continue
        if isinstance(st, ast.Raise):
            raise Raised(ast.unparse(st.exc) if st.exc is not None else "")
        if isinstance(st, ast.Return):
            return ("return", None if st.value is None else evaluate(st.value, env, fold))
        raise Unsupported(f"statement `{ast.unparse(st)[:50]}`")
    return ("fall", None)
