"""A tiny evaluator for side-effect-free integer/boolean expressions taken from the analysed source.

Used for *constant propagation over a small finite domain* (boundary values of a validator, the sixteen opcodes, ...): the
checker evaluates the expression itself - arithmetic, bit operations, comparisons (chained too), and/or/not - with names
bound to integers it chooses or folds from module constants.  Nothing of the repository is imported or run; an expression
that uses anything else (calls, attributes that do not fold, subscripts) raises `Unsupported`, which callers report as blind.
"""
from __future__ import annotations

import ast


class Unsupported(Exception):
    pass


_BIN = {
    ast.Add: lambda a, b: a + b, ast.Sub: lambda a, b: a - b, ast.Mult: lambda a, b: a * b, ast.FloorDiv: lambda a, b: a // b,
    ast.Mod: lambda a, b: a % b, ast.BitAnd: lambda a, b: a & b, ast.BitOr: lambda a, b: a | b, ast.BitXor: lambda a, b: a ^ b,
    ast.LShift: lambda a, b: a << b, ast.RShift: lambda a, b: a >> b, ast.Pow: lambda a, b: a ** b,
}
_CMP = {
    ast.Lt: lambda a, b: a < b, ast.LtE: lambda a, b: a <= b, ast.Gt: lambda a, b: a > b, ast.GtE: lambda a, b: a >= b,
    ast.Eq: lambda a, b: a == b, ast.NotEq: lambda a, b: a != b,
}


def evaluate(node: ast.AST, env: dict, fold=None):
    """env: name/dotted text -> int|bool.  fold(node) may return a constant for names the env does not know (module constants)."""
    if isinstance(node, ast.Constant) and isinstance(node.value, (int, bool)):
        return node.value
    if isinstance(node, ast.Call):
        key = ast.unparse(node)
        if key in env:
            return env[key]
        raise Unsupported(f"call `{key[:40]}` (not bound by the caller)")
    if isinstance(node, (ast.Name, ast.Attribute)):
        key = ast.unparse(node)
        if key in env:
            return env[key]
        if fold is not None:
            try:
                v = fold(node)
            except Exception as e:  # AnalysisError of the model
                raise Unsupported(f"{key}: {e}")
            if isinstance(v, (int, bool)):
                return v
        raise Unsupported(f"unbound name {key}")
    if isinstance(node, ast.UnaryOp):
        v = evaluate(node.operand, env, fold)
        if isinstance(node.op, ast.Not):
            return not v
        if isinstance(node.op, ast.USub):
            return -v
        if isinstance(node.op, ast.Invert):
            return ~v
        if isinstance(node.op, ast.UAdd):
            return +v
    if isinstance(node, ast.BinOp) and type(node.op) in _BIN:
        return _BIN[type(node.op)](evaluate(node.left, env, fold), evaluate(node.right, env, fold))
    if isinstance(node, ast.BoolOp):
        vals = (evaluate(v, env, fold) for v in node.values)
        if isinstance(node.op, ast.And):
            r = True
            for v in vals:
                r = v
                if not v:
                    return v
            return r
        r = False
        for v in vals:
            r = v
            if v:
                return v
        return r
    if isinstance(node, ast.Compare) and all(type(o) in _CMP for o in node.ops):
        left = evaluate(node.left, env, fold)
        for o, c in zip(node.ops, node.comparators):
            right = evaluate(c, env, fold)
            if not _CMP[type(o)](left, right):
                return False
            left = right
        return True
    if isinstance(node, ast.IfExp):
        return evaluate(node.body if evaluate(node.test, env, fold) else node.orelse, env, fold)
    raise Unsupported(f"unsupported expression `{ast.unparse(node)[:50]}`")
