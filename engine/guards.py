"""Recognisers that discharge implicit-raise candidates (each returns a reason string or None)."""
from __future__ import annotations

import ast
import struct as _struct
from typing import Optional

from .cfg import CFG, normalise_compare, atoms
from .model import FuncInfo, Model, src, dotted, walk_no_nested
from .util import own_nodes

_cfg_cache: dict = {}


def _cfg(f: FuncInfo) -> CFG:
    key = id(f.node)
    hit = _cfg_cache.get(key)
    if hit is None or hit[0] is not f.node:
        hit = (f.node, CFG(f.node, implicit_exc=False))
        _cfg_cache[key] = hit
    return hit[1]


def _node_of(cfg: CFG, expr: ast.AST):
    for n in cfg.stmts():
        if n.copy_of_finally:
            continue
        for e in own_nodes(n.ast):
            if e is expr:
                return n
    return None


def _nfields(fmt: str) -> Optional[int]:
    try:
        return len(_struct.unpack(fmt, b"\0" * _struct.calcsize(fmt)))
    except Exception:
        return None


def _short_circuit_guard(f: FuncInfo, sub: ast.Subscript) -> bool:
    """`len(X) > 0 and X[-1] ...` / `len(X) == 0 or X[-1] ...` / `X and X[0]` inside one boolean expression."""
    base = src(sub.value)
    for n in walk_no_nested(f.node):
        if isinstance(n, ast.BoolOp):
            for i, v in enumerate(n.values):
                if any(x is sub for x in ast.walk(v)):
                    for prev in n.values[:i]:
                        t = " ".join(src(prev).split())
                        if isinstance(n.op, ast.And) and t in (f"len({base}) > 0", f"len({base}) != 0", base, f"len({base}) >= 1", f"len({base}) == 1"):
                            return True
                        if isinstance(n.op, ast.Or) and t in (f"len({base}) == 0", f"not {base}"):
                            return True
    return False


def _dominated_nonempty(f: FuncInfo, sub: ast.Subscript) -> bool:
    base = src(sub.value)
    cfg = _cfg(f)
    nd = _node_of(cfg, sub)
    if nd is None:
        return False
    edges = set()
    for t in cfg.nodes:
        if t.kind != "test" or not isinstance(t.ast, (ast.If, ast.While)):
            continue
        norm = normalise_compare(t.ast.test)
        at = atoms(norm)
        for (lhs, op, rhs) in at:
            pos = (lhs == f"len({base})" and ((op == ">" and rhs == "0") or (op == "!=" and rhs == "0") or (op == ">=" and rhs == "1") or (op == "==" and rhs not in ("0",) and rhs.isdigit()))) or (lhs == base and op == "truthy")
            neg = (lhs == f"len({base})" and ((op == "==" and rhs == "0") or (op == "<" and rhs == "1"))) or (lhs == base and op == "falsy")
            if pos and norm[0] in ("atom", "and"):
                edges.add((t.id, "t"))
            if neg and norm[0] in ("atom", "or"):
                edges.add((t.id, "f"))
    return bool(edges) and cfg.edge_dominated(nd.id, edges)


def _is_str_typed(f: FuncInfo, name: str) -> bool:
    """`name` is a parameter annotated `str`, or the target of a `for` over such a parameter: its characters are str, for which isdigit() also accepts
    superscripts and other non-decimal digits that int() refuses."""
    def ann_str(a):
        return a is not None and src(a) in ("str", "'str'")
    args = f.node.args
    strs = {a.arg for a in list(args.posonlyargs) + list(args.args) + list(args.kwonlyargs) if ann_str(a.annotation)}
    if name in strs:
        return True
    for n in ast.walk(f.node):
        if isinstance(n, ast.For) and isinstance(n.target, ast.Name) and n.target.id == name and isinstance(n.iter, ast.Name) and n.iter.id in strs:
            return True
    return False


def _isdigit_guard(f: FuncInfo, call: ast.Call) -> bool:
    arg = src(call.args[0])
    cfg = _cfg(f)
    accepted = (f"{arg}.isdecimal()",) if _is_str_typed(f, arg) else (f"{arg}.isdigit()", f"{arg}.isdecimal()")
    nd = _node_of(cfg, call)
    if nd is None:
        return False
    edges = set()
    for t in cfg.nodes:
        if t.kind != "test" or not isinstance(t.ast, (ast.If, ast.While)):
            continue
        norm = normalise_compare(t.ast.test)
        for (lhs, op, rhs) in atoms(norm):
            if lhs in accepted:
                if op == "truthy" and norm[0] in ("atom", "and"):
                    edges.add((t.id, "t"))
                if op == "falsy" and norm[0] in ("atom", "or"):
                    edges.add((t.id, "f"))
    return bool(edges) and cfg.edge_dominated(nd.id, edges)


def _index_bounded(f: FuncInfo, sub: ast.Subscript) -> bool:
    """X[i] where, since the last assignment to i, a test `i < n` (true side) or `i >= n` (false side) was passed, n = len(X)."""
    if not isinstance(sub.slice, ast.Name):
        return False
    i = sub.slice.id
    base = src(sub.value)
    cfg = _cfg(f)
    nd = _node_of(cfg, sub)
    if nd is None:
        return False
    lens = {f"len({base})"}
    for n in walk_no_nested(f.node):
        if isinstance(n, ast.Assign) and len(n.targets) == 1 and isinstance(n.targets[0], ast.Name) and src(n.value) == f"len({base})":
            lens.add(n.targets[0].id)
    edges = set()
    for t in cfg.nodes:
        if t.kind != "test" or not isinstance(t.ast, (ast.If, ast.While)):
            continue
        norm = normalise_compare(t.ast.test)
        for (lhs, op, rhs) in atoms(norm):
            if lhs in lens and rhs == i and op == ">" and norm[0] in ("atom", "and"):
                edges.add((t.id, "t"))  # len > i  (canonical orientation of i < len)
            if lhs == i and rhs in lens:
                if op == "<" and norm[0] in ("atom", "and"):
                    edges.add((t.id, "t"))
                if op == ">=" and norm[0] in ("atom", "or"):
                    edges.add((t.id, "f"))
    if not edges:
        return False
    defs = [n.id for n in cfg.nodes if n.ast is not None and isinstance(n.ast, (ast.Assign, ast.AugAssign)) and any(
        isinstance(x, ast.Name) and x.id == i for tg in (n.ast.targets if isinstance(n.ast, ast.Assign) else [n.ast.target]) for x in ast.walk(tg))]
    starts = [cfg.entry.id] + defs
    for d in starts:
        succ = [y for (y, k) in cfg.succ[d] if k not in ("exc", "raise")] if d != cfg.entry.id else [cfg.entry.id]
        r = cfg.reachable(succ, blocked=[x for x in defs if x != nd.id], blocked_edges=edges)
        if nd.id in r and not (d == nd.id):
            return False
    return True


def _loop_over_bytes(f: FuncInfo, var: str) -> bool:
    """var is only ever bound as the target of `for var in <name>` where <name> was last made bytes (encode()/bytes) or is a bytes label."""
    binds = []
    for n in walk_no_nested(f.node):
        if isinstance(n, (ast.For,)) and isinstance(n.target, ast.Name) and n.target.id == var:
            binds.append(n)
        elif isinstance(n, (ast.Assign, ast.AugAssign)):
            tg = n.targets if isinstance(n, ast.Assign) else [n.target]
            if any(isinstance(t, ast.Name) and t.id == var for t in tg):
                return False
    if not binds:
        return False
    for b in binds:
        it = b.iter
        if not isinstance(it, ast.Name):
            return False
        # the iterated name must be bytes: a parameter annotated bytes|str that is encode()d on the str arm
        enc = any(isinstance(n, ast.Assign) and any(isinstance(t, ast.Name) and t.id == it.id for t in n.targets) and isinstance(n.value, ast.Call) and isinstance(n.value.func, ast.Attribute)
                  and n.value.func.attr == "encode" for n in walk_no_nested(f.node))
        if not enc:
            return False
    return True


def _upper_bounded(f: FuncInfo, node: ast.AST, var: str, maxval: int) -> bool:
    from .cfg import int_bound_gt
    cfg = _cfg(f)
    nd = _node_of(cfg, node)
    if nd is None:
        return False
    edges = set()
    for t in cfg.nodes:
        if t.kind != "test" or not isinstance(t.ast, (ast.If, ast.While)):
            continue
        norm = normalise_compare(t.ast.test)
        for a in atoms(norm):
            b = int_bound_gt(a)
            if b and b[0] == var and b[1] <= maxval + 1 and norm[0] in ("atom", "or"):
                edges.add((t.id, "f"))
    if not edges:
        return False
    defs = [n.id for n in cfg.nodes if n.ast is not None and isinstance(n.ast, (ast.Assign, ast.AugAssign)) and any(
        isinstance(x, ast.Name) and x.id == var for tg in (n.ast.targets if isinstance(n.ast, ast.Assign) else [n.ast.target]) for x in ast.walk(tg))]
    for d in [cfg.entry.id] + defs:
        succ = [y for (y, k) in cfg.succ[d] if k not in ("exc", "raise")] if d != cfg.entry.id else [cfg.entry.id]
        r = cfg.reachable(succ, blocked=[x for x in defs if x != nd.id], blocked_edges=edges)
        if nd.id in r and d != nd.id:
            return False
    return True


def _comment_on_line(f: FuncInfo, line: int) -> str:
    try:
        t = f.module.lines[line - 1]
        return t.split("#", 1)[1].lower() if "#" in t else ""
    except Exception:
        return ""


def make_guard(model: Model):
    _cfg_cache.clear()

    def guard(f: FuncInfo, node: ast.AST, what: str) -> Optional[str]:
        if what == "assert":
            # comments ("for mypy") are never evidence: a narrowing assert that cannot fail is argued in the triage table of the rule module
            return None
        if what == "subscript":
            sub = node
            v = sub.value
            # struct.unpack(fmt, ...)[k] / parser.get_struct(fmt)[k] with k < number of fields
            if isinstance(v, ast.Call) and isinstance(sub.slice, ast.Constant) and isinstance(sub.slice.value, int):
                d = dotted(v.func) or ""
                if (d == "struct.unpack" or d.endswith(".get_struct")) and v.args and isinstance(v.args[0], ast.Constant):
                    n = _nfields(v.args[0].value)
                    if n is not None and -n <= sub.slice.value < n:
                        return f"index {sub.slice.value} of a {n}-field struct result"
            # header = parser.get_struct(fmt); header[k]
            if isinstance(v, ast.Name) and isinstance(sub.slice, ast.Constant) and isinstance(sub.slice.value, int):
                defs = [n.value for n in walk_no_nested(f.node) if isinstance(n, ast.Assign) and any(isinstance(t, ast.Name) and t.id == v.id for t in n.targets)]
                if defs and all(isinstance(d, ast.Call) and ((dotted(d.func) or "").endswith("get_struct") or dotted(d.func) == "struct.unpack") and d.args and isinstance(d.args[0], ast.Constant) for d in defs):
                    ns = [_nfields(d.args[0].value) for d in defs]
                    if all(n is not None and -n <= sub.slice.value < n for n in ns):
                        return "constant index into a struct result of known arity"
            if _short_circuit_guard(f, sub):
                return "guarded by a length/truthiness test earlier in the same boolean expression"
            if isinstance(sub.slice, ast.Constant) and sub.slice.value in (0, -1) and _dominated_nonempty(f, sub):
                return "dominated by a non-emptiness test on the same sequence"
            if _index_bounded(f, sub):
                return "index tested against the length since its last assignment"
            # typing subscripts evaluated at run time are not data accesses
            if isinstance(v, (ast.Name, ast.Attribute)) and (dotted(v) or "").split(".")[-1] in ("list", "dict", "tuple", "set", "Iterable", "Optional", "Callable", "BTreeDict", "type"):
                return "generic alias, not a data access"
            return None
        if what in ("int()", "float()"):
            a = node.args[0]
            if isinstance(a, ast.Call) and (dotted(a.func) or "") in ("time.time", "math.ceil", "math.floor", "len", "round", "ord"):
                return "numeric argument"
            if isinstance(a, (ast.BinOp,)) and not any(isinstance(x, ast.Call) and (dotted(x.func) or "") not in ("time.time", "len") for x in ast.walk(a)) and not any(isinstance(x, (ast.Subscript, ast.Name)) and False for x in ast.walk(a)):
                # arithmetic on numbers
                pass
            if _isdigit_guard(f, node):
                return "dominated by isdigit()/isdecimal() on the same value"
            return None
        if what == "struct.pack":
            fmt = node.args[0].value if node.args and isinstance(node.args[0], ast.Constant) else None
            if isinstance(fmt, str):
                chars = [c for c in fmt if c not in "!<>=@"]
                if len(chars) == len(node.args) - 1:
                    okk = True
                    why = []
                    for ch, a in zip(chars, node.args[1:]):
                        bits = {"B": 8, "H": 16, "I": 32, "Q": 64}.get(ch)
                        if bits is None:
                            okk = False
                            break
                        try:
                            val = model.const(f.module, a)
                            if isinstance(val, int) and 0 <= val < (1 << bits):
                                why.append("constant")
                                continue
                        except Exception:
                            pass
                        if isinstance(a, ast.Name) and bits >= 8 and _loop_over_bytes(f, a.id):
                            why.append("octet from iterating bytes")
                            continue
                        if isinstance(a, ast.Name) and _upper_bounded(f, node, a.id, (1 << bits) - 1):
                            why.append(f"tested <= {(1 << bits) - 1} before packing")
                            continue
                        okk = False
                    if okk:
                        return "struct.pack values: " + ", ".join(why)
            return None
        return None

    return guard
