"""Twin projection: project a function onto a nested structure of labelled events and compare two projections.

Events: calls whose (renamed) short callee name is in the alphabet, with their argument set (positional arguments are
mapped to the callee's parameter names when the callee resolves; dropped keys such as `backend` are removed);
control skeleton: if(test)/loop/try-except/return/raise/continue/break around events.  `await`, `async with/for` are erased."""
from __future__ import annotations

import ast
import copy
import re
from dataclasses import dataclass, field
from typing import Optional

from .model import Model, FuncInfo, src, dotted


@dataclass
class TwinSpec:
    events: set  # canonical short names of event callees
    rename: dict = field(default_factory=dict)  # short name -> canonical short name
    drop_args: set = field(default_factory=set)  # argument names removed from every event call
    drop_args_for: dict = field(default_factory=dict)  # canonical callee -> set of arg names removed
    test_rename: dict = field(default_factory=dict)  # text replacements applied to test / argument text
    keep_tests_on: Optional[set] = None  # if given: only `if` tests mentioning one of these names are kept as decisions (others are transparent)
    arg_values: bool = True  # compare argument value texts (else only the key set)


class _Strip(ast.NodeTransformer):
    """erase awaits; mark the enclosing function's local variables so that two twins can be compared modulo a renaming of locals"""

    def __init__(self, local_names=frozenset()):
        self.local_names = local_names

    def visit_Await(self, node):
        return self.visit(node.value)

    def visit_Name(self, node):
        if node.id in self.local_names:
            return ast.copy_location(ast.Name(id=f"\x01{node.id}\x02", ctx=node.ctx), node)
        return node


_MARK = re.compile("\x01(\\w+)\x02")
_locals_cache: dict = {}
_current_locals = frozenset()


def _locals_of(fn) -> frozenset:
    k = id(fn)
    if k not in _locals_cache:
        bound, banned = set(), set()
        for n in ast.walk(fn):
            if isinstance(n, ast.Name) and isinstance(n.ctx, ast.Store):
                bound.add(n.id)
            elif isinstance(n, (ast.Global, ast.Nonlocal)):
                banned |= set(n.names)
            elif isinstance(n, ast.arg):
                banned.add(n.arg)
        _locals_cache[k] = (frozenset(bound - banned), fn)  # keep fn alive so that id() stays unique
    return _locals_cache[k][0]


def _text(e, spec: TwinSpec) -> str:
    t = " ".join(src(_Strip(_current_locals).visit(copy.deepcopy(e))).split())
    for a, b in spec.test_rename.items():
        t = t.replace(a, b)
    return t


def _short(call: ast.Call) -> str:
    d = dotted(call.func)
    if d:
        return d.split(".")[-1]
    if isinstance(call.func, ast.Attribute):
        return call.func.attr
    return ""


def _call_event(model: Model, fi: FuncInfo, c: ast.Call, spec: TwinSpec):
    name = _short(c)
    canon = spec.rename.get(name, name)
    if canon not in spec.events:
        return None
    # map positional arguments to parameter names when the callee resolves
    params = None
    tgt = model.resolve_expr(fi, c.func)
    callee = None
    if tgt in model.functions:
        callee = model.functions[tgt]
    elif isinstance(c.func, ast.Name) and c.func.id in fi.module.functions:
        callee = fi.module.functions[c.func.id]
    if callee is not None:
        params = [p for p in callee.params() if p not in ("self", "cls")]
    args = {}
    for i, a in enumerate(c.args):
        if isinstance(a, ast.Starred):
            args[f"*{i}"] = _text(a.value, spec)
            continue
        key = params[i] if params is not None and i < len(params) else f"#{i}"
        args[key] = _text(a, spec)
    for k in c.keywords:
        args[k.arg or "**"] = _text(k.value, spec)
    drop = set(spec.drop_args) | set(spec.drop_args_for.get(canon, ()))
    items = tuple(sorted((k, (v if spec.arg_values else "")) for k, v in args.items() if k not in drop))
    return ("call", canon, items)


def _events_in_expr(model, fi, e, spec) -> list:
    out = []

    def visit(n):
        # evaluation order: arguments before the call itself
        for ch in ast.iter_child_nodes(n):
            if isinstance(ch, (ast.Lambda, ast.FunctionDef, ast.AsyncFunctionDef)):
                continue
            visit(ch)
        if isinstance(n, ast.Call):
            ev = _call_event(model, fi, n, spec)
            if ev:
                out.append(ev)

    visit(e)
    return out


def project_block(model, fi, stmts, spec) -> list:
    out = []
    for st in stmts:
        out += project_stmt(model, fi, st, spec)
    return out


def project_stmt(model, fi, st, spec) -> list:
    if isinstance(st, (ast.FunctionDef, ast.AsyncFunctionDef, ast.ClassDef, ast.Pass, ast.Import, ast.ImportFrom, ast.Global, ast.Nonlocal)):
        return []
    if isinstance(st, ast.If):
        pre = _events_in_expr(model, fi, st.test, spec)
        a = project_block(model, fi, st.body, spec)
        b = project_block(model, fi, st.orelse, spec)
        if not a and not b:
            return pre
        if a == b and all(x[0] in ("return",) for x in a):
            return pre + a  # if/else whose arms only return  ==  return
        if spec.keep_tests_on is not None:
            names = {n.id for n in ast.walk(st.test) if isinstance(n, ast.Name)} | {n.attr for n in ast.walk(st.test) if isinstance(n, ast.Attribute)}
            if not (names & spec.keep_tests_on):
                # transparent test: both arms are possible continuations
                return pre + [("alt", tuple(a), tuple(b))] if a != b else pre + a
        return pre + [("if", _text(st.test, spec), tuple(a), tuple(b))]
    if isinstance(st, (ast.While, ast.For, ast.AsyncFor)):
        pre = _events_in_expr(model, fi, st.test if isinstance(st, ast.While) else st.iter, spec)
        body = project_block(model, fi, st.body, spec)
        orelse = project_block(model, fi, st.orelse, spec)
        if not body and not orelse:
            return pre
        return pre + [("loop", tuple(body))] + orelse
    if isinstance(st, (ast.With, ast.AsyncWith)):
        pre = []
        for i in st.items:
            pre += _events_in_expr(model, fi, i.context_expr, spec)
        return pre + project_block(model, fi, st.body, spec)
    if isinstance(st, ast.Try):
        body = project_block(model, fi, st.body, spec)
        hs = []
        for h in st.handlers:
            hb = project_block(model, fi, h.body, spec)
            hs.append((_text(h.type, spec) if h.type is not None else "", tuple(hb)))
        orelse = project_block(model, fi, st.orelse, spec)
        fin = project_block(model, fi, st.finalbody, spec)
        if not body and not any(hb for (_t, hb) in hs) and not orelse and not fin:
            return []
        if not any(hb for (_t, hb) in hs) and not fin:
            # handlers without events (e.g. retry-on-would-block) are transparent
            return body + orelse
        return [("try", tuple(body), tuple(hs), tuple(orelse), tuple(fin))]
    if isinstance(st, ast.Return):
        pre = _events_in_expr(model, fi, st.value, spec) if st.value is not None else []
        return pre + [("return",)]
    if isinstance(st, ast.Raise):
        pre = _events_in_expr(model, fi, st.exc, spec) if st.exc is not None else []
        what = ""
        if st.exc is not None:
            e = st.exc.func if isinstance(st.exc, ast.Call) else st.exc
            what = (dotted(e) or src(e)).split(".")[-1]
        return pre + [("raise", what)]
    if isinstance(st, ast.Continue):
        return [("continue",)]
    if isinstance(st, ast.Break):
        return [("break",)]
    if isinstance(st, ast.Assert):
        return _events_in_expr(model, fi, st.test, spec)
    # simple statements
    out = []
    for e in ast.iter_child_nodes(st):
        if isinstance(e, ast.expr):
            out += _events_in_expr(model, fi, e, spec)
    return out


def project(model: Model, fi: FuncInfo, spec: TwinSpec) -> tuple:
    global _current_locals
    body = [s for s in fi.node.body if not (isinstance(s, ast.Expr) and isinstance(s.value, ast.Constant))]
    _current_locals = _locals_of(fi.node)
    try:
        return tuple(project_block(model, fi, body, spec))
    finally:
        _current_locals = frozenset()


def _align(a, b, fwd: dict, back: dict):
    """Pair the marked local names of two projections position by position (first pairing wins, kept injective)."""
    if isinstance(a, str) and isinstance(b, str):
        ma, mb = _MARK.findall(a), _MARK.findall(b)
        if len(ma) == len(mb):
            for x, y in zip(ma, mb):
                if y not in back and x not in fwd:
                    back[y] = x
                    fwd[x] = y
    elif isinstance(a, tuple) and isinstance(b, tuple):
        for x, y in zip(a, b):
            _align(x, y, fwd, back)


def _rewrite(x, back: Optional[dict]):
    if isinstance(x, str):
        if back is None:
            return _MARK.sub(lambda m: m.group(1), x)
        return _MARK.sub(lambda m: back.get(m.group(1), m.group(1)), x)
    if isinstance(x, tuple):
        return tuple(_rewrite(y, back) for y in x)
    return x


def unmark(p):
    return _rewrite(p, None)


def first_difference(a, b, path="") -> Optional[str]:
    """None when the projections are equal up to a consistent renaming of local variables."""
    if path == "":
        fwd, back = {}, {}
        _align(a, b, fwd, back)
        a, b = _rewrite(a, None), _rewrite(b, back)
    if a == b:
        return None
    if isinstance(a, tuple) and isinstance(b, tuple) and a and b and isinstance(a[0], str) and isinstance(b[0], str):
        # event nodes
        if a[0] != b[0]:
            return f"{path}: {fmt(a)}  vs  {fmt(b)}"
        if a[0] == "call":
            if a[1] != b[1]:
                return f"{path}: call {a[1]} vs call {b[1]}"
            da, db = dict(a[2]), dict(b[2])
            diffs = []
            for k in sorted(set(da) | set(db)):
                if da.get(k) != db.get(k):
                    diffs.append(f"{k}: {da.get(k, '<absent>')} vs {db.get(k, '<absent>')}")
            return f"{path}: call {a[1]} arguments differ: " + "; ".join(diffs)
        if a[0] == "if" and a[1] != b[1]:
            return f"{path}: condition `{a[1]}` vs `{b[1]}`"
        for i, (x, y) in enumerate(zip(a[1:], b[1:])):
            d = first_difference(x, y, f"{path}/{a[0]}[{i}]")
            if d:
                return d
        return f"{path}: {fmt(a)} vs {fmt(b)}"
    if isinstance(a, tuple) and isinstance(b, tuple):
        for i, (x, y) in enumerate(zip(a, b)):
            d = first_difference(x, y, f"{path}[{i}]")
            if d:
                return d
        if len(a) != len(b):
            longer, which = (a, "first") if len(a) > len(b) else (b, "second")
            return f"{path}: only the {which} has {fmt(longer[min(len(a), len(b))])}"
    return f"{path}: {a!r} vs {b!r}"


def fmt(ev) -> str:
    if not isinstance(ev, tuple) or not ev:
        return repr(ev)
    if ev[0] == "call":
        return f"{ev[1]}({', '.join(k + '=' + v for k, v in ev[2])})"[:160]
    if ev[0] == "if":
        return f"if {ev[1]}"
    return ev[0] + ("" if len(ev) == 1 else " " + str(ev[1])[:60])


def _count_events_dummy():
    pass


def count_events(p) -> int:
    n = 0
    if isinstance(p, tuple):
        if p and isinstance(p[0], str):
            n += 1
            for x in p[1:]:
                if isinstance(x, tuple):
                    n += count_events(x)
        else:
            for x in p:
                n += count_events(x)
    return n
