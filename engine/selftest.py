"""Thorough tier: witness self-test.  Each rule module may define WITNESSES, a list of
  {id, rule, file, old, new, expect: "fires"|"silent", [count]}
An edit is applied to a scratch copy of <repo>/dns (tempfile, removed afterwards), the
property's rules are re-run on the copy, and the outcome is compared with `expect`:
  fires  -> at least one *new* violated obligation of `rule` (vs. the unedited run)
  silent -> no new violated/blind obligation at all (behaviour-preserving refactor twin)
A witness whose anchor text is no longer in the tree is reported as stale (counted, not an error
unless most are stale); a witness that misbehaves is an ANALYSIS-ERROR: the rule cannot be trusted.
"""
from __future__ import annotations

import os
import shutil
import tempfile
from concurrent.futures import ProcessPoolExecutor

from .model import Model, AnalysisError
from .report import Report


def _violations(prop_mod, repo, prop):
    rep = Report(prop, "thorough")
    try:
        prop_mod.run(Model(repo), rep, "quick")
    except AnalysisError as e:
        return None, {f"blind|{e}"}
    v = {o.key() for o in rep.obls if o.status == "violated"}
    b = {o.key() for o in rep.obls if o.status == "blind"}
    return v, b


def _one(args):
    prop, modname, repo, w, base_v, base_b = args
    import importlib
    mod = importlib.import_module(modname)
    d = tempfile.mkdtemp(prefix="vwit-")
    try:
        shutil.copytree(os.path.join(repo, "dns"), os.path.join(d, "dns"), ignore=shutil.ignore_patterns("__pycache__"))
        edits = w.get("edits") or [{"file": w["file"], "old": w["old"], "new": w["new"], "count": w.get("count", 1)}]
        for e in edits:
            p = os.path.join(d, e["file"])
            if not os.path.exists(p):
                return (w["id"], "stale", f"{e['file']} missing")
            s = open(p).read()
            if s.count(e["old"]) != e.get("count", 1):
                return (w["id"], "stale", f"anchor text occurs {s.count(e['old'])}x in {e['file']}")
            open(p, "w").write(s.replace(e["old"], e["new"]))
        try:
            import ast as _ast
            for e in edits:
                _ast.parse(open(os.path.join(d, e["file"])).read())
        except SyntaxError as ex:
            return (w["id"], "broken", f"edit does not parse: {ex}")
        v, b = _violations(mod, d, prop)
        if v is None:
            newv, newb = set(), b
        else:
            newv, newb = v - base_v, b - base_b
        if w["expect"] == "fires":
            hit = [k for k in newv if k.startswith(w["rule"] + "|")]
            if hit:
                return (w["id"], "ok", f"fires: {sorted(hit)[0][:150]}")
            if newb:
                return (w["id"], "ok-blind", f"checker refuses to pass (ANALYSIS-ERROR): {sorted(newb)[0][:150]}")
            return (w["id"], "missed", f"rule {w['rule']} stayed silent; other new violations: {sorted(newv)[:2]}")
        else:
            if newv or newb:
                return (w["id"], "false-alarm", f"{sorted(newv | newb)[:2]}")
            return (w["id"], "ok", "silent")
    finally:
        shutil.rmtree(d, ignore_errors=True)


def run(prop, mod, rep: Report, repo):
    ws = getattr(mod, "WITNESSES", [])
    if not ws:
        rep.meta["selftest"] = {"witnesses": 0}
        return
    base_v = {o.key() for o in rep.obls if o.status == "violated"}
    base_b = {o.key() for o in rep.obls if o.status == "blind"}
    jobs = [(prop, mod.__name__, repo, w, base_v, base_b) for w in ws]
    with ProcessPoolExecutor(max_workers=min(16, len(jobs))) as ex:
        results = list(ex.map(_one, jobs))
    summary = {"witnesses": len(ws), "ok": 0, "stale": 0, "results": []}
    for (wid, st, msg), w in zip(results, ws):
        summary["results"].append({"id": wid, "rule": w["rule"], "expect": w["expect"], "outcome": st, "detail": msg})
        if st in ("ok", "ok-blind"):
            summary["ok"] += 1
            rep.ok("selftest", f"witness {wid}", w.get("file", "-"), f"{w['expect']}: {msg}", stmt=w["rule"])
        elif st == "stale":
            summary["stale"] += 1
        else:
            rep.blind("selftest", f"witness {wid}", w.get("file", "-"), f"witness expected {w['expect']} but: {st}: {msg}", stmt=w["rule"])
    if summary["stale"] * 2 > len(ws):
        rep.blind("selftest", "<witness set>", "-", f"{summary['stale']} of {len(ws)} witnesses are stale")
    rep.meta["selftest"] = summary
