"""Write-set (mutation effect) analysis of methods, resolved in the context of a receiver class."""
from __future__ import annotations

import ast
from dataclasses import dataclass
from typing import Optional

from .cfg import CFG
from .model import ClassInfo, FuncInfo, Model, src, walk_no_nested

DICT_MUTATORS = {"__setitem__", "__delitem__", "pop", "popitem", "clear", "update", "setdefault"}
LIST_MUTATORS = {"append", "extend", "insert", "remove", "pop", "clear", "sort", "reverse", "__setitem__", "__delitem__", "__iadd__"}
SET_MUTATORS = {"add", "discard", "remove", "pop", "clear", "update", "difference_update", "intersection_update",
                "symmetric_difference_update", "__ior__", "__iand__", "__isub__", "__ixor__"}
DEQUE_MUTATORS = {"append", "appendleft", "pop", "popleft", "extend", "extendleft", "clear", "rotate", "remove", "insert", "reverse"}
CONTAINER_MUTATORS = DICT_MUTATORS | LIST_MUTATORS | SET_MUTATORS | DEQUE_MUTATORS


@dataclass(frozen=True)
class Write:
    kind: str  # rebind | mutate
    field: str
    op: str  # '=' for rebind, container method for mutate
    func: str  # qualname of the function containing the write
    line: int
    via: tuple = ()  # call chain (method names) from the analysed method

    def short(self):
        return f"{self.kind} self.{self.field} ({self.op}) in {self.func}"


def always_raises(fi: FuncInfo) -> bool:
    """True iff no path reaches the normal exit (every path ends in a raise)."""
    cfg = CFG(fi.node, implicit_exc=False)
    return cfg.exit.id not in cfg.reachable([cfg.entry.id])


def direct_writes(fi: FuncInfo, recv: str = "self") -> list[Write]:
    out = []
    for n in func_nodes(fi):
        # rebind / delete attribute
        if isinstance(n, ast.Attribute) and isinstance(n.ctx, (ast.Store, ast.Del)) and isinstance(n.value, ast.Name) and n.value.id == recv:
            out.append(Write("rebind", n.attr, "=" if isinstance(n.ctx, ast.Store) else "del", fi.qualname, n.lineno))
        # subscript store / delete on a field
        if isinstance(n, ast.Subscript) and isinstance(n.ctx, (ast.Store, ast.Del)):
            f = _field_of(n.value, recv)
            if f:
                out.append(Write("mutate", f, "__setitem__" if isinstance(n.ctx, ast.Store) else "__delitem__", fi.qualname, n.lineno))
        # container method call on a field
        if isinstance(n, ast.Call) and isinstance(n.func, ast.Attribute) and n.func.attr in CONTAINER_MUTATORS:
            f = _field_of(n.func.value, recv)
            if f:
                out.append(Write("mutate", f, n.func.attr, fi.qualname, n.lineno))
        # object.__setattr__(self, "x", v) / super().__setattr__("x", v)
        if isinstance(n, ast.Call) and isinstance(n.func, ast.Attribute) and n.func.attr == "__setattr__":
            args = n.args
            if src(n.func.value) == "object" and len(args) >= 2 and src(args[0]) == recv and isinstance(args[1], ast.Constant):
                out.append(Write("rebind", str(args[1].value), "object.__setattr__", fi.qualname, n.lineno))
            elif src(n.func.value).startswith("super(") and args and isinstance(args[0], ast.Constant):
                out.append(Write("rebind", str(args[0].value), "super().__setattr__", fi.qualname, n.lineno))
    return out


def _field_of(e: ast.AST, recv: str) -> Optional[str]:
    if isinstance(e, ast.Attribute) and isinstance(e.value, ast.Name) and e.value.id == recv:
        return e.attr
    return None


def func_nodes(fi: FuncInfo):
    for st in fi.node.body:
        yield st
        yield from walk_no_nested(st)


class WriteSets:
    def __init__(self, model: Model):
        self.model = model
        self._memo: dict = {}

    def writes(self, ctx: ClassInfo, name: str, _stack=()) -> list[Write]:
        """Transitive write set of method `name` resolved on receiver class `ctx`."""
        key = (ctx.qualname, name)
        if key in self._memo:
            return self._memo[key]
        if key in _stack:
            return []
        f = self.model.lookup_method(ctx, name)
        if f is None:
            return []
        if always_raises(f):
            self._memo[key] = []
            return []
        out = list(direct_writes(f))
        for n in func_nodes(f):
            if isinstance(n, ast.Call) and isinstance(n.func, ast.Attribute):
                v = n.func.value
                callee = None
                if isinstance(v, ast.Name) and v.id == "self":
                    callee = (ctx, n.func.attr)
                elif isinstance(v, ast.Call) and src(v.func) == "super" and f.cls is not None:
                    g = self.model.lookup_method(ctx, n.func.attr, after=f.cls)
                    if g is not None and not always_raises(g):
                        for w in direct_writes(g):
                            out.append(Write(w.kind, w.field, w.op, w.func, w.line, (name,)))
                        # one more level through super-callee's self calls
                        for m in func_nodes(g):
                            if isinstance(m, ast.Call) and isinstance(m.func, ast.Attribute) and isinstance(m.func.value, ast.Name) and m.func.value.id == "self":
                                for w in self.writes(ctx, m.func.attr, _stack + (key,)):
                                    out.append(Write(w.kind, w.field, w.op, w.func, w.line, (name,) + w.via))
                    continue
                if callee:
                    for w in self.writes(callee[0], callee[1], _stack + (key,)):
                        out.append(Write(w.kind, w.field, w.op, w.func, w.line, (name,) + w.via))
            # augmented assignment on self dispatches to a dunder: `self |= x`
        # in-place operators applied to self fields are covered by direct_writes (AugAssign target is Store ctx)
        seen = set()
        uniq = []
        for w in out:
            k = (w.kind, w.field, w.op, w.func, w.line)
            if k not in seen:
                seen.add(k)
                uniq.append(w)
        self._memo[key] = uniq
        return uniq

    def all_method_names(self, ctx: ClassInfo) -> list[str]:
        names = []
        for c in ctx.mro:
            for m in c.methods:
                if m not in names and not m.endswith(".setter"):
                    names.append(m)
        return names
