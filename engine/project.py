"""Projection of a function's CFG paths onto ordered event sequences under a boolean valuation of named flags."""
from __future__ import annotations

import ast
from typing import Callable, Optional

from .cfg import CFG, normalise_compare
from .model import src
from .util import enumerate_paths


def eval_norm(norm, val: dict) -> Optional[bool]:
    """Three-valued evaluation of a normalised test under `val` (atom key -> bool).
    Atom keys: for truthy/falsy atoms the expression text; for comparisons 'lhs op rhs'."""
    if norm[0] == "atom":
        lhs, op, rhs = norm[1]
        if op in ("truthy", "falsy"):
            v = val.get(lhs)
            if v is None:
                return None
            return v if op == "truthy" else (not v)
        key = f"{lhs} {op} {rhs}"
        if key in val:
            return val[key]
        neg = {"is": "is not", "is not": "is", "==": "!=", "!=": "==", "<": ">=", ">=": "<", ">": "<=", "<=": ">", "in": "not in", "not in": "in"}
        k2 = f"{lhs} {neg.get(op, op)} {rhs}"
        if k2 in val:
            return not val[k2]
        return None
    vals = [eval_norm(p, val) for p in norm[1]]
    if norm[0] == "and":
        if any(v is False for v in vals):
            return False
        if all(v is True for v in vals):
            return True
        return None
    if any(v is True for v in vals):
        return True
    if all(v is False for v in vals):
        return False
    return None


def feasible_paths(cfg: CFG, val: dict, ends: Optional[set] = None, skip_kinds=frozenset({"exc"}), loop_unroll: int = 0, limit: int = 5000):
    """Acyclic entry->exit paths consistent with the valuation (tests that evaluate to a definite
    value only allow the matching edge)."""
    ends = ends or {cfg.exit.id}
    out = []
    for p in enumerate_paths(cfg, cfg.entry.id, ends, skip_kinds=set(skip_kinds), loop_unroll=loop_unroll, limit=limit):
        ok = True
        for (i, k) in p:
            n = cfg.nodes[i]
            if n.kind == "test" and k in ("t", "f") and isinstance(n.ast, (ast.If, ast.While)):
                v = eval_norm(normalise_compare(n.ast.test), val)
                if v is not None and v != (k == "t"):
                    ok = False
                    break
        if ok:
            out.append(p)
    return out
