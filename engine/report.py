"""Obligations, verdicts, known findings, evidence files."""
from __future__ import annotations

import json
import os
import time
from dataclasses import dataclass, field, asdict
from typing import Optional

VERIF = os.path.dirname(os.path.dirname(os.path.abspath(__file__)))
EVIDENCE_DIR = os.path.join(VERIF, "evidence")
KNOWN = os.path.join(VERIF, "known_findings.json")


@dataclass
class Obligation:
    rule: str  # R-10.2
    construct: str  # qualified function/class (+ short normalised statement)
    where: str  # file:line (diagnostic only; never used as a key)
    status: str  # discharged | violated | excepted | blind
    detail: str = ""
    stmt: str = ""  # normalised statement text (part of the key)
    nontrivial: bool = True

    def key(self) -> str:
        return f"{self.rule}|{self.construct}|{self.stmt}"


class Report:
    def __init__(self, prop: str, tier: str):
        self.prop = prop
        self.tier = tier
        self.obls: list[Obligation] = []
        self.floors: dict[str, tuple[int, int]] = {}
        self.meta: dict = {}
        self.assumptions: list[str] = []
        self.t0 = time.time()
        self.rule_titles: dict[str, str] = {}

    # ---- recording
    def ok(self, rule, construct, where, detail="", stmt="", nontrivial=True):
        self.obls.append(Obligation(rule, construct, where, "discharged", detail, stmt, nontrivial))

    def bad(self, rule, construct, where, detail="", stmt=""):
        self.obls.append(Obligation(rule, construct, where, "violated", detail, stmt))

    def excepted(self, rule, construct, where, reason, stmt=""):
        self.obls.append(Obligation(rule, construct, where, "excepted", reason, stmt))

    def blind(self, rule, construct, where, reason, stmt=""):
        self.obls.append(Obligation(rule, construct, where, "blind", reason, stmt))

    def check(self, cond: bool, rule, construct, where, detail_ok="", detail_bad="", stmt=""):
        if cond:
            self.ok(rule, construct, where, detail_ok, stmt)
        else:
            self.bad(rule, construct, where, detail_bad or detail_ok, stmt)
        return cond

    def share(self, model, other_prop: str, rules, as_rule: str, why: str, only=None):
        """Adopt the obligations of rules `rules` of another property's module under `as_rule`: this property depends on that mechanism
        (e.g. snapshot isolation of B-tree zones depends on the B-tree's copy-on-write ownership rule).  `only(obligation)` may filter."""
        import importlib
        cache = model.__dict__.setdefault("_shared_reports", {})
        sub = cache.get(other_prop)
        if sub is None:
            mod = importlib.import_module(f"rules.{other_prop.lower()}")
            sub = Report(other_prop, "quick")
            busy = model.__dict__.setdefault("_shared_busy", set())
            if other_prop in busy:
                raise RuntimeError(f"cyclic rule adoption through {other_prop} (adoptions must form a DAG)")
            busy.add(other_prop)
            try:
                mod.run(model, sub, "quick")
            finally:
                busy.discard(other_prop)
            cache[other_prop] = sub
        n = {"discharged": 0, "violated": 0, "blind": 0, "excepted": 0}
        # a violation that is an OPEN KNOWN FINDING of the other property is reported there (KNOWN-FINDING line), not re-raised here under another key
        known_other = {f"{e['rule']}|{e['construct']}|{e.get('stmt', '')}" for e in load_known().get("open", []) if e.get("property") == other_prop}
        n_known = 0
        for o in sub.obls:
            if o.rule not in rules or (only is not None and not only(o)):
                continue
            if o.status == "violated" and (o.key() in known_other or any(k.startswith(f"{o.rule}|{o.construct}|") and not k.split("|", 2)[2] for k in known_other)):
                n_known += 1
                continue
            n[o.status] = n.get(o.status, 0) + 1
            if o.status in ("violated", "blind"):
                self.obls.append(Obligation(as_rule, o.construct, o.where, o.status, f"{o.detail}  [{other_prop} {o.rule}; relied on here because {why}]", f"{o.rule}: {o.stmt}"))
        for r, (seen, fl) in sub.floors.items():
            if r.split("-")[0] + "-" + r.split("-")[1] in rules or r in rules:
                if seen < fl:
                    self.blind(as_rule, f"<{other_prop} {r} instance floor>", "-", f"only {seen} instances matched, {fl} were confirmed by hand", stmt=r)
        self.ok(as_rule, f"{other_prop} {'/'.join(sorted(rules))}", "-", f"{n['discharged']} obligations of {other_prop} {', '.join(sorted(rules))} hold ({n['excepted']} reasoned exceptions); relied on because {why}",
                stmt="shared " + other_prop)
        if n["discharged"] + n["excepted"] + n["violated"] + n["blind"] == 0:
            self.blind(as_rule, f"{other_prop} {'/'.join(sorted(rules))}", "-", "the shared rule produced no obligations", stmt="shared-empty " + other_prop)

    def floor(self, rule: str, seen: int, floor: int):
        """Instance floor: fewer instances than were confirmed by hand => the rule went blind."""
        self.floors[rule] = (seen, floor)
        if seen < floor:
            self.blind(rule, "<instance floor>", "-", f"only {seen} instances matched, {floor} were confirmed by hand")

    def assume(self, text: str):
        if text not in self.assumptions:
            self.assumptions.append(text)

    # ---- verdict
    def finish(self) -> int:
        known = load_known()
        open_keys = {}
        for e in known.get("open", []):
            if e.get("property") == self.prop:
                open_keys[f"{e['rule']}|{e['construct']}|{e.get('stmt', '')}"] = e
        violated = [o for o in self.obls if o.status == "violated"]
        blind = [o for o in self.obls if o.status == "blind"]
        fresh, listed = [], []
        for o in violated:
            e = open_keys.get(o.key())
            if e is None and o.stmt:
                # allow entries keyed without a statement (whole construct under that rule)
                e = open_keys.get(f"{o.rule}|{o.construct}|")
            (listed if e is not None else fresh).append((o, e))
        lines = []
        for (o, e) in listed:
            lines.append(f"KNOWN-FINDING: property={self.prop} {o.rule} {o.construct}: {e.get('what', o.detail)}")
        replay_dir = os.path.join(EVIDENCE_DIR, "replay")
        rc = 0
        seen_replay = set()
        if fresh:
            os.makedirs(replay_dir, exist_ok=True)
            for i, (o, _e) in enumerate(fresh):
                path = os.path.join(replay_dir, f"{self.prop}-{i}.json")
                with open(path, "w") as f:
                    json.dump({"property": self.prop, **asdict(o)}, f, indent=1)
                print(f"  violated {o.rule} {o.construct} at {o.where}: {o.detail}" + (f"  [stmt: {o.stmt}]" if o.stmt else ""))
                print(f"VIOLATION property={self.prop} replay={path}")
            rc = 1
        for ln in lines:
            print(ln)
        if blind:
            for o in blind:
                print(f"ANALYSIS-ERROR property={self.prop} {o.rule} {o.construct} at {o.where}: {o.detail}")
            if rc == 0:
                rc = 2
        self._write_evidence(len(fresh), len(listed), len(blind))
        n = len(self.obls)
        d = sum(1 for o in self.obls if o.status == "discharged")
        x = sum(1 for o in self.obls if o.status == "excepted")
        print(
            f"{self.prop} [{self.tier}] obligations={n} discharged={d} excepted={x} known={len(listed)} "
            f"violated={len(fresh)} blind={len(blind)} wall={time.time() - self.t0:.2f}s -> "
            + {0: "PASS", 1: "VIOLATION", 2: "ANALYSIS-ERROR"}[rc]
        )
        return rc

    def _write_evidence(self, fresh: int, listed: int, blind: int):
        os.makedirs(EVIDENCE_DIR, exist_ok=True)
        obls = self.obls
        distinct = {o.key() for o in obls if o.nontrivial and o.status in ("discharged", "violated", "excepted")}
        by_rule: dict[str, dict] = {}
        for o in obls:
            r = by_rule.setdefault(o.rule, {"title": self.rule_titles.get(o.rule, ""), "obligations": 0, "discharged": 0,
                                            "excepted": 0, "violated": 0, "blind": 0})
            r["obligations"] += 1
            r[o.status] += 1
        samples = []
        seen_rules = set()
        for o in obls:  # one sample per rule first, then fill
            if o.rule not in seen_rules:
                seen_rules.add(o.rule)
                samples.append({"rule": o.rule, "construct": o.construct, "where": o.where, "status": o.status,
                                "detail": o.detail[:300], "stmt": o.stmt[:160]})
        for o in obls:
            if len(samples) >= 40:
                break
            if o.status in ("violated", "excepted"):
                samples.append({"rule": o.rule, "construct": o.construct, "where": o.where, "status": o.status,
                                "detail": o.detail[:300], "stmt": o.stmt[:160]})
        ev = {
            "property_id": self.prop,
            "tier": self.tier,
            "seed": int(os.environ.get("VERIF_SEED", "0") or 0),
            "level": "other",
            "coverage": {
                "explanation": self.meta.get(
                    "explanation",
                    "Static analysis of /repo/dns source (ast, CFG, call resolution); every instance of every rule "
                    "in the parsed tree is examined; nothing is imported or executed.",
                ),
                "obligations": len(obls),
                "discharged": sum(1 for o in obls if o.status == "discharged"),
                "excepted": sum(1 for o in obls if o.status == "excepted"),
                "violated_known": listed,
                "violated_new": fresh,
                "blind": blind,
                "evaluations": len(obls),
                "distinct_nontrivial": len(distinct),
                "rule": "one evaluation per rule instance (obligation); distinct = distinct (rule, construct, statement) keys; "
                        "non-trivial = the instance has at least one branch, callee or table entry to examine",
                "samples": samples,
                "rules": by_rule,
                "instance_floors": {k: {"seen": v[0], "floor": v[1]} for k, v in self.floors.items()},
                "exhaustive": True,
                "trusted_base": ["CPython ast parser", "engine/normal.py normal form and rules/roles.py role renaming (behaviour-preserving rewrites of the parsed tree)",
                                 "the rule tables in /verif/rules (frozen, reasons inline)"],
                **{k: v for k, v in self.meta.items() if k != "explanation"},
            },
            "assumptions": self.assumptions,
            "wall_s": round(time.time() - self.t0, 3),
            "violations": fresh,
        }
        with open(os.path.join(EVIDENCE_DIR, f"{self.prop}.json"), "w") as f:
            json.dump(ev, f, indent=1, default=str)


def load_known() -> dict:
    if not os.path.exists(KNOWN):
        return {"open": [], "fixed": []}
    with open(KNOWN) as f:
        return json.load(f)
