"""Statement-level control-flow graph for one function, hand-built over the statement
kinds the repository uses, with exceptional edges, per-exit copies of `finally` bodies,
dominance / must-pass-through queries and lexical `with` context.

Edge kinds:
  'n'      fall through            't'/'f'  branch outcome of a test node
  'loop'   back edge to loop head  'raise'  explicit raise statement
  'exc'    implicit may-raise edge (statement contains a call/subscript/...; assert)
  'ret'    return                  'brk'/'cont'
Node kinds: entry, exit (normal return), rexit (exception leaves the function), stmt,
test (if/while), for, with, except (handler entry), join (dummy).
"""
from __future__ import annotations

import ast
from dataclasses import dataclass, field
from typing import Callable, Iterable, Optional

from .model import walk_no_nested, src

CATCH_ALL = {"Exception", "BaseException"}


@dataclass
class Node:
    id: int
    kind: str
    ast: Optional[ast.AST] = None
    withs: tuple = ()  # enclosing `with` items (ast.withitem) innermost last
    tries: tuple = ()  # enclosing ast.Try nodes whose *body* contains this node
    handler_of: Optional[ast.Try] = None
    copy_of_finally: bool = False
    loops: tuple = ()

    @property
    def lineno(self):
        return getattr(self.ast, "lineno", 0)

    def __repr__(self):
        t = ""
        if self.ast is not None:
            t = src(self.ast).split("\n")[0][:50]
        return f"<{self.id}:{self.kind}:{self.lineno}:{t}>"


def may_raise_implicitly(st: ast.AST) -> bool:
    if isinstance(st, ast.Assert):
        return True
    for n in [st, *walk_no_nested(st)]:
        if isinstance(n, (ast.Call, ast.Subscript, ast.Await, ast.BinOp, ast.Yield, ast.YieldFrom)):
            return True
        if isinstance(n, ast.Attribute) and isinstance(n.ctx, ast.Load):
            # attribute loads can run properties; counted as may-raise only for calls above
            continue
    return False


class CFG:
    def __init__(self, func_node, implicit_exc: bool = True, exc_match: Optional[Callable] = None):
        """exc_match(raised_expr | None, handler_type_expr | None) -> True (caught for sure),
        False (never caught) or None (maybe)."""
        self.func = func_node
        self.nodes: list[Node] = []
        self.succ: dict[int, list[tuple[int, str]]] = {}
        self.pred: dict[int, list[tuple[int, str]]] = {}
        self.implicit_exc = implicit_exc
        self.exc_match = exc_match
        self.entry = self._new("entry")
        self.exit = self._new("exit")
        self.rexit = self._new("rexit")
        self._withs: tuple = ()
        self._tries: tuple = ()
        self._loops: tuple = ()
        self._in_finally_copy = False
        outs = self._build(func_node.body, [(self.entry.id, "n")], [])
        for (p, k) in outs:
            self._edge(p, self.exit.id, k)
        self.by_ast: dict[int, list[Node]] = {}
        for n in self.nodes:
            if n.ast is not None:
                self.by_ast.setdefault(id(n.ast), []).append(n)

    # ------------------------------------------------------------------ construction
    def _new(self, kind, a=None, **kw) -> Node:
        n = Node(len(self.nodes), kind, a, **kw)
        self.nodes.append(n)
        self.succ[n.id] = []
        self.pred[n.id] = []
        return n

    def _stmt(self, kind, a) -> Node:
        return self._new(kind, a, withs=self._withs, tries=self._tries, copy_of_finally=self._in_finally_copy, loops=self._loops)

    def _edge(self, a: int, b: int, kind: str):
        if (b, kind) not in self.succ[a]:
            self.succ[a].append((b, kind))
            self.pred[b].append((a, kind))

    def _connect(self, preds, node: Node):
        for (p, k) in preds:
            self._edge(p, node.id, k)

    def _build(self, stmts, preds, frames) -> list:
        for st in stmts:
            if not preds:
                # unreachable code: still build it (disconnected) so nodes exist
                pass
            preds = self._build_stmt(st, preds, frames)
        return preds

    def _jump(self, preds, kind, frames, raised=None):
        """Route dangling edges `preds` for a non-local exit of `kind`."""
        i = len(frames) - 1
        while i >= 0 and preds:
            fr = frames[i]
            tag = fr[0]
            if tag == "finally":
                saved = (self._withs, self._tries, self._loops, self._in_finally_copy)
                self._withs, self._tries, self._loops = fr[2], fr[3], fr[4]
                self._in_finally_copy = True
                preds = self._build(fr[1], preds, frames[:i])
                self._withs, self._tries, self._loops, self._in_finally_copy = saved
                preds = [(p, k if k in ("raise", "exc", "ret", "brk", "cont") else _carry(kind)) for (p, k) in preds]
            elif tag == "try" and kind in ("raise", "exc"):
                handlers = fr[1]
                caught_for_sure = False
                for (hnode, htype) in handlers:
                    m = None
                    if self.exc_match is not None:
                        m = self.exc_match(raised, htype)
                    elif htype is None:
                        m = True
                    else:
                        names = _handler_names(htype)
                        if names & CATCH_ALL:
                            m = True
                    if m is False:
                        continue
                    for (p, k) in preds:
                        self._edge(p, hnode.id, k)
                    if m is True:
                        caught_for_sure = True
                        break
                if caught_for_sure:
                    return
            elif tag == "loop" and kind in ("brk", "cont"):
                head, brk = fr[1], fr[2]
                if kind == "cont":
                    for (p, k) in preds:
                        self._edge(p, head.id, "loop")
                else:
                    brk.extend(preds)
                return
            i -= 1
        if not preds:
            return
        target = self.exit if kind == "ret" else self.rexit
        for (p, k) in preds:
            self._edge(p, target.id, k)

    def _implicit(self, node: Node, st, frames):
        if self.implicit_exc and may_raise_implicitly(st):
            self._jump([(node.id, "exc")], "exc", frames)

    def _build_stmt(self, st, preds, frames) -> list:
        if isinstance(st, (ast.FunctionDef, ast.AsyncFunctionDef, ast.ClassDef)):
            n = self._stmt("stmt", st)
            self._connect(preds, n)
            return [(n.id, "n")]
        if isinstance(st, ast.If):
            t = self._stmt("test", st)
            self._connect(preds, t)
            self._implicit(t, st.test, frames)
            a = self._build(st.body, [(t.id, "t")], frames)
            b = self._build(st.orelse, [(t.id, "f")], frames) if st.orelse else [(t.id, "f")]
            return a + b
        if isinstance(st, ast.While):
            t = self._stmt("test", st)
            self._connect(preds, t)
            self._implicit(t, st.test, frames)
            brk: list = []
            saved = self._loops
            self._loops = saved + (st,)
            body_out = self._build(st.body, [(t.id, "t")], frames + [("loop", t, brk)])
            self._loops = saved
            for (p, k) in body_out:
                self._edge(p, t.id, "loop")
            const_true = isinstance(st.test, ast.Constant) and bool(st.test.value)
            outs = [] if const_true else [(t.id, "f")]
            if st.orelse:
                outs = self._build(st.orelse, outs, frames)
            return outs + brk
        if isinstance(st, (ast.For, ast.AsyncFor)):
            t = self._stmt("for", st)
            self._connect(preds, t)
            self._implicit(t, st.iter, frames)
            brk = []
            saved = self._loops
            self._loops = saved + (st,)
            body_out = self._build(st.body, [(t.id, "t")], frames + [("loop", t, brk)])
            self._loops = saved
            for (p, k) in body_out:
                self._edge(p, t.id, "loop")
            outs = [(t.id, "f")]
            if st.orelse:
                outs = self._build(st.orelse, outs, frames)
            return outs + brk
        if isinstance(st, (ast.With, ast.AsyncWith)):
            w = self._stmt("with", st)
            self._connect(preds, w)
            self._implicit(w, ast.Tuple(elts=[i.context_expr for i in st.items], ctx=ast.Load()), frames)
            saved = self._withs
            self._withs = saved + tuple(st.items)
            outs = self._build(st.body, [(w.id, "n")], frames + [("with", st)])
            self._withs = saved
            return outs
        if isinstance(st, ast.Try) or (hasattr(ast, "TryStar") and isinstance(st, getattr(ast, "TryStar"))):
            return self._build_try(st, preds, frames)
        if isinstance(st, ast.Match):
            t = self._stmt("test", st)
            self._connect(preds, t)
            self._implicit(t, st.subject, frames)
            outs = []
            exhaustive = False
            for case in st.cases:
                outs += self._build(case.body, [(t.id, "t")], frames)
                if isinstance(case.pattern, ast.MatchAs) and case.pattern.pattern is None and case.guard is None:
                    exhaustive = True
            if not exhaustive:
                outs.append((t.id, "f"))
            return outs
        # simple statements
        n = self._stmt("stmt", st)
        self._connect(preds, n)
        if isinstance(st, ast.Return):
            if st.value is not None:
                self._implicit(n, st.value, frames)
            self._jump([(n.id, "ret")], "ret", frames)
            return []
        if isinstance(st, ast.Raise):
            self._jump([(n.id, "raise")], "raise", frames, raised=st.exc)
            return []
        if isinstance(st, ast.Break):
            self._jump([(n.id, "brk")], "brk", frames)
            return []
        if isinstance(st, ast.Continue):
            self._jump([(n.id, "cont")], "cont", frames)
            return []
        self._implicit(n, st, frames)
        return [(n.id, "n")]

    def _build_try(self, st, preds, frames) -> list:
        fin = None
        outer = frames
        if st.finalbody:
            fin = ("finally", st.finalbody, self._withs, self._tries, self._loops)
            frames_f = frames + [fin]
        else:
            frames_f = frames
        handlers = []
        for h in st.handlers:
            hn = self._new("except", h, withs=self._withs, tries=self._tries, handler_of=st, loops=self._loops)
            handlers.append((hn, h.type))
        saved = self._tries
        self._tries = saved + (st,)
        body_out = self._build(st.body, preds, frames_f + [("try", handlers)])
        self._tries = saved
        if st.orelse:
            body_out = self._build(st.orelse, body_out, frames_f)
        outs = list(body_out)
        for (hn, _t), h in zip(handlers, st.handlers):
            outs += self._build(h.body, [(hn.id, "n")], frames_f)
        if fin is not None:
            # normal completion runs its own copy of the finally body
            saved_f = self._in_finally_copy
            outs = self._build(st.finalbody, outs, outer)
            self._in_finally_copy = saved_f
        return outs

    # ------------------------------------------------------------------ queries
    def node_for(self, a: ast.AST, all_copies=False):
        ns = self.by_ast.get(id(a), [])
        if all_copies:
            return ns
        return ns[0] if ns else None

    def stmts(self) -> Iterable[Node]:
        return [n for n in self.nodes if n.ast is not None]

    def reachable(self, start: Iterable[int], blocked: Iterable[int] = (), kinds: Optional[set] = None,
                  skip_kinds: Optional[set] = None, blocked_edges: Optional[set] = None) -> set[int]:
        """Forward reachability from `start` (start nodes themselves are included), never
        entering a node in `blocked`."""
        blocked = set(blocked)
        seen = set()
        todo = [s for s in start]
        while todo:
            x = todo.pop()
            if x in seen:
                continue
            seen.add(x)
            for (y, k) in self.succ[x]:
                if kinds is not None and k not in kinds:
                    continue
                if skip_kinds is not None and k in skip_kinds:
                    continue
                if blocked_edges is not None and (x, k) in blocked_edges:
                    continue
                if y in blocked or y in seen:
                    continue
                todo.append(y)
        return seen

    def edge_dominated(self, target: int, edges: set, skip_kinds: Optional[set] = None) -> bool:
        """True iff every path entry -> target traverses one of `edges` = {(node id, kind)}."""
        r = self.reachable([self.entry.id], skip_kinds=skip_kinds, blocked_edges=set(edges))
        return target not in r

    def backward_reachable(self, start: Iterable[int], blocked: Iterable[int] = (), skip_kinds: Optional[set] = None) -> set[int]:
        blocked = set(blocked)
        seen = set()
        todo = list(start)
        while todo:
            x = todo.pop()
            if x in seen:
                continue
            seen.add(x)
            for (y, k) in self.pred[x]:
                if skip_kinds is not None and k in skip_kinds:
                    continue
                if y in blocked or y in seen:
                    continue
                todo.append(y)
        return seen

    def live_nodes(self, skip_kinds=None) -> set[int]:
        return self.reachable([self.entry.id], skip_kinds=skip_kinds)

    def dominated_by_set(self, target: int, gate: Iterable[int], skip_kinds: Optional[set] = None) -> bool:
        """True iff every path entry -> target passes through some node of `gate`
        (target itself counts if it is in the gate)."""
        gate = set(gate)
        if target in gate:
            return True
        r = self.reachable([self.entry.id], blocked=gate, skip_kinds=skip_kinds)
        return target not in r

    def postdominated_by_set(self, source: int, gate: Iterable[int], exits: Optional[Iterable[int]] = None,
                             skip_kinds: Optional[set] = None) -> bool:
        """True iff every path source -> (exits, default normal exit) passes through the gate."""
        gate = set(gate)
        exits = set(exits) if exits is not None else {self.exit.id}
        if source in gate:
            return True
        r = self.reachable([source], blocked=gate, skip_kinds=skip_kinds)
        return not (r & exits)

    def path(self, a: int, b: int, blocked: Iterable[int] = (), skip_kinds: Optional[set] = None) -> Optional[list[int]]:
        """Some shortest path a -> b avoiding blocked nodes (for diagnostics)."""
        blocked = set(blocked)
        prev = {a: None}
        todo = [a]
        while todo:
            x = todo.pop(0)
            if x == b:
                out = []
                while x is not None:
                    out.append(x)
                    x = prev[x]
                return list(reversed(out))
            for (y, k) in self.succ[x]:
                if skip_kinds is not None and k in skip_kinds:
                    continue
                if y in blocked or y in prev:
                    continue
                prev[y] = x
                todo.append(y)
        return None

    def fmt_path(self, p: Optional[list[int]]) -> str:
        if not p:
            return "<no path>"
        return " -> ".join(f"L{self.nodes[i].lineno}" if self.nodes[i].ast is not None else self.nodes[i].kind for i in p)

    def dominators(self, skip_kinds: Optional[set] = None) -> dict[int, set[int]]:
        live = self.reachable([self.entry.id], skip_kinds=skip_kinds)
        dom = {n: set(live) for n in live}
        dom[self.entry.id] = {self.entry.id}
        changed = True
        order = sorted(live)
        while changed:
            changed = False
            for n in order:
                if n == self.entry.id:
                    continue
                ps = [p for (p, k) in self.pred[n] if p in live and not (skip_kinds and k in skip_kinds)]
                if not ps:
                    continue
                new = set.intersection(*(dom[p] for p in ps)) | {n}
                if new != dom[n]:
                    dom[n] = new
                    changed = True
        return dom


def _carry(kind):
    return {"ret": "ret", "raise": "raise", "exc": "exc", "brk": "brk", "cont": "cont"}.get(kind, "n")


def _handler_names(htype) -> set[str]:
    if htype is None:
        return {"BaseException"}
    if isinstance(htype, ast.Tuple):
        out = set()
        for e in htype.elts:
            out |= _handler_names(e)
        return out
    t = src(htype)
    return {t.split(".")[-1]}


# ---------------------------------------------------------------------- condition helpers
_MIRROR = {"<": ">", "<=": ">=", ">": "<", ">=": "<=", "==": "==", "!=": "!="}


def _is_const_text(t: str) -> bool:
    from .normal import is_const_text
    return is_const_text(t)


def canonical_atom(lhs: str, op: str, rhs: str) -> tuple:
    """One orientation per comparison (same convention as Model._normalise): a constant operand goes to the right;
    between two non-constant operands `<` / `<=` are written as `>` / `>=` with the operands swapped."""
    if op in _MIRROR:
        lc, rc = _is_const_text(lhs), _is_const_text(rhs)
        if (lc and not rc) or (not lc and not rc and op in ("<", "<=")):
            return (rhs, _MIRROR[op], lhs)
        if op in ("==", "!=") and not lc and not rc:
            from .normal import eq_rank
            if eq_rank(lhs) > eq_rank(rhs):
                return (rhs, op, lhs)
    return (lhs, op, rhs)


A = canonical_atom


def normalise_compare(test: ast.AST):
    """Return a list of (lhs_src, op, rhs_src) atoms of a test in a normal form where
    `not (a <= b)` becomes `a > b`.  Only single-comparator Compare nodes are normalised;
    other atoms come back as (src, 'truthy'|'falsy', '')."""
    NEG = {ast.Lt: ast.GtE, ast.LtE: ast.Gt, ast.Gt: ast.LtE, ast.GtE: ast.Lt, ast.Eq: ast.NotEq, ast.NotEq: ast.Eq,
           ast.Is: ast.IsNot, ast.IsNot: ast.Is, ast.In: ast.NotIn, ast.NotIn: ast.In}
    SYM = {ast.Lt: "<", ast.LtE: "<=", ast.Gt: ">", ast.GtE: ">=", ast.Eq: "==", ast.NotEq: "!=", ast.Is: "is",
           ast.IsNot: "is not", ast.In: "in", ast.NotIn: "not in"}

    def go(t, neg):
        if isinstance(t, ast.UnaryOp) and isinstance(t.op, ast.Not):
            return go(t.operand, not neg)
        if isinstance(t, ast.BoolOp):
            parts = [go(v, neg) for v in t.values]
            is_and = isinstance(t.op, ast.And) != neg
            return ("and" if is_and else "or", parts)
        if isinstance(t, ast.Compare) and len(t.ops) == 1:
            op = type(t.ops[0])
            if neg:
                op = NEG[op]
            return ("atom", canonical_atom(src(t.left), SYM[op], src(t.comparators[0])))
        return ("atom", (src(t), "falsy" if neg else "truthy", ""))

    return go(test, False)


def atoms(norm) -> list:
    if norm[0] == "atom":
        return [norm[1]]
    out = []
    for p in norm[1]:
        out += atoms(p)
    return out


def int_bound_gt(atom) -> Optional[tuple[str, int]]:
    """For an atom 'x > c' / 'x >= c' with integer constant c return (x, least value that
    satisfies it); used to compare bounds written in different spellings."""
    lhs, op, rhs = atom
    try:
        c = int(ast.literal_eval(rhs))
    except Exception:
        try:
            c = int(ast.literal_eval(lhs))
            # constant on the left: flip
            flip = {"<": ">", "<=": ">=", ">": "<", ">=": "<="}
            if op not in flip:
                return None
            lhs, op = rhs, flip[op]
        except Exception:
            return None
    if op == ">":
        return (lhs, c + 1)
    if op == ">=":
        return (lhs, c)
    return None


def int_bound_lt(atom) -> Optional[tuple[str, int]]:
    """'x < c' / 'x <= c' -> (x, greatest value that satisfies it)."""
    lhs, op, rhs = atom
    try:
        c = int(ast.literal_eval(rhs))
    except Exception:
        try:
            c = int(ast.literal_eval(lhs))
            flip = {"<": ">", "<=": ">=", ">": "<", ">=": "<="}
            if op not in flip:
                return None
            lhs, op = rhs, flip[op]
        except Exception:
            return None
    if op == "<":
        return (lhs, c - 1)
    if op == "<=":
        return (lhs, c)
    return None
