#!/usr/bin/env python3
"""Record, for seeds not yet in seeded/_history.json, what the checks reported when the seed was first confirmed (tools/seedcheck.py writes that
into meta.json as `checks_reporting`).  Run it after a round's seedchecks and BEFORE any rule is changed because of that round.

usage: seedhistory.py <round-number> [seed-id ...]     (default: every seed without a history entry)
"""
import json
import os
import sys

VERIF = os.path.dirname(os.path.dirname(os.path.abspath(__file__)))


def main():
    rnd = int(sys.argv[1])
    ids = sys.argv[2:]
    sdir = os.path.join(VERIF, "seeded")
    hp = os.path.join(sdir, "_history.json")
    h = json.load(open(hp))
    todo = ids or sorted(x for x in os.listdir(sdir) if os.path.isdir(os.path.join(sdir, x)) and x not in h)
    for sid in todo:
        m = json.load(open(os.path.join(sdir, sid, "meta.json")))
        prop = m["property"]
        rep = m.get("checks_reporting", {})
        own = prop in rep and bool(rep[prop].get("new_violations"))
        own_blind = prop in rep and not rep[prop].get("new_violations") and bool(rep[prop].get("new_analysis_errors"))
        others = sorted(p for p, v in rep.items() if p != prop and v.get("new_violations"))
        e = {"round": rnd, "own_check_caught_before_strengthening": bool(own)}
        if own:
            rules = sorted({v.split()[1] for v in rep[prop]["new_violations"]})
            e["note"] = f"round {rnd}: reported at once by the property's own check ({', '.join(rules)})"
        elif others:
            rules = sorted({p + " " + v.split()[1] for p in others for v in rep[p]["new_violations"]})
            e["caught_by_other_check_before_strengthening"] = ", ".join(rules)
            e["note"] = f"round {rnd}: own check silent; reported at once by {', '.join(rules)}"
        elif own_blind:
            e["note"] = f"round {rnd}: own check ended ANALYSIS-ERROR (refused to pass) without a VIOLATION line"
        else:
            e["note"] = f"round {rnd}: not reported by any check when first run"
        if not m.get("confirmed"):
            e["note"] += " [seed NOT confirmed by seedcheck: " + json.dumps({k: m.get(k) for k in ("demo_on_clean", "demo_on_seeded", "suite_with_seed")})[:200] + "]"
        h[sid] = e
        print(sid, e["note"])
    json.dump(h, open(hp, "w"), indent=1)


if __name__ == "__main__":
    main()
