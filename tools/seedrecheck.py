#!/usr/bin/env python3
"""Re-run every kept seeded change (/verif/seeded/<id>/patch.diff) against the current checks and record the result.

For each seed: copy /repo/dns to a scratch directory (tempfile, removed afterwards), apply the patch with `patch -p1`, run all 20
checks with --repo <scratch> --no-evidence, and write into seeded/<id>/meta.json
  final_checks_reporting   {Cnn: [violation lines]}   (violations not present on the clean tree)
  caught_by_own_property_check_final
  first_seen               from seeded/_history.json: whether the property's own check caught it before any strengthening
Prints one row per seed; exit 1 if some seed is caught by no check at all.

usage: seedrecheck.py [-j N] [seed-id ...]
"""
import json
import os
import shutil
import subprocess
import sys
import tempfile
from concurrent.futures import ThreadPoolExecutor

VERIF = os.path.dirname(os.path.dirname(os.path.abspath(__file__)))
PY = "/venv/bin/python"
PROPS = [f"C{i:02d}" for i in range(1, 21)]


def run_checks(repo):
    out = {}
    for p in PROPS:
        r = subprocess.run([PY, os.path.join(VERIF, "vcheck.py"), p, "--repo", repo, "--no-evidence"], cwd=VERIF, stdout=subprocess.PIPE, stderr=subprocess.STDOUT, text=True)
        out[p] = {"rc": r.returncode, "violations": [ln.strip() for ln in r.stdout.splitlines() if ln.startswith("  violated")],
                  "blind": [ln.strip() for ln in r.stdout.splitlines() if ln.startswith("ANALYSIS-ERROR")]}
    return out


def one(sid, base):
    d = tempfile.mkdtemp(prefix="vsr-")
    try:
        shutil.copytree("/repo/dns", os.path.join(d, "dns"), ignore=shutil.ignore_patterns("__pycache__"))
        r = subprocess.run(["patch", "-p1", "-s", "-i", os.path.join(VERIF, "seeded", sid, "patch.diff")], cwd=d, stdout=subprocess.PIPE, stderr=subprocess.STDOUT, text=True)
        if r.returncode:
            return sid, None, f"patch does not apply: {r.stdout[:200]}"
        res = run_checks(d)
        caught = {}
        for p, v in res.items():
            newv = [x for x in v["violations"] if x not in set(base[p]["violations"])]
            newb = [x for x in v["blind"] if x not in set(base[p]["blind"])]
            if newv or newb:
                caught[p] = {"new_violations": newv[:4], "new_analysis_errors": newb[:2]}
        return sid, caught, ""
    finally:
        shutil.rmtree(d, ignore_errors=True)


def main():
    args = sys.argv[1:]
    jobs = 4
    if "-j" in args:
        i = args.index("-j")
        jobs = int(args[i + 1])
        del args[i:i + 2]
    sdir = os.path.join(VERIF, "seeded")
    ids = args or sorted(x for x in os.listdir(sdir) if os.path.isdir(os.path.join(sdir, x)))
    hist = json.load(open(os.path.join(sdir, "_history.json"))) if os.path.exists(os.path.join(sdir, "_history.json")) else {}
    base = run_checks("/repo")
    dirty = [p for p, v in base.items() if v["violations"] or v["blind"]]
    if dirty:
        print("clean tree is not clean for", dirty)
    with ThreadPoolExecutor(max_workers=jobs) as ex:
        results = list(ex.map(lambda s: one(s, base), ids))
    missed = 0
    for sid, caught, err in results:
        mp = os.path.join(sdir, sid, "meta.json")
        meta = json.load(open(mp))
        if caught is None:
            print(f"{sid:8s} ERROR {err}")
            missed += 1
            continue
        prop = meta["property"]
        meta["final_checks_reporting"] = caught
        meta["caught_by_own_property_check_final"] = prop in caught and bool(caught[prop]["new_violations"])
        if sid in hist:
            meta["first_seen"] = hist[sid]
        json.dump(meta, open(mp, "w"), indent=1)
        rules = sorted({v.split()[1] for p in caught for v in caught[p]["new_violations"]})
        own = "own" if meta["caught_by_own_property_check_final"] else ("other" if caught else "MISSED")
        if not caught:
            missed += 1
        print(f"{sid:8s} {prop} {own:6s} {' '.join(sorted(caught))} :: {' '.join(rules)}")
    return 1 if missed else 0


if __name__ == "__main__":
    sys.exit(main())
