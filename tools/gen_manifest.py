#!/usr/bin/env python3
"""Regenerates /verif/MANIFEST.json from the table below (one entry per property)."""
import json, os
HERE = os.path.dirname(os.path.dirname(os.path.abspath(__file__)))
props = [json.loads(l) for l in open(os.path.join(HERE, "properties.jsonl"))]

NOTE = ("Trusted base: CPython's ast parser; the frozen rule tables in /verif/rules (each exception names one construct with a reason); "
        "call/receiver resolution is by annotations, constructor calls and unique method names, and a rule that cannot resolve an anchor "
        "ends ANALYSIS-ERROR (exit 2), never pass. User callbacks and the Python runtime (threading.Lock, dict, bytes comparison) are outside the analysed program.")

CLAIMS = {}
def claim(pid, technique, text, design_ref):
    CLAIMS[pid] = dict(technique=technique, text=text, design_ref=design_ref)

# CLAIMS-BEGIN
claim("C17", "guarded-by lock analysis + CFG edge-dominance + path enumeration over dns/resolver.py cache classes",
      "Decides structurally (for every access/path in the source): R-17.1 every access to data/statistics/next_cleaning/sentinel and every call of a lock-free helper sits in the single `with self.lock` block of its public method (one mutex + one critical section per operation => every concurrent history is equivalent to the lock-acquisition order); R-17.2 a cached entry is returned only on the not-expired side of an `expiration <= now` test on that same entry with the clock read under the lock; R-17.3 exactly one of hits/misses per path through get(), hits iff a value is returned; R-17.4 the LRU insert is dominated by the exit of `while len(data) >= max_size`, the victim is the ring end opposite to link_after(sentinel), dict and ring updates are paired, hits move to the front. Does NOT decide: conformance of whole get/put/flush histories (ring arithmetic over sequences), or that shrinking max_size evicts immediately.",
      "DESIGN.md section 3, C17")
claim("C12", "guarded-by analysis over the whole package + *_unlocked call-site convention + no-blocking-under-lock closure + CFG (post)dominance on writer()/_end_write_unlocked",
      "Decides the lock-discipline preconditions of writer serialisation in dns/versioned.py: R-12.1 the six admission/retention fields are touched only under _version_lock, in *_unlocked methods or in __init__ (4 reasoned owner-only exceptions) and *_unlocked methods are called only with the lock held; R-12.2 nothing blocking (Event.wait, sleep, deferred _setup_version) runs under the lock, transitively; R-12.3 the write slot is taken only under `_write_txn is None and event == _write_event`, every write end clears it and reaches the wake-up, waiters use append/popleft only, the waiter waits on its own event outside the lock; R-12.4 commit publishes and ends the write in one lock hold; R-12.5 every exceptional exit of writer() after admission ends the write. Does NOT decide FIFO admission, absence of lost wake-ups or deadlock over all interleavings, nor serial equivalence: that is a schedule-space argument and these rules are only its preconditions.",
      "DESIGN.md section 3, C12")
claim("C10", "typestate by CFG dominance with self-call summaries + sanitiser-before-sink taint (reaching definitions) + node-ownership analysis + exit-shape rules",
      "Decides structurally: R-10.1 every public Transaction method (all subclasses) passes _check_ended() before any low-level hook and _check_read_only() before any mutating hook, and put/delete hooks are reached only through the _checked_* wrappers; R-10.2 every key used with self.nodes/changed/delegations in Version, WritableVersion and the btreezone subclass is the result of _validate_name/_maybe_cow_with_name or comes from the map itself (reaching definitions; raw parameters are tainted); R-10.3 node mutators run only on nodes obtained by copy-on-write / fresh / already-in-changed, zone.nodes is replaced only at commit, the writable version copies the map; R-10.4 __exit__ commits iff no exception else rolls back and never swallows, _end sets _ended on every exit, _end_transaction ends exactly once and publishes only on commit; R-10.5 base and btreezone put/delete/delete_node/_maybe_cow_with_name keep the same obligations. Does NOT decide conformance of operation sequences to a reference model (TTL merge, singleton rules, serial arithmetic) or atomicity at arbitrary abort points beyond these exits.",
      "DESIGN.md section 3, C10")
claim("C11", "write-set (mutation effect) analysis resolved per immutable subclass + frozen-container capability table + CFG shape rules",
      "Decides structurally: R-11.1 the complete mutator surface (every method with a non-empty transitive write set) of ImmutableRdataset, the three immutable node classes and the two ImmutableVersion classes is either overridden by an always-raising body or blocked by construction (the mutated field is rebound in __init__ to dns.immutable.Dict/tuple, which lack the operation, and the class is @immutable so rebinding raises); dns.immutable.Dict and _Immutable.__setattr__/__delattr__ have the required shape; R-11.2 both ImmutableVersion constructors wrap every changed node and freeze the map (and delegations), and every version a versioned zone publishes - including version 1 - is the immutable factory's result; R-11.3 Transaction.get/get_node and versioned.Zone.find/get_rdataset return frozen views, legacy zone mutators raise or hit the frozen map; R-11.4 _versions changes only by append/popleft, pruning is bounded by `id < least_kept` with least_kept = min reader id else newest id, ids are last+1, readers register/unregister under the lock. Does NOT decide snapshot isolation over interleaved histories (follows informally from R-10.3 + R-11.1/2) nor what a user-supplied pruning policy allows.",
      "DESIGN.md section 3, C11")
claim("C19", "ownership typestate: fixpoint of owner-requiring methods/parameters + reaching-definition provenance of every node receiver + freeze-protocol shape rules",
      "Decides structurally for dns/btree.py: R-19.1 every in-place write to _Node.elts/children and every call of a (transitively) node-mutating method has an OWNED receiver/argument - self of a mutating method, the result of maybe_cow_child/_get_node/clone/constructor, or self.root after the root copy-on-write idiom - while values read from X.children[...] are shared (1 reasoned exception: the re-fetch after balance in delete); summaries of maybe_cow/maybe_cow_child/clone/split/_get_node are verified; R-19.2 every BTree method that changes the tree is dominated by _check_mutable_and_park(), which raises when frozen, freezing is one-way, cloning requires a frozen original, each tree has a fresh creator token; R-19.3 BTreeDict/BTreeSet touch the tree only through BTree's public operations. Does NOT decide sorted-map conformance, occupancy bounds, leaf depth or cursor behaviour over operation sequences.",
      "DESIGN.md section 3, C19")
claim("C20", "enum-exhaustive flag re-derivation check + block-level pairing of flag/index/subtree updates + key provenance (shared with C10) + predicate shape rules",
      "Decides structurally for dns/btreezone.py: R-20.1 at every site of WritableVersion that replaces a node by a fresh one, every NodeFlags member is copied or re-derived under the right predicate (ORIGIN/_is_origin, GLUE/is_glue, DELEGATION/membership in the index); R-20.2 delegations.add/discard, the DELEGATION flag and update_glue_flag of the subtree always change together, delete_node mirrors delete_rdataset, update_glue_flag walks exactly the proper subdomains and sets/clears GLUE on the right side; R-20.3 map and index are B-tree containers, keys are validated, get_delegation/is_glue have the documented shape. Known finding (listed, not fixed): nested cuts are load-order dependent. Does NOT decide bounds() results or equality of incremental and recomputed state over histories.",
      "DESIGN.md section 3, C20")
# CLAIMS-END

NA_REASON = {}
def na(pid, reason):
    NA_REASON[pid] = reason

checks = []
for p in props:
    pid = p["id"]
    if pid in CLAIMS:
        c = CLAIMS[pid]
        checks.append({
            "property_id": pid,
            "quick_cmd": f"/venv/bin/python vcheck.py {pid} --tier quick",
            "thorough_cmd": f"/venv/bin/python vcheck.py {pid} --tier thorough",
            "evidence_file": f"/verif/evidence/{pid}.json",
            "replay_cmd_template": f"/venv/bin/python vcheck.py {pid} --replay {{path}}",
            "engine": "vcheck",
            "level_claimed": {"category": "other", "text": c["text"], "design_ref": c["design_ref"]},
            "level_note": NOTE,
            "technique": "static analysis: " + c["technique"],
        })
m = {
    "version": 1,
    "setup_cmd": "true",
    "hooks": {"guard": "RTHALLEY_DNSPYTHON_VERIF",
              "enable": "no hooks: the checks parse /repo/dns with ast on every run and never import or execute it",
              "baseline_off_cmd": "cd /repo && /venv/bin/python -m pytest -q -p no:cacheprovider --timeout=900 --continue-on-collection-errors",
              "source_commits": [], "add_only": True},
    "engines": [{"name": "vcheck", "path": "/verif/vcheck.py", "serves_properties": sorted(CLAIMS),
                 "kind_free_text": "repository-specific static analyser (stdlib ast; own program model, CFG with exceptional edges and dominance, call resolution, escape/effect analyses, layout and twin projections); thorough tier adds a witness self-test on scratch copies (edits that must fire, refactor twins that must stay silent)"}],
    "checks": checks,
    "notes": "Static analysis only (see DESIGN.md). Exit 0 pass / 1 VIOLATION / 2 ANALYSIS-ERROR (checker blind: anchor vanished, unknown shape, instance floor). Known findings: /verif/known_findings.json.",
    "not_applicable": [{"property_id": p["id"], "reason": NA_REASON.get(p["id"], "check not built yet (work in progress); DESIGN.md section 3 lists the planned structural rules")}
                       for p in props if p["id"] not in CLAIMS],
}
json.dump(m, open(os.path.join(HERE, "MANIFEST.json"), "w"), indent=1)
print("claimed", sorted(CLAIMS), "n/a", len(m["not_applicable"]))
