#!/usr/bin/env python3
"""Regenerates /verif/MANIFEST.json from the table below (one entry per property)."""
import json, os
HERE = os.path.dirname(os.path.dirname(os.path.abspath(__file__)))
props = [json.loads(l) for l in open(os.path.join(HERE, "properties.jsonl"))]

NOTE = ("Trusted base: CPython's ast parser; the normal form of engine/normal.py and the role renaming of rules/roles.py (behaviour-preserving rewrites of the parsed tree, "
        "applied before any rule runs; measured by tools/renamefuzz.py and tools/refactorfuzz.py); the frozen rule tables in /verif/rules (each exception names one construct with a reason); "
        "call/receiver resolution is by annotations, constructor calls and unique method names, and a rule that cannot resolve an anchor "
        "ends ANALYSIS-ERROR (exit 2), never pass. User callbacks and the Python runtime (threading.Lock, dict, bytes comparison) are outside the analysed program.")

CLAIMS = {}
def claim(pid, technique, text, design_ref):
    CLAIMS[pid] = dict(technique=technique, text=text, design_ref=design_ref)

# CLAIMS-BEGIN
claim("C17", "guarded-by lock analysis + CFG edge-dominance + path enumeration over dns/resolver.py cache classes",
      "Decides structurally (for every access/path in the source): R-17.1 every access to data/statistics/next_cleaning/sentinel and every call of a lock-free helper sits in the single `with self.lock` block of its public method (one mutex + one critical section per operation => every concurrent history is equivalent to the lock-acquisition order); R-17.2 a cached entry is returned only on the not-expired side of an `expiration <= now` test on that same entry with the clock read under the lock; R-17.3 exactly one of hits/misses per path through get(), hits iff a value is returned; R-17.4 the LRU insert is dominated by the exit of `while len(data) >= max_size`, the victim is the ring end opposite to link_after(sentinel), dict and ring updates are paired, hits move to the front. Does NOT decide: conformance of whole get/put/flush histories (ring arithmetic over sequences), or that shrinking max_size evicts immediately.",
      "DESIGN.md section 3, C17")
claim("C12", "guarded-by analysis over the whole package + *_unlocked call-site convention + no-blocking-under-lock closure + CFG (post)dominance on writer()/_end_write_unlocked",
      "Decides the lock-discipline preconditions of writer serialisation in dns/versioned.py: R-12.1 the six admission/retention fields are touched only under _version_lock, in *_unlocked methods or in __init__ (4 reasoned owner-only exceptions) and *_unlocked methods are called only with the lock held; R-12.2 nothing blocking (Event.wait, sleep, deferred _setup_version) runs under the lock, transitively; R-12.3 the write slot is taken only under `_write_txn is None and event == _write_event`, every write end clears it and reaches the wake-up, waiters use append/popleft only, the waiter waits on its own event outside the lock; R-12.4 commit publishes and ends the write in one lock hold; R-12.5 every exceptional exit of writer() after admission ends the write. Does NOT decide FIFO admission, absence of lost wake-ups or deadlock over all interleavings, nor serial equivalence: that is a schedule-space argument and these rules are only its preconditions.",
      "DESIGN.md section 3, C12")
claim("C10", "typestate by CFG dominance with self-call summaries + sanitiser-before-sink taint (reaching definitions) + node-ownership analysis + exit-shape rules",
      "Decides structurally: R-10.1 every public Transaction method (all subclasses) passes _check_ended() before any low-level hook and _check_read_only() before any mutating hook, and put/delete hooks are reached only through the _checked_* wrappers; R-10.2 every key used with self.nodes/changed/delegations in Version, WritableVersion and the btreezone subclass is the result of _validate_name/_maybe_cow_with_name or comes from the map itself (reaching definitions; raw parameters are tainted); R-10.3 node mutators run only on nodes obtained by copy-on-write / fresh / already-in-changed, zone.nodes is replaced only at commit, the writable version copies the map; R-10.4 __exit__ commits iff no exception else rolls back and never swallows, _end sets _ended on every exit, _end_transaction ends exactly once and publishes only on commit; R-10.5 base and btreezone put/delete/delete_node/_maybe_cow_with_name keep the same obligations. Does NOT decide conformance of operation sequences to a reference model (TTL merge, singleton rules, serial arithmetic) or atomicity at arbitrary abort points beyond these exits.",
      "DESIGN.md section 3, C10")
claim("C11", "write-set (mutation effect) analysis resolved per immutable subclass + frozen-container capability table + CFG shape rules",
      "Decides structurally: R-11.1 the complete mutator surface (every method with a non-empty transitive write set) of ImmutableRdataset, the three immutable node classes and the two ImmutableVersion classes is either overridden by an always-raising body or blocked by construction (the mutated field is rebound in __init__ to dns.immutable.Dict/tuple, which lack the operation, and the class is @immutable so rebinding raises); dns.immutable.Dict and _Immutable.__setattr__/__delattr__ have the required shape; R-11.2 both ImmutableVersion constructors wrap every changed node and freeze the map (and delegations), and every version a versioned zone publishes - including version 1 - is the immutable factory's result; R-11.3 Transaction.get/get_node and versioned.Zone.find/get_rdataset return frozen views, legacy zone mutators raise or hit the frozen map; R-11.4 _versions changes only by append/popleft, pruning is bounded by `id < least_kept` with least_kept = min reader id else newest id, ids are last+1, readers register/unregister under the lock. Does NOT decide snapshot isolation over interleaved histories (follows informally from R-10.3 + R-11.1/2) nor what a user-supplied pruning policy allows.",
      "DESIGN.md section 3, C11")
claim("C19", "ownership typestate: fixpoint of owner-requiring methods/parameters + reaching-definition provenance of every node receiver + freeze-protocol shape rules",
      "Decides structurally for dns/btree.py: R-19.1 every in-place write to _Node.elts/children and every call of a (transitively) node-mutating method has an OWNED receiver/argument - self of a mutating method, the result of maybe_cow_child/_get_node/clone/constructor, or self.root after the root copy-on-write idiom - while values read from X.children[...] are shared (1 reasoned exception: the re-fetch after balance in delete); summaries of maybe_cow/maybe_cow_child/clone/split/_get_node are verified; R-19.2 every BTree method that changes the tree is dominated by _check_mutable_and_park(), which raises when frozen, freezing is one-way, cloning requires a frozen original, each tree has a fresh creator token; R-19.3 BTreeDict/BTreeSet touch the tree only through BTree's public operations. Does NOT decide sorted-map conformance, occupancy bounds, leaf depth or cursor behaviour over operation sequences.",
      "DESIGN.md section 3, C19")
claim("C20", "enum-exhaustive flag re-derivation check + block-level pairing of flag/index/subtree updates + key provenance (shared with C10) + predicate shape rules",
      "Decides structurally for dns/btreezone.py: R-20.1 at every site of WritableVersion that replaces a node by a fresh one, every NodeFlags member is copied or re-derived under the right predicate (ORIGIN/_is_origin, GLUE/is_glue, DELEGATION/membership in the index); R-20.2 delegations.add/discard, the DELEGATION flag and update_glue_flag of the subtree always change together, delete_node mirrors delete_rdataset, update_glue_flag walks exactly the proper subdomains and sets/clears GLUE on the right side; R-20.3 map and index are B-tree containers, keys are validated, get_delegation/is_glue have the documented shape. Known finding (listed, not fixed): nested cuts are load-order dependent. Does NOT decide bounds() results or equality of incremental and recomputed state over histories.",
      "DESIGN.md section 3, C20")
claim("C13", "commit-last typestate on the CFG of Inbound.process_message and of every driver (boolean result propagated through loop tests) + guard-dominance rules",
      "Decides structurally: R-13.1 no raise/assert is reachable after self.txn.commit() in process_message, the commit happens only when done, and in every function that drives an Inbound no raise is reachable after a process_message call that returned True (2 known findings listed: the late 'missing TSIG' check in both _inbound_xfr twins); R-13.2 __exit__ rolls back an open transaction, the AXFR-style fallback rolls back before opening the replacement writer, IXFR deletions use delete_exact under delete_mode, serial regression uses dns.serial.Serial, the `done`/in-zone/rcode guards dominate every zone mutation, the final-SOA conditions are intact; R-13.3 both _inbound_xfr twins run inside `with Inbound(...)`, parse with xfr/one_rr_per_rrset(IXFR)/multi/tsig_ctx/origin and thread the TSIG context, inbound_xfr maps UseTCP to a TCP retry. Does NOT decide convergence to the server's version for all streams and message splits.",
      "DESIGN.md section 3, C13")
claim("C06", "operator-table check over rich comparisons + single-normaliser dataflow + mirrored-arm and guard shape rules on fullcompare/relativize",
      "Decides the comparison structure (names are touched only through comparisons, a finite structure): R-06.1 each Name rich comparison returns fullcompare(other)[1] <op> 0 with the operator its name says, foreign operands give NotImplemented/False/True; R-06.2 fullcompare folds both labels with the same normaliser, __hash__ folds every octet with it, canonicalize/to_wire/to_digestable use it; R-06.3 the </> arms of fullcompare are mirrored, relative sorts before absolute, the scan is right-to-left over min(len) labels, the tie-break and relation come from len(self)-len(other), is_subdomain/is_superdomain accept exactly {SUB|SUPER}DOMAIN and EQUAL; R-06.4 relativize strips exactly len(origin) labels under is_subdomain(origin), derelativize appends only to relative names. Totality/transitivity/hash coherence follow from these plus bytes comparison (trusted). Does NOT decide the length handling of the RFC 4471 successor/predecessor (padding, prefixing); the octet step itself is decided by R-06.5 (below).",
      "DESIGN.md section 3, C06")
claim("C07", "decorator census + provenance classification of constructor field stores (reaching definitions) + operator table + aliasing-guard dominance + write-before-raise analysis",
      "Decides structurally: R-07.1 Name, every Rdata subclass and helper value classes are @immutable and the guard is bypassed only at 5 reasoned constructor-like sites; R-07.2 every field stored by an immutable class's __init__ has an immutable kind (validator result, tuple/float/int/str/bytes, enum, constify/Dict, constant), never a bare parameter (6 reasoned exceptions); R-07.3 Rdata.__eq__/__hash__ derive from the same to_digestable image, ordering dunders follow the operator table over _cmp, _cmp is a mirrored three-way comparison; R-07.4 Set methods that mutate while iterating the other operand are guarded by `self is other` or iterate a copy, and the aliasing arms do the right thing; R-07.5 in Rdataset.add no refusal is reachable after the first write; R-07.6 singleton clear and TTL minimisation are wired on add/union/intersection/update. Does NOT decide the algebraic set laws over operation sequences.",
      "DESIGN.md section 3, C07")
claim("C14", "ordered-effect projection of _digest per flag valuation against the RFC 8945 table + dominance rules on validate + table agreement",
      "Decides structurally: R-14.1 for each valuation of (first, request MAC present) the flattened, typed sequence of ctx.update inputs of dns.tsig._digest equals RFC 8945 4.3 (request MAC with length prefix, original id | wire[2:], key name/class/TTL, algorithm, 48-bit time, fudge, error, other) and the multi-message continuation starts with the length-prefixed prior MAC - an oracle independent of the implementation, unlike the symmetric sign/verify tests; R-14.2 validate digests header[0:10] | ARCOUNT-1 | body up to the TSIG, the error/time-window/key-name/algorithm checks precede the MAC check and always raise, every normal return is dominated by ctx.verify(rdata.mac), HMAC verify is compare_digest over the (truncated) digest; R-14.3 _hashes and mac_sizes agree per algorithm name; R-14.4 a misplaced TSIG raises BadTSIG (a FormError) and Message.to_wire signs the wire produced after write_header(). Does NOT compute MAC values; rejection of every bit flip follows from HMAC (trusted).",
      "DESIGN.md section 3, C14")
claim("C15", "per-type dataflow of canonicalize/compress parameters into embedded-name encoders vs the RFC 4034 6.2 / RFC 6840 5.1 table + ordered composition checks",
      "Decides structurally: R-15.1 for every concrete record class the canonicalize parameter of _to_wire (through super() chains and helper codecs) reaches each embedded Name.to_wire iff the type is in the RFC list (9 known findings listed: CH/A lower-cases; MD MF MB MG MR MINFO NXT A6 are unimplemented hence never lower-cased); R-15.2 to_digestable reaches _to_wire with no compression table and no codec manufactures one; R-15.3 the RRSIG signing input, DS digest input, NSEC3 hash and ZONEMD digest are composed in the RFC order from canonical owner/RDATA, sorted; R-15.4 the NSEC walk iterates sorted names, skips names beneath the current delegation, wraps to the origin and builds bitmaps from node types + RRSIG + NSEC. Does NOT compute numeric results (key tags, digests, bitmap octets).",
      "DESIGN.md section 3, C15")
claim("C01", "must-pass-through / who-may-write on the validation gate + normalised integer bounds + well-founded-measure rule for wire decoding + folded escape-table set comparison",
      "Decides structurally: R-01.1 Name.labels is written only by __init__/__setstate__ and every path from the store to a normal exit passes _validate_labels(self.labels); no Name is made via __new__; R-01.2 _validate_labels raises LabelTooLong exactly from 64 octets and NameTooLong exactly from 256 (any spelling of the bound), accumulating len+1 per label; R-01.3 in from_wire_parser every seek target is tested `>= biggest_pointer` -> BadPointer, the bound is lowered before the next label and starts at the name's offset, literal labels are <= 63 octets, other label types raise, every loop iteration consumes input, Parser.seek is bounded (termination by a well-founded measure); R-01.4 compression offsets stored are <= 0x3FFF, taken before the suffix is written, keyed by the suffix that is looked up, never the root, pointers are 0xC000 + stored offset and end the name; R-01.5 every octet a reader treats specially ('.', backslash, '@', tokenizer delimiters, '$', >= 0x80) is outside the writer's raw set (sets folded from the source, not hard-coded), \\DDD is written and read with 3 digits; R-01.6 \\DDD > 255 raises BadEscape. Does NOT decide byte-identity of the round trip for all label contents, IDNA behaviour, or successor/predecessor length arithmetic.",
      "DESIGN.md section 3, C01")
claim("C03", "layout agreement of message-level writer/reader pairs (folded struct formats, field order) + statement-position rule for counts + provenance of the compression-table argument",
      "Decides structurally: R-03.1 Renderer.write_header and _WireReader.read agree on !HHHHHH and on which count drives which section (renderer section numbers = MessageSection values), add_question/_get_question agree on name | !HH, Rdataset.to_wire/_get_section agree on !HHI + 2-octet back-patched RDLENGTH vs !HHIH incl. the empty-rdataset form, RDATA is confined to rdlength; R-03.2 every Renderer count is incremented only after its `with self._track_size()` block by the RR count that block returned, and Rdataset.to_wire returns 1 / len(self) on the matching paths; R-03.3 every to_wire that receives Renderer.output receives Renderer.compress (or None), the table is bound once, Rdataset/RRset pass file+compress through together; R-03.4 the reader builds sections only via find_rrset with the six-component key and Message.index is written only there. Does NOT decide equality of the parsed message for all section contents, byte-identical re-rendering, rcode split arithmetic or update-class encoding.",
      "DESIGN.md section 3, C03")
claim("C08", "lexical with-context check + CFG dominance/post-dominance on renderer and Message.to_wire + def-use completeness of the padding length + sibling cross-check of TSIG writers",
      "Decides structurally: R-08.1 every write that grows Renderer.output sits inside `with self._track_size()` (back-patches inside _temporarily_seek_to excepted); R-08.2 _track_size records the start, compares tell() > max_size after the body, calls _rollback(start) before raising TooBig, and _rollback truncates and drops every table entry with offset >= where; R-08.3 in Message.to_wire both reserves dominate all sections, release_reserved is passed on every path (normal and truncated) before OPT/TSIG, TC is set exactly under section < ADDITIONAL with prefer_truncation else TooBig propagates, write_header follows the last section/OPT on every path; R-08.4 the padding length uses current size + OPT reserve + TSIG reserve, pad = block - remainder or empty, the OPT reserve includes the padding option header; R-08.5 after padding both TSIG-writing paths pass no compression table (Message.to_wire goes through Renderer._write_tsig). Does NOT decide that the truncated prefix parses for every limit value.",
      "DESIGN.md section 3, C08")
claim("C16", "twin projection of sync/async resolvers and Nameserver classes + def-use/dominance rule for the lifetime budget + cycle-must-increment check + cache key set comparison",
      "Decides structurally: R-16.1 Resolver.resolve and its async twin, resolve_address/resolve_name/canonical_name, and all five Nameserver.query/async_query pairs project onto the same decisions and transport call arguments (modulo backend); R-16.2 every attempt's timeout is _compute_timeout(start, lifetime, errors) recomputed inside the attempt loop with start read once, and _compute_timeout raises LifetimeTimeout at duration >= lifetime; R-16.3 every trip round resolve_chaining's loop increments the counter compared with MAX_CHAIN and an over-long chain raises; R-16.4 the cache keys read in next_request equal those written in query_result; R-16.5 broken servers are removed from the list rounds are re-armed from, the TCP retry is armed only after a UDP truncation and consumed once, NXDOMAIN is raised only after all candidate names. Does NOT decide the outcome for every fault sequence or the search-list/ndots rules.",
      "DESIGN.md section 3, C16")
claim("C18", "path-feasibility argument for returns-checked (per value of ignore_errors) + event projection of 11 sync/async twin pairs + loop-shape rules for framing",
      "Decides structurally: R-18.1 in each of the 14 exchange functions every path that returns a message becomes infeasible once is_response() is assumed false (checked locally, or for ignore_errors delegated to receive_udp which gets ignore_errors, the query and the destination), or returns another checked exchange's result; receive_udp never returns from an exception arm, parses strictly, and tests the source address before parsing; is_response requires QR, id, opcode and equal questions; R-18.2 11 dns.query/dns.asyncquery twin pairs project onto the same recv / destination-test / from_wire keyword set / Truncated and generic arms / is_response / raise-continue-return structure; R-18.3 _net_read/_read_exactly leave the loop only at count == 0, raise EOFError on an empty read, never over-read; _net_write advances by send()'s return; the length prefix is 2 octets big-endian on both sides; only would-block is retried. Does NOT decide behaviour under every datagram sequence and stream split.",
      "DESIGN.md section 3, C18")
claim("C02", "sibling cross-check by abstract interpretation of writer and reader into wire-layout token sequences + with-context check for exact consumption + enum-vs-filesystem dispatch exhaustiveness",
      "Decides structurally: R-02.1 for each of ~70 record classes (writer and reader resolved through the MRO), the helper codecs Bitmap/Gateway, 9 SVCB parameter classes and 11 EDNS option classes, the abstract layout of the encoder equals that of the decoder: integer runs by field width (struct formats expanded), domain names, octet fields linked to the length field that counts them / fixed / rest-of-RDATA, repetitions, optional tails, switch arms on a type discriminant, helper codecs, and for EDNS options agreement of the file-writing and bytes-returning arms; a construct the engine does not understand ends ANALYSIS-ERROR; R-02.2 every call that reaches a type/option/parameter reader with a wire length is inside `with parser.restrict_to(length)`, and restrict_to/get_bytes/remaining enforce exact, bounded consumption; R-02.3 every RdataType member has a module and class of its name with all four codec methods or is in the frozen generic table. Does NOT decide value equality after decode (field semantics, swapped same-width fields) nor the decode-then-encode fixed point for arbitrary octets.",
      "DESIGN.md section 3, C02")
claim("C04", "interprocedural exception-escape analysis (call resolution with receiver-type inference, receiver-class and argument-kind context, handler-aware, ExceptionWrapper modelled, implicit-raise table with guard recognisers) + structural rules",
      "Decides: R-04.1/R-04.2 for the 5 wire and 9 text parser entry points, every (exception class, origin site) that can escape - from explicit raise statements anywhere reachable and from a frozen table of implicit raisers (subscripts, int()/float(), struct.pack/unpack, encode/decode, assert, next, index/remove, division) inside the parse zone - is classified as library family (FormError / SyntaxError), documented (TSIG outcomes, Truncated, zone-semantic ValueError/KeyError, zone checks), infeasible with a written reason (pattern table), known finding, or VIOLATION; unresolved calls inside the zone are ANALYSIS-ERRORs; R-04.3 both ExceptionWrapper sites wrap the whole per-type call with the right class and __exit__ converts everything; R-04.4 hierarchy table of 15 parse exceptions; R-04.5 Parser.get_bytes/seek bounds and exact-size unpacking; R-04.6 every while loop reachable from a parser consumes input or advances its counter on every trip; R-04.7 continue_on_error records the offset, resynchronises and Truncated is raised only on request. 21 known findings listed (unwrapped edns.option_from_wire; message.from_text raising KeyError/ValueError/Unknown*/FormError; NameTooLong and IDNAException outside the syntax family; NotImplementedError for an unknown TSIG algorithm). Does NOT decide which library error is raised for which input, AttributeError/TypeError from None-dereference (outside the implicit table), or resource exhaustion other than non-consuming loops.",
      "DESIGN.md section 3, C04")
claim("C05", "interval evaluation of struct.pack arguments against constructor validators + local implicit-raise scan of text producers + folded escape-table comparison + printer/parser pairing per field",
      "Decides structurally: R-05.1 in ~60 wire encoders every integer fed to struct.pack lies within the format width given the field's constructor validator (_as_uintN/_as_int/enum maximum/_as_bytes max_length), a mask, or a constant (14 reasoned exceptions); R-05.1t every text producer (to_styled_text of all record classes, helper to_text, the hex/base64/escape helpers) contains no operation that can raise on validated data; R-05.2 every octet the tokenizer treats specially inside quotes is escaped by dns.rdata._escapify and \\DDD uses 3 digits on both sides; R-05.3 a field printed with the octet-wise escaper is parsed octet-wise; R-05.4 generic (\\#) input for known types is re-decoded, re-encoded with the origin and compared inside the wrapper. 17 known findings listed (unbounded lengths in HIP/TKEY/TSIG/OPT, LOC altitude, URI decode, code-point parsing in CAA/HINFO/ISDN/X25/NAPTR). Does NOT decide equality after parse for all values or field-order agreement between to_styled_text and from_text.",
      "DESIGN.md section 3, C05")
claim("C09", "gate (taint) analysis of owner names by CFG reachability with the in-zone edge removed + who-may-call / must-pass-through for the CNAME hook + no-raise scan of the writer path",
      "Decides three narrow clauses: R-09.1 the generic (\\#) writing path encodes with the style's origin, the seven functions of the zone writer contain no explicit raise, every node/rdataset/record is written once and the generic mnemonics are the ones the reader accepts; R-09.2 in _rr_line and _generate_line an owner name read from the file reaches txn.add only on the in-zone side of `name.is_subdomain(self.zone_origin)` (the caller-supplied force_name is exempt), the out-of-zone arm is exactly eat-line-and-return, and nothing touches the transaction before the gate; R-09.3 every Reader registers _check_cname_and_other_data, all registered checks run before _put_rdataset, which is called only from the checked wrapper, and the CNAME/other-data predicate and node-kind classification have the documented shape. Does NOT decide the round trip itself nor the equivalence of zone-file spellings ($GENERATE expansion, inherited owner/TTL/class, parentheses).",
      "DESIGN.md section 3, C09")
# CLAIMS-END

# clauses added while strengthening the checks against seeded changes (DESIGN.md section 9.6); appended to the claim text
ADDED = {
    "C18": "Added: R-18.4 timeout/expiration parameters of the query functions and async backends are tested by identity with None, never by truthiness.",
    "C17": "Added: R-17.4 also: dropping a dict entry of LRUCache by pop/popitem (without unlinking its node) is reported per site. R-17.5 adopts C16 R-16.3 (the expiration stored with a cached answer derives from the minimum TTL over the whole CNAME chain).",
    "C14": "Added: R-14.4 also: the TSIG key is looked up, built and validated under the absolute owner name read from the wire.",
    "C01": "Added: R-01.2 the empty-label index is that of the first empty label (set only while unset, only for an empty label). R-01.4 also adopts the rollback purge rule (no compression-table entry at or beyond the truncation offset survives Renderer._rollback; shared with C03 R-03.3 and C08 R-08.2).",
    "C02": "Added: R-02.1 also compares, per domain name, whether writer and reader pass the origin (1 reasoned exception, TSIG algorithm); R-02.4 a flag packed into the top bit of an integer field (APL negation, AMTRELAY discovery-optional) is split at the same bit by the constants of both sides. R-02.5 a wire reader given an origin hands it to every callee that takes one (parser.get_name, helper and per-type from_wire_parser, from_wire).",
    "C03": "Added: R-03.4 parser header hooks (_parse_rr_header & co.) read only state the wire/text reader populates, never attributes only the user-facing constructor sets. R-03.5 (= C08 R-08.4) the OPT rebuilt for padding keeps flags, payload size and options. R-03.3 also adopts the rollback purge rule of C08 R-08.2.",
    "C04": "Added: R-04.6 a rewinding parser.seek inside a parse loop is tested against a bound that is lowered to the target on every trip (strictly decreasing measure); R-04.8 (= C05 R-05.5) the constructor validators behind every encoder-side `assert l < N` bound the value they return. R-04.7 also: reader.message is tested before it is dereferenced in from_wire's truncation arm (short header leaves it None).",
    "C05": "Added: R-05.2 also covers _escapify_unicode (\\DDD only for code points bounded below 256); R-05.5 validators _as_uintN/_as_int/_as_bytes raise unless the value THEY RETURN lies in the interval the evaluator assumes; R-05.6 every name-reading call of a text reader receives origin, relativize and relativize_to (2 reasoned absolute-name exceptions).",
    "C06": "Added: R-06.1 an operator that is not derived from fullcompare at all is a violation (not an analysis error); R-06.2 the fold is .lower() (RFC 4034 6.1). R-06.5 RFC 4471 octet stepping is monotone under the canonical fold, decided by constant propagation of the octet variable through the increment/decrement fragment for all 256 values (the length handling of successor/predecessor stays undecided).",
    "C07": "Added: R-07.7 items enter a Set's `items` only through Set.add or by copying an already-valid set; the growing operations call the overridable hooks. R-07.6 also: covers is adopted from the first signature only while the set is empty and covers is still NONE; R-07.8 immutable wrappers copy (dns.immutable.Dict no_copy only at the listed site).",
    "C08": "Added: R-08.3 the section is advanced before the tracked write of add_rrset/add_rdataset. R-08.4 also: the padded OPT is rebuilt from the original's ttl, rdclass and options, and was_padded is recorded whenever the padding branch runs.",
    "C09": "Added: R-09.1 the $TTL directive and the omission of the TTL column are decided by the same `default_ttl is not None` condition; R-09.2 the explicit owner of a line is stored in last_name before the in-zone test. R-09.1 also: the duplicate-owner flag is set only after an rdataset of the node was written; R-09.2 also: the owner is relativized against the origin of the in-zone test.",
    "C10": "Added: R-10.3 `changed` only grows (no discard/remove/clear); R-10.5 every parameter of the Version operations is used (a dropped `covers` is reported). R-10.6 Transaction._add builds the mutable copy of a committed rdataset from that rdataset alone and merges with existing.union(rdataset). R-10.7 adopts C19 R-19.1 (a B-tree zone's writable version is a copy-on-write clone of the published map: a rolled-back transaction leaves the zone untouched only if no shared node is ever written).",
    "C11": "Added: R-11.2 a fresh mutable node stored by a writable version is recorded in `changed`. R-11.5 adopts C19 R-19.1 (readers share B-tree nodes with later writable versions) and C07 R-07.8 (committed rdatasets are frozen by a copying dns.immutable.Dict).",
    "C12": "Added: R-12.3 both admission conditions (`_write_txn is None`, event identity) are direct conjuncts of the admission test.",
    "C13": "Added: R-13.3 force_unique in the wire reader starts as one_rr_per_rrset and is switched on for the rest of the section at the first SOA of an xfr message. R-13.4 optional serial/timeout parameters of dns.xfr are tested for presence by identity with None (serial 0 is valid). R-13.5 adopts C10 R-10.5 (Version operations use every component of their (name, type, covers) key, so an IXFR deletion removes exactly the addressed rdataset).",
    "C15": "Added: R-15.5 Name.to_wire(canonicalize=True) folds every label it emits, the origin's included (raw emissions sit on the not-canonicalize side; nested to_wire/to_digestable calls pass canonicalize on).",
    "C16": "Added: R-16.3 the chain cursor of resolve_chaining is the name looked up, the start of the negative-TTL SOA walk and the canonical name returned.",
    "C19": "Added: R-19.4 cursor parking protocol: every mutation parks every registered cursor, next()/prev() pass _maybe_unpark() before reading their position, a parked cursor re-seeks its remembered key, key presence is tested by identity with None. R-19.5 insert_nonfull searches the node again after splitting a full child, before any descent.",
    "C20": "Added: R-20.2 the delegation index and the node map are cloned from the same version under the same condition (a replacement writer starts with an empty index); R-20.4 bounds() skips glue names on both sides and takes no `x[-n:]` slice with an n that may be 0.",
}
for _pid, _t in ADDED.items():
    CLAIMS[_pid]["text"] = CLAIMS[_pid]["text"].rstrip() + " " + _t

# clauses added in the third seeding round (DESIGN.md 9.6)
ADDED3 = {
    "C01": "R-01.7 Name.to_styled_text reads only the name produced by choose_relativity after that call, and from_text/from_unicode append the origin iff the parsed labels do not end in the root label (decided from the labels, not the raw text).",
    "C02": "R-02.3 also: get_rdata_class stores a class under the key it looked up, and under (ANY, type) only for a class found in the ANY directory. R-02.6 optional numeric fields of record and option codecs are tested for presence by identity with None.",
    "C03": "R-03.4 also: every question is stored with force_unique, so a repeated question is not folded into the first. R-03.6 adopts C06 R-06.1 (the compression table and Message.index are keyed by names whose equality derives from the one three-way comparison); R-03.7 adopts C01 R-01.4 (table offsets are the suffix positions and fit 14 bits).",
    "C04": "R-04.6 also: token loops on a parse path leave on EOF by token kind (shared with C09 R-09.5). R-04.7 also: a section parsed by the wire reader is recorded on the message before the next one is parsed. The blanket 'IntEnum argument' triage pattern was replaced by a predicate on the call shape (`<Enum>.make(p)` with p a parameter of an API function) plus a table of trusted sites in the evidence.",
    "C05": "R-05.4 also: the generic (\\#) form of a known type is decoded with the caller's relativize / relativize_to, like the ordinary form. R-05.7 adopts C01 R-01.7 (embedded names are printed by Name.to_styled_text).",
    "C06": "R-06.6 no `x[-n:]` / `x[:-n]` slice in dns/name.py with an n that may be 0; R-06.7 names inside dns/name.py are compared with the Name operators, never through their `.labels` tuples.",
    "C09": "R-09.3 also: adding a CNAME-kind rdataset to a node drops exactly the regular ones and vice versa. R-09.4 adopts C05 R-05.2 (\\DDD written and read with three digits, accepted up to 255). R-09.5 skipping an out-of-zone line ends at EOF as well as EOL.",
    "C10": "R-10.8 adopts C09 R-09.3 node-filter (what a transaction stores at a node obeys CNAME exclusivity).",
    "C12": "R-12.6 adopts C20 R-20.2 newest-base (a B-tree zone writer starts from the newest committed version).",
    "C14": "R-14.5 every signer entry point forwards the request MAC and the multi-message context it was given to dns.tsig.sign; an unsigned intermediate message of a multi-message sequence is digested whole.",
    "C15": "R-15.4 also: the type-bitmap window length is recomputed from the current type alone, never carried over from an earlier window (no trailing zero octets).",
    "C16": "R-16.6 optional numbers of the resolver (ndots, timeouts, lifetimes, ports) are tested for presence by identity with None.",
    "C17": "R-17.6 adopts C03's TTL clamp (a TTL with the top bit set is read as 0, so a hostile TTL cannot pin a cache entry).",
    "C20": "R-20.1 also: version code reads the version's own origin, never self.zone.origin (unset while a $ORIGIN zone file is loading). R-20.2 also: a writable version clones index and map from the newest version.",
}
for _pid, _t in ADDED3.items():
    CLAIMS[_pid]["text"] = CLAIMS[_pid]["text"].rstrip() + " Round 3: " + _t

# clauses added in the fourth seeding round (DESIGN.md 9.6, 9.8)
ADDED4 = {
    "C01": "R-01.8 adopts C06 R-06.4/R-06.6 (relativize strips exactly len(origin) labels; no negative-zero slice). R-01.9 both arms of Name.to_wire bound the derelativized encoding by 255 octets.",
    "C02": "R-02.7 every local bound from a parser read in a wire reader is used afterwards (a field read and dropped decodes to the default). R-02.1 also reports a writer that transforms a field (rstrip/lower/...) before writing it.",
    "C03": "R-03.8 adopts C08 R-08.6 (the default size limit derives from request_payload, else 65535).",
    "C04": "R-04.8 also: dns.ttl.from_text refuses values above MAX_TTL on every path to its return (plain decimal and unit syntax). R-04.9 adopts C02 R-02.2 (Parser.restrict_to restores the end in a finally).",
    "C05": "R-05.8 an enum member with several bits set is not and-ed and tested by truth value. R-05.9 a field printed in chunks is the last field of the text form. R-05.10 every keyword BaseStyle.from_keywords produces is a declared style field. R-05.5 also covers dns.ttl.from_text.",
    "C06": "R-06.8 predecessor padding arithmetic: 63-octet labels while more than 64 octets are left, last label needed-1 <= 63 (constants folded from the source).",
    "C07": "R-07.2 also: a field copied from a helper object with tuple(helper.attr) requires that the helper built that attribute itself from tuple/immutable elements (Bitmap).",
    "C08": "R-08.6 max_size 0 means request_payload else 65535, clamped to [512, 65535]; the OPT reserve counts every option. R-08.7 the padding octets are reserved or bounded by the limit (open known finding).",
    "C09": "R-09.6 $INCLUDE saves the reader state before changing any of it and restores the same fields in the same order. R-09.7 adopts C05 R-05.6 (names inside records are relativized to the zone origin below $ORIGIN).",
    "C10": "R-10.9 the optional rdataset of delete() is tested by identity; calls that pass <x>.rdtype also pass <x>.covers. R-10.10 adopts C07 R-07.7. R-10.11 the SOA-at-origin test accepts both spellings of the origin.",
    "C11": "R-11.4 also: closing a reader and a commit run the pruner on every path. R-11.6 adopts C10 R-10.2/R-10.5 (changed holds validated keys, copy-on-write records fresh nodes).",
    "C12": "R-12.7 a writer() result bound to a local reaches its `with` on every path (no raise/return in between). R-12.8 adopts C10 R-10.4 (__exit__ commits or rolls back for every exception class).",
    "C13": "R-13.6 adopts C19 R-19.1 (a rejected transfer leaves a B-tree zone untouched) and C03 R-03.4 (find_rrset keys by covered type).",
    "C14": "R-14.6 every transport hands the query's .mac (or its own request_mac parameter) to the response parser; a keyed transfer is refused unless its last message had a TSIG; the multi-message context is chained through the receive loop.",
    "C15": "R-15.6 in dns/dnssec.py no local is tested both `is None` and by truth value (the empty name is falsy).",
    "C17": "R-17.1 also: calls to other locked public methods count as separate critical sections. R-17.2 also: the periodic sweep compares expirations with the current time. R-17.4 also: a store to max_size is followed by eviction down to the new limit, under the lock.",
    "C18": "R-18.5 the relative timeout handed to a blocking call inside a loop is computed on every trip.",
    "C19": "R-19.6 next()/prev() record their direction before every element read. R-19.7 a clone takes t, root and size from the original. R-19.8 the empty-root collapse follows the descent on every path.",
    "C20": "R-20.5 adopts C19 R-19.1 (the delegation index is a copy-on-write B-tree shared between versions).",
}
for _pid, _t in ADDED4.items():
    CLAIMS[_pid]["text"] = CLAIMS[_pid]["text"].rstrip() + " Round 4: " + _t

# clauses added in the fifth seeding round
ADDED5 = {
    "C01": "R-01.10 both text readers zero the escape digit counter and value in the branch that enters the escaping state.",
    "C02": "R-02.8 adopts C01 R-01.3 (embedded names decode by the name codec's own bounds).",
    "C03": "R-03.9 adopts C02 R-02.7 (no field read from the wire is dropped on the way to the constructor).",
    "C04": "R-04.10 adopts C05 R-05.11 (fields printed through an enum's to_text are bounded to that enum's range by the constructor).",
    "C05": "R-05.9 also: the reader of a class whose last field is printed in chunks joins the remaining tokens. R-05.11 enum-text bound.",
    "C06": "R-06.1 also: a comparison of the three-way result with anything but 0 is a violation. R-06.9 no `is`/`is not` comparison with the Name constants root/empty in dns/name.py.",
    "C07": "R-07.8 also: dns.immutable.Dict keeps (does not copy) its argument only on the true side of a conjunction containing no_copy.",
    "C08": "R-08.8 use_tsig sizes the placeholder MAC by the algorithm it puts into the TSIG template; make_response passes query.payload as request_payload.",
    "C09": "R-09.8 calls that pass <x>.rdtype also pass <x>.covers (zone, version, node, transaction, zone reader). R-09.9 Tokenizer.get skips whitespace before every restart of the scan after a consumed delimiter (except the opening quote).",
    "C12": "R-12.9 adopts C19 R-19.1.",
    "C13": "R-13.5 also adopts C10 R-10.9 (key triple); R-13.7 adopts C12 R-12.3 (writer admission).",
    "C14": "R-14.7 a TSIG RR whose TTL is not 0 is refused before validation, because _digest packs a constant 0 for it.",
    "C16": "R-16.7 adopts C18 R-18.6.",
    "C17": "R-17.7 Answer.expiration is time.time() + chaining_result.minimum_ttl.",
    "C18": "R-18.6 in the asyncio backend asyncio.wait_for is called only inside _maybe_wait_for, which translates asyncio.TimeoutError into dns.exception.Timeout.",
    "C19": "R-19.8 also: the collapse sits in a finally around the descent (the descent can raise after merging). R-19.9 seek/seek_first/seek_last assign the same state fields; a cursor created in a generator is a `with` item.",
}
for _pid, _t in ADDED5.items():
    CLAIMS[_pid]["text"] = CLAIMS[_pid]["text"].rstrip() + " Round 5: " + _t

# clauses added in the sixth seeding round
ADDED6 = {
    "C01": "R-01.5 also: any exit of _escapify that bypasses the per-octet loop is guarded by a module-level `[class]+` bytes regex whose class (evaluated from the pattern) contains no reader-special or non-printable octet. R-01.11 Tokenizer.get_name/as_name never unescape the token before dns.name.from_text.",
    "C02": "R-02.9 adopts C05 R-05.5 (validators accept exactly the legal interval, e.g. 255-octet fields).",
    "C03": "R-03.7 also adopts C01 R-01.3; R-03.10 optional numbers of the renderer/message API (id) are tested by identity with None.",
    "C04": "R-04.11 wire readers decode text strictly (no lenient error handler). The isdigit()/isdecimal() guard recogniser accepts isdigit() only for bytes subjects (for str it also admits non-decimal digits that int() refuses). R-04.5 get_uint48 assembles 48 bits from exactly 6 octets (text form or `(h << 32) | l` over '!HI').",
    "C05": "R-05.7 also adopts C01 R-01.5; R-05.12 NSEC3.from_text pads base32 text to a multiple of 8 characters.",
    "C08": "R-08.8 also: the zero-reserve arm of _compute_tsig_reserve and the TSIG-writing arm of to_wire test the same attribute.",
    "C09": "R-09.3 also: the exclusivity tables are CNAME-kind = {CNAME}, neutral = {NSEC, NSEC3, KEY} (folded from dns/node.py). R-09.10 every branch of Reader._parse_modify applies the empty-group defaults its siblings apply; _wordbreak slices range(0, len(data), chunksize).",
    "C10": "R-10.8 also adopts the table clause of C09 R-09.3. R-10.12 delete_exact's 'missing rdatas' refusal is a subset test. R-10.13 a copy-on-write `fresh.rdatasets.extend(old.rdatasets)` does not read from (an alias of) the fresh node.",
    "C11": "R-11.7 adopts C12 R-12.1 (pruning and reader registration under the version lock).",
    "C13": "R-13.8 neither _inbound_xfr twin demands a TSIG on every message inside the receive loop. R-13.9 adopts C09 R-09.3 (node filter and tables).",
    "C14": "R-14.8 runs the Parser read rule of C04 R-04.5 (exact-width reads, 48-bit time).",
    "C15": "R-15.7 adopts C07 R-07.3 and R-07.7 (equal records hash equally; merges go through Rdataset.add).",
    "C16": "R-16.7 also adopts C18 R-18.4 (timeouts tested by identity with None). R-16.8 runs the LRU dict/ring pairing rule of C17 R-17.4.",
    "C17": "R-17.4 dict/ring pairing now covers every LRUCache method. R-17.5 also adopts C16 R-16.4 (cache keys read = cache keys written).",
    "C19": "R-19.10 None-marked locals/parameters of dns/btree.py are tested by identity only.",
    "C20": "R-20.6 put_rdataset re-derives the delegation state after a store that evicted the NS rdataset.",
}
for _pid, _t in ADDED6.items():
    CLAIMS[_pid]["text"] = CLAIMS[_pid]["text"].rstrip() + " Round 6: " + _t

# clauses added in the seventh seeding round
ADDED7 = {
    "C01": "R-01.12 runs the Parser rule of C04 R-04.5: every wire Parser is built over the whole buffer (never a slice) and positioned through the bounded seek().",
    "C02": "R-02.10 runs the ExceptionWrapper rule of C04 R-04.3 (the per-type reader is wholly inside the FormError wrapper, which converts every foreign exception). R-02.11 the range refusals of LOC.from_wire_parser, evaluated by the checker at MIN-1, MIN, MAX, MAX+1 over the folded constants, accept exactly [MIN, MAX].",
    "C03": "R-03.11 only the reasoned table of record writers hands the compression table to an embedded name.",
    "C04": "R-04.5 also: Parser.__init__ seeks; parsers are not built over slices. R-04.12 `.decode()` of raw option octets in an option's to_text is guarded by all(...); dns.grange.from_text returns a step >= 1.",
    "C05": "R-05.1 also decides the two Bitmap width exceptions from Bitmap.__init__'s refusals (windows <= 255). R-05.13 LOC's optional tail is printed under a disjunction of one `!= default` test per printed field.",
    "C06": "R-06.10 NameDict's private store starts empty and is written only through __setitem__ (max_depth bookkeeping).",
    "C07": "R-07.9 no method of dns.set.Set rebinds self.",
    "C08": "R-08.8 also: use_edns stores request_payload unconditionally. R-08.9 adopts C14 R-14.3 (mac_sizes agrees with the digests).",
    "C09": "R-09.4 also adopts C05 R-05.1t (text production cannot fail).",
    "C10": "R-10.4 also: _end calls _end_transaction on every path.",
    "C11": "R-11.5 also adopts C19 R-19.2; R-11.6 also C10 R-10.4.",
    "C12": "R-12.8 also adopts C10 R-10.5.",
    "C13": "R-13.7 also adopts C20 R-20.2 (newest base).",
    "C14": "R-14.5 also: make_response binds every response to a signed query to query.mac (not conditional on tsig_error). R-14.9 add_tsig/add_multi_tsig name the signing key's own algorithm in the TSIG record.",
    "C15": "R-15.8 every return of Name.canonicalize is Name([x.lower() for x in self.labels]).",
    "C16": "R-16.7 also adopts C18 R-18.1, R-18.2 and R-18.5.",
    "C18": "R-18.7 async socket calls get a relative timeout. R-18.8 opcode.from_flags inverts to_flags for all sixteen opcodes under any other flag bits (evaluated); async functions have their sync twins' parameter defaults.",
    "C19": "R-19.6 also: next() and prev() clear the same fields before moving.",
    "C20": "R-20.5 also adopts C19 R-19.6.",
}
for _pid, _t in ADDED7.items():
    CLAIMS[_pid]["text"] = CLAIMS[_pid]["text"].rstrip() + " Round 7: " + _t

# clauses added in the eighth seeding round
ADDED8 = {
    "C01": "R-01.13 is_all_ascii's refusing test, evaluated at 0x7E, 0x7F, 0x80, is False, False, True.",
    "C02": "R-02.12 adopts C15 R-15.1 (plain encoding keeps the case of embedded names). R-02.13 MandatoryParam sorts the validated key numbers.",
    "C03": "R-03.8 also adopts C08 R-08.2; R-03.11 no longer lists TKEY (repaired: uncompressed); R-03.12 adopts C07 R-07.3.",
    "C04": "R-04.10 also adopts C05 R-05.1t.",
    "C05": "R-05.9 also: _wordbreak slices range(0, len(data), chunksize).",
    "C08": "R-08.10 dns.tsig.sign changes only time_signed and mac of the template.",
    "C09": "R-09.7 also adopts C05 R-05.4. R-09.11 the TTL refusal of Transaction._rdataset_from_args, evaluated at MAX_TTL and MAX_TTL + 1, is False and True.",
    "C10": "R-10.14 the out-of-zone refusal of dns.zone._validate_name is not nested under a test of relativize.",
    "C12": "R-12.9 also adopts C07 R-07.8.",
    "C14": "R-14.10 want_tsig_sign is written only by Message.__init__ and use_tsig().",
    "C15": "R-15.7 also adopts C06 R-06.2.",
    "C16": "R-16.9 BadResponse, BadEDNS, BadTSIG, TrailingJunk and ShortHeader derive from dns.exception.FormError.",
    "C17": "R-17.5 also adopts C16 R-16.1; R-17.6 also C07 R-07.6.",
    "C18": "R-18.9 both _inbound_xfr twins clamp the per-message deadline to the earlier of (message deadline, lifetime).",
    "C19": "R-19.11 the result of every try_*_steal call decides control flow; BTree.__copy__ always returns self.__class__(original=self).",
}
for _pid, _t in ADDED8.items():
    CLAIMS[_pid]["text"] = CLAIMS[_pid]["text"].rstrip() + " Round 8: " + _t

# clauses added in the ninth seeding round
ADDED9 = {
    "C01": "R-01.12 also: the generator context managers of the wire parser (restrict_to, restore_furthest) restore the state they changed in a `finally` that covers the yield. R-01.14 every decode() of the IDNA codec family returns _escapify(...), super().decode(...) or ''.",
    "C02": "R-02.14 contradiction rule over dns/rdtypes: no guard re-tests a clause that an earlier `if a or b: raise` of the same block excludes. R-02.9 also adopts C05 R-05.15.",
    "C03": "R-03.13 adopts C02 R-02.3, C18 R-18.8 and C07 R-07.11.",
    "C04": "R-04.5 also: parser context managers restore state in a finally. R-04.10 also adopts C05 R-05.1.",
    "C05": "R-05.14 runs the rule function of C09 R-09.1 (to_generic receives style.origin unconditionally). R-05.15 in LOC.py int() never truncates a product or quotient with a non-integer operand.",
    "C06": "R-06.11 a return of fullcompare not dominated by the label scan is a mixed-relativity return (NONE, 0 common labels). R-06.12 runs the rule function of C15 R-15.5.",
    "C07": "R-07.10 the `self is other` shortcuts of dns.set.Set obey the idempotence laws (table). R-07.11 Rdataset.__eq__ refuses on every field Rdataset.match() takes, then compares members; RRset.__eq__ adds the owner name.",
    "C08": "R-08.11 Renderer.reserve / release_reserved executed by the checker over 1000 two-step histories: refusal exactly when the total exceeds the limit; release restores it.",
    "C09": "R-09.7 also adopts C05 R-05.13.",
    "C10": "R-10.15 in dns.transaction.Transaction a value read from the store is never edited in place.",
    "C11": "R-11.8 the data primitives of dns.zone.Transaction use self.version, never self.zone / self.manager. R-11.6 also adopts C10 R-10.15.",
    "C12": "R-12.10 runs the rule function of C13 R-13.2 (Inbound.__exit__ rolls back whatever is open).",
    "C13": "R-13.5 also adopts C10 R-10.15.",
    "C14": "R-14.11 adopts C18 R-18.2.",
    "C15": "R-15.9 NSEC bitmaps at delegation points hold NS and DS only (type filter evaluated; delegation status passed at both call sites; repaired). R-15.10 no to_wire/_to_wire/to_digestable rebinds `origin`. R-15.11 a parameter from which a loop fills a fresh local collection (its normalised copy) is not read after that loop (dns.dnssec).",
    "C16": "R-16.10 `qname + suffix` over the search list is in a try that handles NameTooLong (repaired). R-16.7 also adopts C18 R-18.11.",
    "C18": "R-18.10 adopts C07 R-07.11. R-18.11 every SOCK_STREAM make_socket of dns.asyncquery passes a timeout.",
    "C19": "R-19.12 every `current_node = current_node.children[...]` is inside a while loop. R-19.13 every BTree/BTreeDict/BTreeSet mutator reaches _check_mutable_and_park() on every path to a normal return.",
    "C20": "R-20.7 adopts C06 R-06.11; R-20.5 also adopts C19 R-19.9.",
}
for _pid, _t in ADDED9.items():
    CLAIMS[_pid]["text"] = CLAIMS[_pid]["text"].rstrip() + " Round 9: " + _t

# clauses added in the tenth (half) seeding round
ADDED10 = {
    "C01": "R-01.15 every numeric `if ...: raise LabelTooLong` of dns/name.py evaluates to (False, True) at lengths 63, 64. R-01.16 runs the rule function of C05 R-05.6 (origin, relativize, relativize_to reach every name-reading call).",
    "C02": "R-02.15 runs check_parser_reads (C04 R-04.5). R-02.16 a local named like a parameter of the called codec method is passed positionally only at that parameter's position.",
    "C05": "R-05.16 runs the rule function of C02 R-02.3 (get_rdata_class memoises under the key it looked up).",
    "C07": "R-07.12 every copying form of ImmutableRdataset returns ImmutableRdataset(...). Assumption stated: initialisers are not re-run on live objects.",
    "C13": "R-13.6 also adopts C14 R-14.5.",
    "C15": "R-15.12 an `if <parameter> is None:` block that assigns the parameter holds no bare call statement and no loop (dns.dnssec).",
    "C18": "R-18.12 a local named like a parameter of the called transport function is passed positionally only at that parameter's position. R-18.13 after `_compute_times(timeout)` a transport function is handed `_timeout(expiration)`, not the original timeout.",
    "C19": "R-19.14 _Node defines neither __len__ nor __bool__ (copy-on-write results are tested by truth value). R-19.13 also: Cursor.__exit__ never returns a true value.",
    "C20": "R-20.8 adopts C10 R-10.5.",
}
for _pid, _t in ADDED10.items():
    CLAIMS[_pid]["text"] = CLAIMS[_pid]["text"].rstrip() + " Round 10: " + _t

# clauses added in the short eleventh seeding round
ADDED11 = {
    "C17": "R-17.4 also: every statement of LRUCache.put that reads the answer parameter reaches the normal exit only through `link_after(self.sentinel)` (a put is a use: the refreshed entry is the last to be evicted).",
}
for _pid, _t in ADDED11.items():
    CLAIMS[_pid]["text"] = CLAIMS[_pid]["text"].rstrip() + " Round 11: " + _t

NA_REASON = {}
def na(pid, reason):
    NA_REASON[pid] = reason

checks = []
for p in props:
    pid = p["id"]
    if pid in CLAIMS:
        c = CLAIMS[pid]
        checks.append({
            "property_id": pid,
            "quick_cmd": f"/venv/bin/python vcheck.py {pid} --tier quick",
            "thorough_cmd": f"/venv/bin/python vcheck.py {pid} --tier thorough",
            "evidence_file": f"/verif/evidence/{pid}.json",
            "replay_cmd_template": f"/venv/bin/python vcheck.py {pid} --replay {{path}}",
            "engine": "vcheck",
            "level_claimed": {"category": "other", "text": c["text"], "design_ref": c["design_ref"]},
            "level_note": NOTE,
            "technique": "static analysis: " + c["technique"],
        })
m = {
    "version": 1,
    "setup_cmd": "true",
    "hooks": {"guard": "RTHALLEY_DNSPYTHON_VERIF",
              "enable": "no hooks: the checks parse /repo/dns with ast on every run and never import or execute it",
              "baseline_off_cmd": "cd /repo && /venv/bin/python -m pytest -q -p no:cacheprovider --timeout=900 --continue-on-collection-errors",
              "source_commits": [], "add_only": True},
    "engines": [{"name": "vcheck", "path": "/verif/vcheck.py", "serves_properties": sorted(CLAIMS),
                 "kind_free_text": "repository-specific static analyser (stdlib ast; own program model, CFG with exceptional edges and dominance, call resolution, escape/effect analyses, layout and twin projections, source patterns with metavariables over a normal form, a small expression evaluator for constant propagation over finite domains); thorough tier adds a witness self-test on scratch copies (edits that must fire, refactor twins that must stay silent)"}],
    "checks": checks,
    "notes": "Static analysis only (see DESIGN.md). Exit 0 pass / 1 VIOLATION / 2 ANALYSIS-ERROR (checker blind: anchor vanished, unknown shape, instance floor). Known findings: /verif/known_findings.json.",
    "not_applicable": [{"property_id": p["id"], "reason": NA_REASON.get(p["id"], "check not built yet (work in progress); DESIGN.md section 3 lists the planned structural rules")}
                       for p in props if p["id"] not in CLAIMS],
}
json.dump(m, open(os.path.join(HERE, "MANIFEST.json"), "w"), indent=1)
print("claimed", sorted(CLAIMS), "n/a", len(m["not_applicable"]))
