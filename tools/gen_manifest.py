#!/usr/bin/env python3
"""Regenerates /verif/MANIFEST.json from the table below (one entry per property)."""
import json, os
HERE = os.path.dirname(os.path.dirname(os.path.abspath(__file__)))
props = [json.loads(l) for l in open(os.path.join(HERE, "properties.jsonl"))]

NOTE = ("Trusted base: CPython's ast parser; the frozen rule tables in /verif/rules (each exception names one construct with a reason); "
        "call/receiver resolution is by annotations, constructor calls and unique method names, and a rule that cannot resolve an anchor "
        "ends ANALYSIS-ERROR (exit 2), never pass. User callbacks and the Python runtime (threading.Lock, dict, bytes comparison) are outside the analysed program.")

CLAIMS = {}
def claim(pid, technique, text, design_ref):
    CLAIMS[pid] = dict(technique=technique, text=text, design_ref=design_ref)

# CLAIMS-BEGIN
claim("C17", "guarded-by lock analysis + CFG edge-dominance + path enumeration over dns/resolver.py cache classes",
      "Decides structurally (for every access/path in the source): R-17.1 every access to data/statistics/next_cleaning/sentinel and every call of a lock-free helper sits in the single `with self.lock` block of its public method (one mutex + one critical section per operation => every concurrent history is equivalent to the lock-acquisition order); R-17.2 a cached entry is returned only on the not-expired side of an `expiration <= now` test on that same entry with the clock read under the lock; R-17.3 exactly one of hits/misses per path through get(), hits iff a value is returned; R-17.4 the LRU insert is dominated by the exit of `while len(data) >= max_size`, the victim is the ring end opposite to link_after(sentinel), dict and ring updates are paired, hits move to the front. Does NOT decide: conformance of whole get/put/flush histories (ring arithmetic over sequences), or that shrinking max_size evicts immediately.",
      "DESIGN.md section 3, C17")
claim("C12", "guarded-by analysis over the whole package + *_unlocked call-site convention + no-blocking-under-lock closure + CFG (post)dominance on writer()/_end_write_unlocked",
      "Decides the lock-discipline preconditions of writer serialisation in dns/versioned.py: R-12.1 the six admission/retention fields are touched only under _version_lock, in *_unlocked methods or in __init__ (4 reasoned owner-only exceptions) and *_unlocked methods are called only with the lock held; R-12.2 nothing blocking (Event.wait, sleep, deferred _setup_version) runs under the lock, transitively; R-12.3 the write slot is taken only under `_write_txn is None and event == _write_event`, every write end clears it and reaches the wake-up, waiters use append/popleft only, the waiter waits on its own event outside the lock; R-12.4 commit publishes and ends the write in one lock hold; R-12.5 every exceptional exit of writer() after admission ends the write. Does NOT decide FIFO admission, absence of lost wake-ups or deadlock over all interleavings, nor serial equivalence: that is a schedule-space argument and these rules are only its preconditions.",
      "DESIGN.md section 3, C12")
claim("C10", "typestate by CFG dominance with self-call summaries + sanitiser-before-sink taint (reaching definitions) + node-ownership analysis + exit-shape rules",
      "Decides structurally: R-10.1 every public Transaction method (all subclasses) passes _check_ended() before any low-level hook and _check_read_only() before any mutating hook, and put/delete hooks are reached only through the _checked_* wrappers; R-10.2 every key used with self.nodes/changed/delegations in Version, WritableVersion and the btreezone subclass is the result of _validate_name/_maybe_cow_with_name or comes from the map itself (reaching definitions; raw parameters are tainted); R-10.3 node mutators run only on nodes obtained by copy-on-write / fresh / already-in-changed, zone.nodes is replaced only at commit, the writable version copies the map; R-10.4 __exit__ commits iff no exception else rolls back and never swallows, _end sets _ended on every exit, _end_transaction ends exactly once and publishes only on commit; R-10.5 base and btreezone put/delete/delete_node/_maybe_cow_with_name keep the same obligations. Does NOT decide conformance of operation sequences to a reference model (TTL merge, singleton rules, serial arithmetic) or atomicity at arbitrary abort points beyond these exits.",
      "DESIGN.md section 3, C10")
claim("C11", "write-set (mutation effect) analysis resolved per immutable subclass + frozen-container capability table + CFG shape rules",
      "Decides structurally: R-11.1 the complete mutator surface (every method with a non-empty transitive write set) of ImmutableRdataset, the three immutable node classes and the two ImmutableVersion classes is either overridden by an always-raising body or blocked by construction (the mutated field is rebound in __init__ to dns.immutable.Dict/tuple, which lack the operation, and the class is @immutable so rebinding raises); dns.immutable.Dict and _Immutable.__setattr__/__delattr__ have the required shape; R-11.2 both ImmutableVersion constructors wrap every changed node and freeze the map (and delegations), and every version a versioned zone publishes - including version 1 - is the immutable factory's result; R-11.3 Transaction.get/get_node and versioned.Zone.find/get_rdataset return frozen views, legacy zone mutators raise or hit the frozen map; R-11.4 _versions changes only by append/popleft, pruning is bounded by `id < least_kept` with least_kept = min reader id else newest id, ids are last+1, readers register/unregister under the lock. Does NOT decide snapshot isolation over interleaved histories (follows informally from R-10.3 + R-11.1/2) nor what a user-supplied pruning policy allows.",
      "DESIGN.md section 3, C11")
claim("C19", "ownership typestate: fixpoint of owner-requiring methods/parameters + reaching-definition provenance of every node receiver + freeze-protocol shape rules",
      "Decides structurally for dns/btree.py: R-19.1 every in-place write to _Node.elts/children and every call of a (transitively) node-mutating method has an OWNED receiver/argument - self of a mutating method, the result of maybe_cow_child/_get_node/clone/constructor, or self.root after the root copy-on-write idiom - while values read from X.children[...] are shared (1 reasoned exception: the re-fetch after balance in delete); summaries of maybe_cow/maybe_cow_child/clone/split/_get_node are verified; R-19.2 every BTree method that changes the tree is dominated by _check_mutable_and_park(), which raises when frozen, freezing is one-way, cloning requires a frozen original, each tree has a fresh creator token; R-19.3 BTreeDict/BTreeSet touch the tree only through BTree's public operations. Does NOT decide sorted-map conformance, occupancy bounds, leaf depth or cursor behaviour over operation sequences.",
      "DESIGN.md section 3, C19")
claim("C20", "enum-exhaustive flag re-derivation check + block-level pairing of flag/index/subtree updates + key provenance (shared with C10) + predicate shape rules",
      "Decides structurally for dns/btreezone.py: R-20.1 at every site of WritableVersion that replaces a node by a fresh one, every NodeFlags member is copied or re-derived under the right predicate (ORIGIN/_is_origin, GLUE/is_glue, DELEGATION/membership in the index); R-20.2 delegations.add/discard, the DELEGATION flag and update_glue_flag of the subtree always change together, delete_node mirrors delete_rdataset, update_glue_flag walks exactly the proper subdomains and sets/clears GLUE on the right side; R-20.3 map and index are B-tree containers, keys are validated, get_delegation/is_glue have the documented shape. Known finding (listed, not fixed): nested cuts are load-order dependent. Does NOT decide bounds() results or equality of incremental and recomputed state over histories.",
      "DESIGN.md section 3, C20")
claim("C13", "commit-last typestate on the CFG of Inbound.process_message and of every driver (boolean result propagated through loop tests) + guard-dominance rules",
      "Decides structurally: R-13.1 no raise/assert is reachable after self.txn.commit() in process_message, the commit happens only when done, and in every function that drives an Inbound no raise is reachable after a process_message call that returned True (2 known findings listed: the late 'missing TSIG' check in both _inbound_xfr twins); R-13.2 __exit__ rolls back an open transaction, the AXFR-style fallback rolls back before opening the replacement writer, IXFR deletions use delete_exact under delete_mode, serial regression uses dns.serial.Serial, the `done`/in-zone/rcode guards dominate every zone mutation, the final-SOA conditions are intact; R-13.3 both _inbound_xfr twins run inside `with Inbound(...)`, parse with xfr/one_rr_per_rrset(IXFR)/multi/tsig_ctx/origin and thread the TSIG context, inbound_xfr maps UseTCP to a TCP retry. Does NOT decide convergence to the server's version for all streams and message splits.",
      "DESIGN.md section 3, C13")
claim("C06", "operator-table check over rich comparisons + single-normaliser dataflow + mirrored-arm and guard shape rules on fullcompare/relativize",
      "Decides the comparison structure (names are touched only through comparisons, a finite structure): R-06.1 each Name rich comparison returns fullcompare(other)[1] <op> 0 with the operator its name says, foreign operands give NotImplemented/False/True; R-06.2 fullcompare folds both labels with the same normaliser, __hash__ folds every octet with it, canonicalize/to_wire/to_digestable use it; R-06.3 the </> arms of fullcompare are mirrored, relative sorts before absolute, the scan is right-to-left over min(len) labels, the tie-break and relation come from len(self)-len(other), is_subdomain/is_superdomain accept exactly {SUB|SUPER}DOMAIN and EQUAL; R-06.4 relativize strips exactly len(origin) labels under is_subdomain(origin), derelativize appends only to relative names. Totality/transitivity/hash coherence follow from these plus bytes comparison (trusted). Does NOT decide RFC 4471 successor/predecessor correctness (octet arithmetic; the known failure for a label of 63 'Z' octets is out of static reach).",
      "DESIGN.md section 3, C06")
claim("C07", "decorator census + provenance classification of constructor field stores (reaching definitions) + operator table + aliasing-guard dominance + write-before-raise analysis",
      "Decides structurally: R-07.1 Name, every Rdata subclass and helper value classes are @immutable and the guard is bypassed only at 5 reasoned constructor-like sites; R-07.2 every field stored by an immutable class's __init__ has an immutable kind (validator result, tuple/float/int/str/bytes, enum, constify/Dict, constant), never a bare parameter (6 reasoned exceptions); R-07.3 Rdata.__eq__/__hash__ derive from the same to_digestable image, ordering dunders follow the operator table over _cmp, _cmp is a mirrored three-way comparison; R-07.4 Set methods that mutate while iterating the other operand are guarded by `self is other` or iterate a copy, and the aliasing arms do the right thing; R-07.5 in Rdataset.add no refusal is reachable after the first write; R-07.6 singleton clear and TTL minimisation are wired on add/union/intersection/update. Does NOT decide the algebraic set laws over operation sequences.",
      "DESIGN.md section 3, C07")
claim("C14", "ordered-effect projection of _digest per flag valuation against the RFC 8945 table + dominance rules on validate + table agreement",
      "Decides structurally: R-14.1 for each valuation of (first, request MAC present) the flattened, typed sequence of ctx.update inputs of dns.tsig._digest equals RFC 8945 4.3 (request MAC with length prefix, original id | wire[2:], key name/class/TTL, algorithm, 48-bit time, fudge, error, other) and the multi-message continuation starts with the length-prefixed prior MAC - an oracle independent of the implementation, unlike the symmetric sign/verify tests; R-14.2 validate digests header[0:10] | ARCOUNT-1 | body up to the TSIG, the error/time-window/key-name/algorithm checks precede the MAC check and always raise, every normal return is dominated by ctx.verify(rdata.mac), HMAC verify is compare_digest over the (truncated) digest; R-14.3 _hashes and mac_sizes agree per algorithm name; R-14.4 a misplaced TSIG raises BadTSIG (a FormError) and Message.to_wire signs the wire produced after write_header(). Does NOT compute MAC values; rejection of every bit flip follows from HMAC (trusted).",
      "DESIGN.md section 3, C14")
claim("C15", "per-type dataflow of canonicalize/compress parameters into embedded-name encoders vs the RFC 4034 6.2 / RFC 6840 5.1 table + ordered composition checks",
      "Decides structurally: R-15.1 for every concrete record class the canonicalize parameter of _to_wire (through super() chains and helper codecs) reaches each embedded Name.to_wire iff the type is in the RFC list (9 known findings listed: CH/A lower-cases; MD MF MB MG MR MINFO NXT A6 are unimplemented hence never lower-cased); R-15.2 to_digestable reaches _to_wire with no compression table and no codec manufactures one; R-15.3 the RRSIG signing input, DS digest input, NSEC3 hash and ZONEMD digest are composed in the RFC order from canonical owner/RDATA, sorted; R-15.4 the NSEC walk iterates sorted names, skips names beneath the current delegation, wraps to the origin and builds bitmaps from node types + RRSIG + NSEC. Does NOT compute numeric results (key tags, digests, bitmap octets).",
      "DESIGN.md section 3, C15")
# CLAIMS-END

NA_REASON = {}
def na(pid, reason):
    NA_REASON[pid] = reason

checks = []
for p in props:
    pid = p["id"]
    if pid in CLAIMS:
        c = CLAIMS[pid]
        checks.append({
            "property_id": pid,
            "quick_cmd": f"/venv/bin/python vcheck.py {pid} --tier quick",
            "thorough_cmd": f"/venv/bin/python vcheck.py {pid} --tier thorough",
            "evidence_file": f"/verif/evidence/{pid}.json",
            "replay_cmd_template": f"/venv/bin/python vcheck.py {pid} --replay {{path}}",
            "engine": "vcheck",
            "level_claimed": {"category": "other", "text": c["text"], "design_ref": c["design_ref"]},
            "level_note": NOTE,
            "technique": "static analysis: " + c["technique"],
        })
m = {
    "version": 1,
    "setup_cmd": "true",
    "hooks": {"guard": "RTHALLEY_DNSPYTHON_VERIF",
              "enable": "no hooks: the checks parse /repo/dns with ast on every run and never import or execute it",
              "baseline_off_cmd": "cd /repo && /venv/bin/python -m pytest -q -p no:cacheprovider --timeout=900 --continue-on-collection-errors",
              "source_commits": [], "add_only": True},
    "engines": [{"name": "vcheck", "path": "/verif/vcheck.py", "serves_properties": sorted(CLAIMS),
                 "kind_free_text": "repository-specific static analyser (stdlib ast; own program model, CFG with exceptional edges and dominance, call resolution, escape/effect analyses, layout and twin projections); thorough tier adds a witness self-test on scratch copies (edits that must fire, refactor twins that must stay silent)"}],
    "checks": checks,
    "notes": "Static analysis only (see DESIGN.md). Exit 0 pass / 1 VIOLATION / 2 ANALYSIS-ERROR (checker blind: anchor vanished, unknown shape, instance floor). Known findings: /verif/known_findings.json.",
    "not_applicable": [{"property_id": p["id"], "reason": NA_REASON.get(p["id"], "check not built yet (work in progress); DESIGN.md section 3 lists the planned structural rules")}
                       for p in props if p["id"] not in CLAIMS],
}
json.dump(m, open(os.path.join(HERE, "MANIFEST.json"), "w"), indent=1)
print("claimed", sorted(CLAIMS), "n/a", len(m["not_applicable"]))
