#!/usr/bin/env python3
"""Confirm a seeded defect produced by a sub-agent and record which checks catch it.

usage: seedcheck.py <agent-worktree> <N> <seed-id> <property> [--no-suite]

Steps (all on a scratch worktree of /repo under /tmp, removed afterwards):
  1. demo on the clean tree must PASS (exit 0)
  2. apply seedN.diff; demo must FAIL (exit != 0)
  3. the full baseline suite must still pass with the change
  4. run every property check with --repo <scratch> and list those that report a VIOLATION not present on the clean tree
Writes /verif/seeded/<seed-id>/{patch.diff, demo.py, notes.md, meta.json}.
"""
import json
import os
import re
import shutil
import subprocess
import sys
import time

VERIF = os.path.dirname(os.path.dirname(os.path.abspath(__file__)))
PY = "/venv/bin/python"
SUITE = [PY, "-m", "pytest", "-q", "-p", "no:cacheprovider", "--timeout=900", "-n", "6",
         "--deselect", "tests/test_name.py::NameTestCase::testFromUnicodeIDNA2008", "--deselect", "tests/test_name.py::NameTestCase::testToUnicode5"]
PROPS = [f"C{i:02d}" for i in range(1, 21)]


def sh(cmd, cwd=None, timeout=1800, env=None):
    p = subprocess.run(cmd, cwd=cwd, stdout=subprocess.PIPE, stderr=subprocess.STDOUT, text=True, timeout=timeout, env=env)
    return p.returncode, p.stdout


def checks(repo):
    out = {}
    for p in PROPS:
        rc, txt = sh([PY, os.path.join(VERIF, "vcheck.py"), p, "--repo", repo, "--no-evidence"], cwd=VERIF)
        viol = [ln.strip() for ln in txt.splitlines() if ln.startswith("  violated")]
        blind = [ln.strip() for ln in txt.splitlines() if ln.startswith("ANALYSIS-ERROR")]
        out[p] = {"rc": rc, "violations": viol, "blind": blind}
    return out


def main():
    wt, n, sid, prop = sys.argv[1], sys.argv[2], sys.argv[3], sys.argv[4]
    no_suite = "--no-suite" in sys.argv
    diff = os.path.join(wt, f"seed{n}.diff")
    demo = os.path.join(wt, f"seed{n}_demo.py")
    notes = os.path.join(wt, f"seed{n}.md")
    for f in (diff, demo):
        if not os.path.exists(f):
            print("missing", f)
            return 2
    scratch = f"/tmp/vs-{sid}"
    subprocess.run(["git", "-C", "/repo", "worktree", "remove", "--force", scratch], stdout=subprocess.DEVNULL, stderr=subprocess.DEVNULL)
    rc, o = sh(["git", "-C", "/repo", "worktree", "add", "-q", "--detach", scratch, "HEAD"])
    if rc:
        print(o)
        return 2
    meta = {"id": sid, "property": prop, "source_worktree": wt, "ran": []}
    try:
        shutil.copy(demo, os.path.join(scratch, "seed_demo.py"))
        env = dict(os.environ, PYTHONPATH=scratch)
        rc_clean, o1 = sh([PY, "seed_demo.py"], cwd=scratch, timeout=600, env=env)
        meta["demo_on_clean"] = {"rc": rc_clean, "tail": o1[-300:]}
        meta["ran"].append("demo on clean scratch worktree")
        rc, o = sh(["git", "-C", scratch, "apply", diff])
        if rc:
            print("patch does not apply:", o)
            meta["applies"] = False
            return 3
        meta["applies"] = True
        rc_bad, o2 = sh([PY, "seed_demo.py"], cwd=scratch, timeout=600, env=env)
        meta["demo_on_seeded"] = {"rc": rc_bad, "tail": o2[-400:]}
        meta["ran"].append("demo on seeded scratch worktree")
        if not no_suite:
            t0 = time.time()
            rc_s, o3 = sh(SUITE, cwd=scratch, timeout=3000, env=env)
            tail = o3.strip().splitlines()[-1] if o3.strip() else ""
            meta["suite_with_seed"] = {"rc": rc_s, "summary": tail, "wall_s": round(time.time() - t0)}
            meta["ran"].append("full baseline suite on seeded scratch worktree: " + " ".join(SUITE[1:]))
        res = checks(scratch)
        base = json.load(open(os.path.join(VERIF, "seeded", "_clean_baseline.json"))) if os.path.exists(os.path.join(VERIF, "seeded", "_clean_baseline.json")) else {}
        caught = {}
        for p, r in res.items():
            newv = [v for v in r["violations"] if v not in set(base.get(p, {}).get("violations", []))]
            newb = [v for v in r["blind"] if v not in set(base.get(p, {}).get("blind", []))]
            if newv or newb:
                caught[p] = {"new_violations": newv[:6], "new_analysis_errors": newb[:4]}
        meta["checks_reporting"] = caught
        meta["caught_by_own_property_check"] = prop in caught and bool(caught[prop]["new_violations"])
        meta["ran"].append("all 20 checks: vcheck.py <Cnn> --repo <scratch> --no-evidence (quick tier)")
        ok = rc_clean == 0 and rc_bad != 0 and (no_suite or meta["suite_with_seed"]["rc"] == 0)
        meta["confirmed"] = bool(ok)
        d = os.path.join(VERIF, "seeded", sid)
        os.makedirs(d, exist_ok=True)
        shutil.copy(diff, os.path.join(d, "patch.diff"))
        shutil.copy(demo, os.path.join(d, "demo.py"))
        if os.path.exists(notes):
            shutil.copy(notes, os.path.join(d, "notes.md"))
            meta["needs_to_manifest"] = open(notes).read()[:1500]
        json.dump(meta, open(os.path.join(d, "meta.json"), "w"), indent=1)
        print(json.dumps({k: meta[k] for k in ("id", "confirmed", "demo_on_clean", "demo_on_seeded", "suite_with_seed", "checks_reporting") if k in meta}, indent=1)[:3000])
        return 0
    finally:
        subprocess.run(["git", "-C", "/repo", "worktree", "remove", "--force", scratch], stdout=subprocess.DEVNULL, stderr=subprocess.DEVNULL)
        shutil.rmtree(scratch, ignore_errors=True)


if __name__ == "__main__":
    if len(sys.argv) >= 2 and sys.argv[1] == "--baseline":
        os.makedirs(os.path.join(VERIF, "seeded"), exist_ok=True)
        json.dump(checks("/repo"), open(os.path.join(VERIF, "seeded", "_clean_baseline.json"), "w"), indent=1)
        print("baseline written")
        sys.exit(0)
    sys.exit(main())
