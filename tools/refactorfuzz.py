#!/usr/bin/env python3
"""Behaviour-preserving statement-level refactor fuzz (false-alarm hunt, companion of renamefuzz.py).

For every function a property's rules anchor in, apply ONE of these rewrites to ONE node at a time on a scratch copy of /repo/dns
(the module is re-emitted with ast.unparse, so formatting, comments, quoting and parenthesisation change as well), then re-run
the property's rules; any new violated/blind obligation is a false alarm:

  swap-arms   if C: A else: B           ->  if not C: B else: A          (and `if not C` -> `if C`)
  flip-cmp    a < b                     ->  b > a                        (single-operator comparisons, all six ordering/equality ops)
  aug         x += e                    ->  x = x + e                    (and back)
  insert      an unrelated statement (alternately a dead store `_vf_trace = None` and a logging call) inserted before one statement of the
              function (every position, all nesting levels)
  reformat    nothing but the re-emission through ast.unparse (once per file)

usage: refactorfuzz.py [Cnn ...] [-j N] [--kinds swap-arms,flip-cmp,aug,reformat]
Writes /tmp/refactorfuzz.json; prints one line per false alarm.
"""
import ast
import copy
import importlib
import json
import os
import shutil
import sys
import tempfile
from concurrent.futures import ProcessPoolExecutor

HERE = os.path.dirname(os.path.dirname(os.path.abspath(__file__)))
sys.path.insert(0, HERE)
from engine.selftest import _violations  # noqa: E402
from tools.renamefuzz import anchors  # noqa: E402

FLIP = {ast.Lt: ast.Gt, ast.Gt: ast.Lt, ast.LtE: ast.GtE, ast.GtE: ast.LtE, ast.Eq: ast.Eq, ast.NotEq: ast.NotEq}


def candidates(fn):
    """(kind, index among nodes of that kind in walk order)"""
    out = []
    k = {"swap-arms": 0, "flip-cmp": 0, "aug": 0}
    npos = sum(len(b) for b in _stmt_lists(fn))
    out += [("insert", i) for i in range(npos)]
    for n in ast.walk(fn):
        if isinstance(n, ast.If) and n.orelse and not (len(n.orelse) == 1 and isinstance(n.orelse[0], ast.If)):
            out.append(("swap-arms", k["swap-arms"]))
            k["swap-arms"] += 1
        elif isinstance(n, ast.Compare) and len(n.ops) == 1 and type(n.ops[0]) in FLIP:
            out.append(("flip-cmp", k["flip-cmp"]))
            k["flip-cmp"] += 1
        elif isinstance(n, ast.AugAssign) and isinstance(n.target, (ast.Name, ast.Attribute)):
            out.append(("aug", k["aug"]))
            k["aug"] += 1
    return out


class _Rewrite(ast.NodeTransformer):
    def __init__(self, kind, index):
        self.kind, self.index, self.seen, self.done = kind, index, {"swap-arms": 0, "flip-cmp": 0, "aug": 0}, False


def _stmt_lists(fn):
    out = []
    for n in ast.walk(fn):
        for fld in ("body", "orelse", "finalbody"):
            b = getattr(n, fld, None)
            if isinstance(b, list) and b and isinstance(b[0], ast.stmt):
                out.append(b)
        if isinstance(n, ast.Try):
            for h in n.handlers:
                out.append(h.body)
    return out


def rewrite(fn, kind, index):
    """mutate fn in place; walk order must equal candidates()"""
    if kind == "insert":
        k = 0
        for b in _stmt_lists(fn):
            if index < k + len(b):
                pos = index - k
                if pos == 0 and isinstance(b[0], ast.Expr) and isinstance(b[0].value, ast.Constant) and isinstance(b[0].value.value, str):
                    pos = 1  # never before a docstring
                if index % 2 == 0:
                    new = ast.Assign(targets=[ast.Name(id="_vf_trace", ctx=ast.Store())], value=ast.Constant(value=None))
                else:
                    new = ast.parse("logging.getLogger(__name__).debug('trace %s', 1)").body[0]
                b.insert(pos, new)
                return True
            k += len(b)
        return False
    k = 0
    for n in ast.walk(fn):
        if kind == "swap-arms" and isinstance(n, ast.If) and n.orelse and not (len(n.orelse) == 1 and isinstance(n.orelse[0], ast.If)):
            if k == index:
                t = n.test
                n.test = t.operand if isinstance(t, ast.UnaryOp) and isinstance(t.op, ast.Not) else ast.UnaryOp(op=ast.Not(), operand=t)
                n.body, n.orelse = n.orelse, n.body
                return True
            k += 1
        elif kind == "flip-cmp" and isinstance(n, ast.Compare) and len(n.ops) == 1 and type(n.ops[0]) in FLIP:
            if k == index:
                n.left, n.comparators = n.comparators[0], [n.left]
                n.ops = [FLIP[type(n.ops[0])]()]
                return True
            k += 1
        elif kind == "aug" and isinstance(n, ast.AugAssign) and isinstance(n.target, (ast.Name, ast.Attribute)):
            if k == index:
                tgt_load = copy.deepcopy(n.target)
                tgt_load.ctx = ast.Load()
                new = ast.Assign(targets=[n.target], value=ast.BinOp(left=tgt_load, op=n.op, right=n.value), lineno=n.lineno, col_offset=n.col_offset)
                n.__class__ = ast.Assign
                n.__dict__.clear()
                n.__dict__.update(new.__dict__)
                return True
            k += 1
    return False


def one(args):
    prop, repo, file, qual, lineno, kind, index, base_v, base_b = args
    mod = importlib.import_module(f"rules.{prop.lower()}")
    d = tempfile.mkdtemp(prefix="vrf-")
    try:
        shutil.copytree(os.path.join(repo, "dns"), os.path.join(d, "dns"), ignore=shutil.ignore_patterns("__pycache__"))
        p = os.path.join(d, file)
        tree = ast.parse(open(p).read())
        if kind != "reformat":
            fn = next((n for n in ast.walk(tree) if isinstance(n, (ast.FunctionDef, ast.AsyncFunctionDef)) and n.lineno == lineno), None)
            if fn is None or not rewrite(fn, kind, index):
                return (prop, qual, kind, index, "skip", "")
        ast.fix_missing_locations(tree)
        try:
            text = ast.unparse(tree)
            ast.parse(text)
        except Exception as e:
            return (prop, qual, kind, index, "skip", f"unparse failed: {e}")
        open(p, "w").write(text + "\n")
        try:
            v, b = _violations(mod, d, prop)
        except Exception as e:
            return (prop, qual, kind, index, "crash", f"{type(e).__name__}: {e}")
        if v is None:
            return (prop, qual, kind, index, "alarm", sorted(b)[:3])
        newv, newb = v - set(base_v), b - set(base_b)
        if newv or newb:
            return (prop, qual, kind, index, "alarm", sorted(newv | newb)[:3])
        return (prop, qual, kind, index, "ok", "")
    finally:
        shutil.rmtree(d, ignore_errors=True)


def main():
    args = sys.argv[1:]
    jobs_n, repo, kinds, props = 12, "/repo", {"swap-arms", "flip-cmp", "aug", "reformat"}, []  # "insert" only on request (many variants)
    i = 0
    while i < len(args):
        if args[i] == "-j":
            jobs_n = int(args[i + 1]); i += 2
        elif args[i] == "--kinds":
            kinds = set(args[i + 1].split(",")); i += 2
        else:
            props.append(args[i]); i += 1
    props = props or [f"C{i:02d}" for i in range(1, 21)]
    jobs = []
    for prop in props:
        mod, funcs, base_v, base_b = anchors(prop, repo)
        n = 0
        files = set()
        for q, f in sorted(funcs.items()):
            files.add(f.file)
            for (kind, index) in candidates(f.node):
                if kind in kinds:
                    jobs.append((prop, repo, f.file, q, f.node.lineno, kind, index, sorted(base_v), sorted(base_b)))
                    n += 1
        if "reformat" in kinds:
            for fl in sorted(files):
                jobs.append((prop, repo, fl, fl, 0, "reformat", 0, sorted(base_v), sorted(base_b)))
                n += 1
        print(f"{prop}: {len(funcs)} anchor functions, {n} rewrites", flush=True)
    with ProcessPoolExecutor(max_workers=jobs_n) as ex:
        res = list(ex.map(one, jobs, chunksize=4))
    alarms = [r for r in res if r[4] in ("alarm", "crash")]
    for r in alarms:
        print("FALSE-ALARM", r[0], r[1], f"{r[2]}#{r[3]}", "->", str(r[5])[:260])
    summary = {}
    for r in res:
        s = summary.setdefault(r[0], {})
        s.setdefault(r[2], {"ok": 0, "alarm": 0, "skip": 0, "crash": 0})[r[4]] += 1
    json.dump({"summary": summary, "alarms": alarms}, open("/tmp/refactorfuzz.json", "w"), indent=1)
    print(json.dumps(summary))
    return 1 if alarms else 0


if __name__ == "__main__":
    sys.exit(main())
