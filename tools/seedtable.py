#!/usr/bin/env python3
"""Print the DESIGN.md 9.6 tables (per-round summary, per-seed row) from seeded/*/meta.json and seeded/_history.json."""
import json
import os
import re
import sys

VERIF = os.path.dirname(os.path.dirname(os.path.abspath(__file__)))


def main():
    sdir = os.path.join(VERIF, "seeded")
    hist = json.load(open(os.path.join(sdir, "_history.json")))
    ids = sorted(x for x in os.listdir(sdir) if os.path.isdir(os.path.join(sdir, x)))
    rounds = {}
    rows = []
    for sid in ids:
        m = json.load(open(os.path.join(sdir, sid, "meta.json")))
        h = hist[sid]
        prop = m["property"]
        patch = open(os.path.join(sdir, sid, "patch.diff")).read()
        files = sorted({f[len("dns/"):] for f in re.findall(r"^\+\+\+ b/(\S+)", patch, re.M)})
        fin = m.get("final_checks_reporting", {})
        own_final = bool(fin.get(prop, {}).get("new_violations"))
        any_final = any(v.get("new_violations") for v in fin.values())
        r = rounds.setdefault(h["round"], {"n": 0, "own": 0, "other": [], "none": 0, "final_own": 0, "final_any": 0})
        r["n"] += 1
        if h["own_check_caught_before_strengthening"]:
            r["own"] += 1
            before = "own check"
        elif h.get("caught_by_other_check_before_strengthening"):
            r["other"].append(sid)
            before = "other: " + h["caught_by_other_check_before_strengthening"]
        else:
            r["none"] += 1
            before = "**missed**"
        r["final_own"] += own_final
        r["final_any"] += any_final
        rules = sorted({v.split()[1] for p in fin for v in fin[p]["new_violations"]})
        ownrules = sorted({v.split()[1] for v in fin.get(prop, {}).get("new_violations", [])})
        final = " ".join(ownrules) if ownrules else ("**not reported**" if not rules else "only " + " ".join(rules))
        extra = [x for x in rules if x not in ownrules]
        if ownrules and extra:
            final += " (+ " + " ".join(extra) + ")"
        rows.append(f"| {sid} | {', '.join(files)} | {before} | {final} |")
    import io, contextlib
    buf = io.StringIO()
    with contextlib.redirect_stdout(buf):
        _emit(rounds, rows)
    out = buf.getvalue()
    print(out)
    if "--splice" in sys.argv:
        summary, table = out.strip().split("\n\n")
        dp = os.path.join(VERIF, "DESIGN.md")
        d = open(dp).read()
        for tag, text in (("summary", summary), ("rows", table)):
            a, b = f"<!-- seedtable:{tag} -->", f"<!-- /seedtable:{tag} -->"
            i, j = d.index(a) + len(a), d.index(b)
            d = d[:i] + "\n" + text + "\n" + d[j:]
        open(dp, "w").write(d)


def _emit(rounds, rows):
    print("| | changes | own check reported at once | only another property's check | nothing reported | own check reports now | any check reports now |")
    print("|---|---|---|---|---|---|---|")
    for k in sorted(rounds):
        r = rounds[k]
        print(f"| round {k} | {r['n']} | {r['own']} | {len(r['other'])} ({', '.join(r['other'])}) | {r['none']} | {r['final_own']} | {r['final_any']} |")
    print()
    print("| seed | changed file | before strengthening | own check reports now (other checks) |")
    print("|---|---|---|---|")
    print("\n".join(rows))


if __name__ == "__main__":
    sys.exit(main())
