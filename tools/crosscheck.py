#!/usr/bin/env python3
"""Apply every witness edit of every rule module to a scratch copy and run ALL checks on it; list reports made by checks
other than the witness's own property (to review them for cross-property false alarms)."""
import importlib, json, os, shutil, subprocess, sys, tempfile
from concurrent.futures import ProcessPoolExecutor
HERE = os.path.dirname(os.path.dirname(os.path.abspath(__file__)))
sys.path.insert(0, HERE)
PY = "/venv/bin/python"
PROPS = [f"C{i:02d}" for i in range(1, 21)]

def one(args):
    prop, w = args
    d = tempfile.mkdtemp(prefix="vx-")
    try:
        shutil.copytree("/repo/dns", os.path.join(d, "dns"), ignore=shutil.ignore_patterns("__pycache__"))
        edits = w.get("edits") or [w]
        for e in edits:
            p = os.path.join(d, e["file"]); s = open(p).read()
            if s.count(e["old"]) != e.get("count", 1): return (prop, w["id"], "stale", {})
            open(p, "w").write(s.replace(e["old"], e["new"]))
        out = {}
        for q in PROPS:
            r = subprocess.run([PY, os.path.join(HERE, "vcheck.py"), q, "--repo", d, "--no-evidence"], cwd=HERE, stdout=subprocess.PIPE, stderr=subprocess.STDOUT, text=True)
            v = [l.strip()[:220] for l in r.stdout.splitlines() if l.startswith("  violated") or l.startswith("ANALYSIS-ERROR")]
            if v: out[q] = v
        return (prop, w["id"], w["expect"], out)
    finally:
        shutil.rmtree(d, ignore_errors=True)

jobs = []
for p in PROPS:
    m = importlib.import_module(f"rules.{p.lower()}")
    for w in getattr(m, "WITNESSES", []):
        jobs.append((p, w))
with ProcessPoolExecutor(max_workers=int(sys.argv[1]) if len(sys.argv) > 1 else 6) as ex:
    res = list(ex.map(one, jobs))
rows = []
for prop, wid, exp, out in res:
    others = {q: v for q, v in out.items() if q != prop}
    rows.append({"witness": wid, "property": prop, "expect": exp, "own": out.get(prop, [])[:2], "others": others})
json.dump(rows, open("/tmp/crosscheck.json", "w"), indent=1)
for r in rows:
    if r["others"]:
        print(r["witness"], r["expect"], "->", {q: v[:2] for q, v in r["others"].items()})
print(len(rows), "witnesses")
