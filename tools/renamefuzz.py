#!/usr/bin/env python3
"""Behaviour-preserving refactor fuzz for the rule modules (false-alarm hunt).

For every function a property's rules anchor in (the constructs / file:line of its obligations on the clean tree) and for
every local variable of that function, rename the variable consistently inside the function on a scratch copy of /repo/dns
and re-run the property's rules: a consistent rename leaves behaviour unchanged, so ANY new violated/blind obligation is a
false alarm of a rule that matches a frozen source fragment.

usage: renamefuzz.py [Cnn ...] [-j N] [--repo DIR] [--only qualname-substring,...]      (default: all properties)
Writes /tmp/renamefuzz.json and prints one line per false alarm.  Nothing is kept under /tmp that a registered command needs.
"""
import ast
import importlib
import json
import os
import re
import shutil
import sys
import tempfile
from concurrent.futures import ProcessPoolExecutor

HERE = os.path.dirname(os.path.dirname(os.path.abspath(__file__)))
sys.path.insert(0, HERE)
from engine.model import Model, AnalysisError  # noqa: E402
from engine.report import Report  # noqa: E402
from engine.selftest import _violations  # noqa: E402


def locals_of(fn: ast.AST):
    """Names bound by assignment / for / with / comprehension inside fn (not parameters, not global/nonlocal, not except-as / import)."""
    bound, banned = set(), set()
    for n in ast.walk(fn):
        if isinstance(n, ast.Name) and isinstance(n.ctx, ast.Store):
            bound.add(n.id)
        elif isinstance(n, (ast.Global, ast.Nonlocal)):
            banned |= set(n.names)
        elif isinstance(n, ast.ExceptHandler) and n.name:
            banned.add(n.name)
        elif isinstance(n, ast.alias):
            banned.add((n.asname or n.name).split(".")[0])
        elif isinstance(n, (ast.FunctionDef, ast.AsyncFunctionDef, ast.ClassDef)) and n is not fn:
            banned.add(n.name)
        elif isinstance(n, ast.arg):
            banned.add(n.arg)
        elif isinstance(n, ast.MatchAs) and n.name:
            banned.add(n.name)
        elif isinstance(n, ast.keyword) and n.arg:
            pass
    return sorted(bound - banned)


def rename_in(source: str, fn: ast.AST, var: str, new: str) -> str:
    lines = source.split("\n")
    sites = [(n.lineno, n.col_offset, n.end_col_offset) for n in ast.walk(fn) if isinstance(n, ast.Name) and n.id == var and n.lineno == n.end_lineno]
    for (ln, c0, c1) in sorted(set(sites), reverse=True):
        raw = lines[ln - 1].encode("utf8")
        lines[ln - 1] = (raw[:c0] + new.encode() + raw[c1:]).decode("utf8")
    return "\n".join(lines)


def anchors(prop, repo):
    mod = importlib.import_module(f"rules.{prop.lower()}")
    model = Model(repo)
    rep = Report(prop, "thorough")
    mod.run(model, rep, "quick")
    funcs = {}
    byfile = {}
    for f in model.all_functions():
        byfile.setdefault(f.file, []).append(f)
    for o in rep.obls:
        f = model.functions.get(o.construct)
        if f is not None:
            funcs[f.qualname] = f
        m = re.match(r"(dns/[\w/]+\.py):(\d+)", o.where or "")
        if m:
            ln = int(m.group(2))
            best = None
            for g in byfile.get(m.group(1), []):
                if g.node.lineno <= ln <= (g.node.end_lineno or g.node.lineno):
                    if best is None or g.node.lineno > best.node.lineno:
                        best = g
            if best is not None:
                funcs[best.qualname] = best
    base_v = {o.key() for o in rep.obls if o.status == "violated"}
    base_b = {o.key() for o in rep.obls if o.status == "blind"}
    return mod, funcs, base_v, base_b


def one(args):
    prop, repo, file, qual, lineno, var, base_v, base_b = args
    mod = importlib.import_module(f"rules.{prop.lower()}")
    d = tempfile.mkdtemp(prefix="vrn-")
    try:
        shutil.copytree(os.path.join(repo, "dns"), os.path.join(d, "dns"), ignore=shutil.ignore_patterns("__pycache__"))
        p = os.path.join(d, file)
        s = open(p).read()
        tree = ast.parse(s)
        fn = next((n for n in ast.walk(tree) if isinstance(n, (ast.FunctionDef, ast.AsyncFunctionDef)) and n.lineno == lineno), None)
        if fn is None:
            return (prop, qual, var, "skip", "function not found")
        new = var + "_rn" if not var.startswith("_") else var + "rn"
        if any(isinstance(n, ast.Name) and n.id == new for n in ast.walk(tree)):
            new = var + "_rn2"
        s2 = rename_in(s, fn, var, new)
        try:
            ast.parse(s2)
        except SyntaxError as e:
            return (prop, qual, var, "skip", f"rename does not parse: {e}")
        open(p, "w").write(s2)
        try:
            v, b = _violations(mod, d, prop)
        except Exception as e:  # a crash of the checker on a benign edit is a defect of the checker too
            return (prop, qual, var, "crash", f"{type(e).__name__}: {e}")
        if v is None:
            return (prop, qual, var, "alarm", sorted(b)[:3])
        newv, newb = v - set(base_v), b - set(base_b)
        if newv or newb:
            return (prop, qual, var, "alarm", sorted(newv | newb)[:3])
        return (prop, qual, var, "ok", "")
    finally:
        shutil.rmtree(d, ignore_errors=True)


def main():
    args = [a for a in sys.argv[1:]]
    jobs_n = 12
    repo = "/repo"
    only = None
    props = []
    i = 0
    while i < len(args):
        if args[i] == "-j":
            jobs_n = int(args[i + 1]); i += 2
        elif args[i] == "--repo":
            repo = args[i + 1]; i += 2
        elif args[i] == "--only":
            only = args[i + 1].split(","); i += 2
        else:
            props.append(args[i]); i += 1
    props = props or [f"C{i:02d}" for i in range(1, 21)]
    jobs = []
    for prop in props:
        mod, funcs, base_v, base_b = anchors(prop, repo)
        n = 0
        for q, f in sorted(funcs.items()):
            if only and not any(o in q for o in only):
                continue
            for var in locals_of(f.node):
                jobs.append((prop, repo, f.file, q, f.node.lineno, var, sorted(base_v), sorted(base_b)))
                n += 1
        print(f"{prop}: {len(funcs)} anchor functions, {n} local-variable renames", flush=True)
    with ProcessPoolExecutor(max_workers=jobs_n) as ex:
        res = list(ex.map(one, jobs, chunksize=4))
    alarms = [r for r in res if r[3] in ("alarm", "crash")]
    for r in alarms:
        print("FALSE-ALARM", r[0], r[1], f"rename `{r[2]}`", "->", str(r[4])[:300])
    summary = {}
    for r in res:
        s = summary.setdefault(r[0], {"ok": 0, "alarm": 0, "skip": 0, "crash": 0})
        s[r[3]] += 1
    json.dump({"summary": summary, "alarms": alarms}, open("/tmp/renamefuzz.json", "w"), indent=1)
    print(json.dumps(summary))
    return 1 if alarms else 0


if __name__ == "__main__":
    sys.exit(main())
