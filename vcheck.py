#!/venv/bin/python
"""vcheck.py <Cnn> [--tier quick|thorough] [--replay <path>] [--repo <dir>]

Static checks of dnspython properties C01..C20.  Parses <repo>/dns with ast on every run
(nothing is imported or executed).  Exit 0 pass / 1 VIOLATION / 2 ANALYSIS-ERROR.
"""
from __future__ import annotations

import argparse
import importlib
import json
import os
import sys
import traceback

HERE = os.path.dirname(os.path.abspath(__file__))
sys.path.insert(0, HERE)

from engine.model import Model, AnalysisError  # noqa: E402
from engine.report import Report  # noqa: E402


def run_property(prop: str, tier: str, repo: str, write_evidence: bool = True, quiet: bool = False):
    """Returns (rc, report)."""
    rep = Report(prop, tier)
    try:
        mod = importlib.import_module(f"rules.{prop.lower()}")
    except ModuleNotFoundError:
        print(f"ANALYSIS-ERROR property={prop}: no rule module (check not built)")
        return 2, rep
    model = Model(repo)
    rep.meta["model"] = model.stats()
    rep.meta["normalisation"] = {"normal_form": "engine/normal.py N1-N4 applied to every module and every pattern",
                                 "roles": getattr(model, "role_stats", {})}
    rep.rule_titles = dict(getattr(mod, "RULES", {}))
    mod.run(model, rep, tier)
    return rep, model, mod


def main(argv=None) -> int:
    ap = argparse.ArgumentParser()
    ap.add_argument("prop")
    ap.add_argument("--tier", default=os.environ.get("VERIF_TIER", "quick"), choices=["quick", "thorough"])
    ap.add_argument("--replay")
    ap.add_argument("--repo", default=os.environ.get("VERIF_REPO", "/repo"))
    ap.add_argument("--no-evidence", action="store_true")
    args = ap.parse_args(argv)
    prop = args.prop.upper()
    try:
        res = run_property(prop, args.tier, args.repo)
        if isinstance(res[0], int):
            return res[0]
        rep, model, mod = res
        if args.tier == "thorough":
            from engine import selftest

            selftest.run(prop, mod, rep, args.repo)
        if args.replay:
            with open(args.replay) as f:
                want = json.load(f)
            key = f"{want['rule']}|{want['construct']}|{want.get('stmt', '')}"
            hits = [o for o in rep.obls if o.key() == key]
            print(f"replay {key}:")
            for o in hits:
                print(f"  now: {o.status} at {o.where}: {o.detail}")
            if not hits:
                print("  obligation no longer exists in the current tree")
        if args.no_evidence:
            rep._write_evidence = lambda *a, **k: None  # type: ignore
        return rep.finish()
    except AnalysisError as e:
        print(f"ANALYSIS-ERROR property={prop}: {e}")
        return 2
    except Exception:
        traceback.print_exc()
        print(f"ANALYSIS-ERROR property={prop}: internal error in the checker (see traceback)")
        return 2


if __name__ == "__main__":
    sys.exit(main())
