"""C01 name codecs and length limits: validation gate, 63/255 limits, pointer monotonicity, compression table bounds,
escape table agreement (reader-special subset of writer-escaped), \\DDD range."""
from __future__ import annotations

import ast

from engine.cfg import CFG, normalise_compare, atoms, int_bound_gt, int_bound_lt, A
from engine.model import src, stmt_key, dotted, AnalysisError, walk_no_nested
from engine import pat
from engine.util import own_nodes, calls_with_nodes, where

RULES = {
    "R-01.16": "names inside records are read for the relativity the caller chose: every text reader passes origin, relativize and relativize_to to each name-reading call (the rule function of C05 R-05.6, run here directly because C05 adopts C01 rules) - otherwise `$ORIGIN`-relative text silently denotes another name",
    "R-01.15": "one label limit everywhere: every `if <length test>: raise LabelTooLong` of dns/name.py (the validator of every constructor, and the pure-ASCII shortcut of the IDNA 2008 encoder), evaluated by the checker at lengths 63 and 64, is (False, True) - a 63-octet label is legal on every route into a name",
    "R-01.14": "Unicode text is escaped like ASCII text: every decode() of the IDNA codec family returns _escapify(<label text>), the result of super().decode(), or the empty string - a label that contains '.' or '\\\\' printed unescaped by to_unicode() parses back as different labels",
    "R-01.1": "Name.labels is written only by __init__ and __setstate__, and every path from that store to a normal exit passes _validate_labels(self.labels); no Name is made by __new__/copy that skips the gate",
    "R-01.2": "_validate_labels raises LabelTooLong exactly for len(label) >= 64 and NameTooLong exactly for sum(len+1) >= 256",
    "R-01.3": "wire decoding: every seek target is strictly below every earlier pointer and the name's start; literal labels are < 64 octets; other label types raise; the loop consumes input on every iteration",
    "R-01.4": "compression table: offsets stored are <= 0x3FFF and taken before the label is written, keyed by the same suffix that is looked up; the root is never inserted; pointers are 0xC000 + stored offset",
    "R-01.13": "ASCII ends at 0x7F: is_all_ascii - which decides whether name text goes down the IDNA path - says 'not ASCII' exactly for code points above 0x7F (its refusing test, evaluated by the checker at 0x7E, 0x7F and 0x80, is False, False, True); DEL in a label is plain ASCII text",
    "R-01.12": "compressed names are decoded in the message they sit in: every wire Parser is built over the whole buffer and positioned through the bounded seek() (rule of C04 R-04.5, run here directly)",
    "R-01.11": "a name token is unescaped exactly once: Tokenizer.get_name / as_name hand the raw token text to dns.name.from_text (which runs the escape state machine) and never call Token.unescape() first - unescaping twice turns `\\.` into a label separator and `\\@` into the origin",
    "R-01.10": "the text escape state machine (from_text and from_unicode alike) starts every escape from a clean state: the branch that enters the escaping state zeroes the digit counter and the accumulated value there, not at label boundaries - otherwise a second escape in one label is misread or refused",
    "R-01.9": "Name.to_wire derelativizes in two arms (bytes returned, file written); each arm that appends the origin's labels bounds the result by 255 octets: the file arm builds Name(labels) (validated), the bytes arm raises NameTooLong when len(out) > 255",
    "R-01.8": "relativization and derelativization against an origin keep every other label: Name.relativize strips exactly len(origin) labels (C06 R-06.4 relativize/choose and R-06.6 negative-zero slices adopted) - the text round trip under an origin rests on it",
    "R-01.7": "text emission and parsing decide relativity on the right object: Name.to_styled_text reads only the name produced by choose_relativity (never `self` again), and from_text / from_unicode decide whether to append the origin from the parsed labels (a trailing empty label), not from the raw text",
    "R-01.5": "every octet some reader gives meaning to is escaped by the writer (reader-special is a subset of writer-escaped); \\DDD is written and read with exactly 3 digits",
    "R-01.6": "a \\DDD escape above 255 is rejected with BadEscape",
}
NAME = "dns.name.Name"


def _folded_bytes(model, mi, name):
    v = mi.assigns.get(name)
    if v is None:
        raise AnalysisError(f"{mi.name}.{name} not found")
    return model.const(mi, v)


def run(model, rep, tier):
    nm = model.module("dns.name")
    name_cls = model.cls(NAME)
    # ---------------------------------------------------------------- R-01.1
    writers = []
    for f in model.all_functions():
        for n in ast.walk(f.node):
            if isinstance(n, ast.Attribute) and n.attr == "labels" and isinstance(n.ctx, (ast.Store, ast.Del)):
                recv = src(n.value)
                if recv == "self" and f.cls is not None and model.is_subclass(f.cls, name_cls):
                    writers.append((f, n, "store"))
                elif recv == "self":
                    continue  # another class's own field called `labels` (RRSIG label count)
                else:
                    rep.bad("R-01.1", f.qualname, where(f, n), f"`{src(n)} = ...` writes the labels of an object from outside the Name constructor", stmt=src(n))
            if isinstance(n, ast.Call) and isinstance(n.func, ast.Attribute) and n.func.attr == "__setattr__" and any(isinstance(a, ast.Constant) and a.value == "labels" for a in n.args):
                writers.append((f, n, "setattr"))
    rep.floor("R-01.1-writers", len(writers), 2)
    for (f, n, kind) in writers:
        okk = f.qualname in (f"{NAME}.__init__", f"{NAME}.__setstate__")
        rep.check(okk, "R-01.1", f.qualname, where(f, n), "labels written by a constructor-like method", "Name.labels is written outside __init__/__setstate__", stmt=f"write labels ({kind})")
        if okk:
            cfg = CFG(f.node, implicit_exc=False)
            nd = None
            for c in cfg.stmts():
                if any(x is n for x in own_nodes(c.ast)) or c.ast is n:
                    nd = c
            gate = [c.id for (c, call) in calls_with_nodes(cfg) if src(call.func) == "_validate_labels" and [src(a) for a in call.args] == ["self.labels"]]
            rep.check(nd is not None and bool(gate) and cfg.postdominated_by_set(nd.id, gate), "R-01.1", f.qualname, where(f, n), "the store is always followed by _validate_labels(self.labels)",
                      "a path from the labels store to the normal exit skips _validate_labels: over-long labels/names can exist", stmt="gate-postdominates")
    byp = 0
    for f in model.functions_in("dns.name"):
        for c in ast.walk(f.node):
            if isinstance(c, ast.Call) and isinstance(c.func, ast.Attribute) and c.func.attr == "__new__":
                byp += 1
                rep.bad("R-01.1", f.qualname, where(f, c), "a Name is allocated with __new__, bypassing the validating constructor", stmt="__new__")
    n_ctor = sum(1 for f in model.functions_in("dns.name") for c in ast.walk(f.node) if isinstance(c, ast.Call) and src(c.func) == "Name")
    rep.floor("R-01.1-constructions", n_ctor, 15)
    rep.ok("R-01.1", "dns.name", "dns/name.py", f"{n_ctor} constructions through Name(...), 0 through __new__", stmt="no-bypass")

    # ---------------------------------------------------------------- R-01.2
    vl = model.func("dns.name._validate_labels")
    cfg = CFG(vl.node, implicit_exc=False)
    ev = pat.Env()
    pat.has(vl.node, "__ll = len(__label)\n__total += __ll + 1", ev)
    LL, TOTAL, LABEL = ev.get("__ll", "?ll"), ev.get("__total", "?total"), ev.get("__label", "?label")
    for exc, var, least, what in (("LabelTooLong", LL, 64, "label length"), ("NameTooLong", TOTAL, 256, "encoded length")):
        rs = [n for n in cfg.nodes if isinstance(n.ast, ast.Raise) and exc in src(n.ast)]
        found = False
        for t in cfg.nodes:
            if t.kind != "test" or not isinstance(t.ast, ast.If):
                continue
            at = atoms(normalise_compare(t.ast.test))
            if len(at) == 1 and int_bound_gt(at[0]) and int_bound_gt(at[0])[0] == var:
                found = True
                b = int_bound_gt(at[0])[1]
                okk = len(rs) == 1 and cfg.edge_dominated(rs[0].id, {(t.id, "t")}) and b == least
                rep.check(okk, "R-01.2", vl.qualname, where(vl, t.ast), f"{exc} raised exactly when {what} >= {least}",
                          f"{exc} is raised for {what} >= {b} (must be >= {least}): {'over-long values are accepted' if b > least else 'legal values are refused'}", stmt=exc)
        if not found:
            rep.bad("R-01.2", vl.qualname, where(vl, vl.node), f"no `{var} > limit` test guards {exc}", stmt=exc)
    defs = {}
    for n in ast.walk(vl.node):
        if isinstance(n, ast.Assign) and isinstance(n.targets[0], ast.Name):
            defs.setdefault(n.targets[0].id, []).append(src(n.value))
        if isinstance(n, ast.AugAssign) and isinstance(n.target, ast.Name):
            defs.setdefault(n.target.id, []).append(f"{type(n.op).__name__}= {src(n.value)}")
    rep.check(defs.get(LL) == [f"len({LABEL})"] and defs.get(TOTAL) == ["0", f"Add= {LL} + 1"], "R-01.2", vl.qualname, where(vl, vl.node), "ll = len(label); total accumulates len(label) + 1 per label",
              f"accounting changed: ll={defs.get(LL)} total={defs.get(TOTAL)}", stmt="accounting")
    fl = [n for n in ast.walk(vl.node) if isinstance(n, ast.For)]
    rep.check(len(fl) == 1 and src(fl[0].iter) in ("labels", "enumerate(labels)"), "R-01.2", vl.qualname, where(vl, vl.node), "every label is visited", "not every label is visited", stmt="all-labels")
    t = " ".join(src(vl.node).split())
    okk = pat.has(vl.node, "if __i >= 0 and __i != __l - 1:\n    raise EmptyLabel", ev) and pat.has(vl.node, "__l = len(labels)", ev)
    rep.check(okk, "R-01.2", vl.qualname, where(vl, vl.node), "an empty label is allowed only in last position", "empty-label position check changed", stmt="empty-label")
    # the index remembered is that of the FIRST empty label: it is assigned only while still unset and only for an empty label
    I = ev.get("__i", "?i")
    sets_ = [n for n in cfg.nodes if isinstance(n.ast, ast.Assign) and src(n.ast.targets[0]) == I and n.loops]
    okk = len(sets_) == 1
    if okk:
        have = set()
        for t_ in cfg.nodes:
            if t_.kind == "test" and isinstance(t_.ast, ast.If) and cfg.edge_dominated(sets_[0].id, {(t_.id, "t")}) and normalise_compare(t_.ast.test)[0] in ("and", "atom"):
                have |= set(atoms(normalise_compare(t_.ast.test)))
        okk = (I, "<", "0") in have and any(a[1] == "==" and a[2] == "b''" for a in have)
    rep.check(okk, "R-01.2", vl.qualname, where(vl, sets_[0].ast if sets_ else vl.node), "the remembered index is that of the first empty label (set only while unset, only for an empty label)",
              "the empty-label index is overwritten by later empty labels (not guarded by `i < 0 and label == b''`): a name with an interior empty label and a trailing root label passes validation", stmt="first-empty-label")

    # ---------------------------------------------------------------- R-01.3
    fw = model.func("dns.name.from_wire_parser")
    cfg = CFG(fw.node, implicit_exc=False)
    seeks = [(n, c) for (n, c) in calls_with_nodes(cfg) if src(c.func) == "parser.seek"]
    rep.floor("R-01.3-seeks", len(seeks), 1)
    BP = "?bound"
    for (n, c) in seeks:
        tgt = src(c.args[0])
        tests = [t for t in cfg.nodes if t.kind == "test" and isinstance(t.ast, ast.If) and len(atoms(normalise_compare(t.ast.test))) == 1 and atoms(normalise_compare(t.ast.test))[0][0] == tgt]
        good = [t for t in tests if atoms(normalise_compare(t.ast.test))[0][1] == ">=" and atoms(normalise_compare(t.ast.test))[0][2].isidentifier()]
        weak = [t for t in tests if atoms(normalise_compare(t.ast.test))[0][1] == ">" and atoms(normalise_compare(t.ast.test))[0][2].isidentifier()]
        if good:
            BP = atoms(normalise_compare(good[0].ast.test))[0][2]
        if good:
            t0 = good[0]
            okk = cfg.edge_dominated(n.id, {(t0.id, "f")}) and any(isinstance(s, ast.Raise) and "BadPointer" in src(s) for s in t0.ast.body)
            rep.check(okk, "R-01.3", fw.qualname, where(fw, c), "seek only to offsets strictly below biggest_pointer (else BadPointer)", "the pointer test does not dominate the seek or does not raise BadPointer", stmt="pointer-decreases")
            upd = [m.id for m in cfg.nodes if isinstance(m.ast, ast.Assign) and src(m.ast) == f"{BP} = {tgt}"]
            # between the test and the next evaluation of the loop head biggest_pointer must take the new value
            heads = [h for h in cfg.nodes if h.kind == "test" and isinstance(h.ast, ast.While)]
            r = cfg.reachable([n.id], blocked=upd)
            okk = bool(upd) and (cfg.dominated_by_set(n.id, upd) or not any(h.id in r for h in heads))
            rep.check(okk, "R-01.3", fw.qualname, where(fw, c), "biggest_pointer is lowered to the followed pointer before the next label", "biggest_pointer is not updated after following a pointer: pointer loops become possible", stmt="bound-updated")
        elif weak:
            rep.bad("R-01.3", fw.qualname, where(fw, weak[0].ast), f"pointer test is `{tgt} > biggest_pointer`: a pointer to itself is accepted and decoding never terminates", stmt="pointer-decreases")
        else:
            rep.bad("R-01.3", fw.qualname, where(fw, c), f"parser.seek({tgt}) is not guarded by a comparison with biggest_pointer", stmt="pointer-decreases")
    init = [src(n.value) for n in fw.node.body if isinstance(n, ast.Assign) and src(n.targets[0]) == BP]
    rep.check(init == ["parser.current"], "R-01.3", fw.qualname, where(fw, fw.node), "biggest_pointer starts at the name's own offset", f"biggest_pointer starts at {init}", stmt="bound-init")
    gb = [(n, c) for (n, c) in calls_with_nodes(cfg) if src(c.func) == "parser.get_bytes"]
    for (n, c) in gb:
        lt = [t for t in cfg.nodes if t.kind == "test" and len(atoms(normalise_compare(t.ast.test))) == 1 and int_bound_lt(atoms(normalise_compare(t.ast.test))[0]) and
              int_bound_lt(atoms(normalise_compare(t.ast.test))[0])[0] == src(c.args[0])]
        okk = bool(lt) and cfg.edge_dominated(n.id, {(lt[0].id, "t")}) and int_bound_lt(atoms(normalise_compare(lt[0].ast.test))[0])[1] == 63
        rep.check(okk, "R-01.3", fw.qualname, where(fw, c), "literal labels are at most 63 octets", "a literal label of 64 or more octets is accepted from the wire", stmt="label-lt-64")
    t = " ".join(src(fw.node).split())
    ew = pat.Env()
    rep.check(pat.has(fw.node, "if __count < 64:\n    ...\nelif __count >= 192:\n    ...\nelse:\n    raise BadLabelType", ew), "R-01.3", fw.qualname, where(fw, fw.node), "0b11 = pointer, 0b01/0b10 label types raise BadLabelType", "label-type dispatch changed", stmt="label-types")
    rep.check(pat.has(fw.node, "__cur = (__count & 63) * 256 + parser.get_uint8()", ew), "R-01.3", fw.qualname, where(fw, fw.node), "pointer = 14 bits: (count & 0x3F) * 256 + next octet", "pointer offset computation changed", stmt="pointer-value")
    loops = [h for h in cfg.nodes if h.kind == "test" and isinstance(h.ast, ast.While)]
    if len(loops) == 1:
        head = loops[0]
        COUNT = ew.get("__count", "?count")
        consume = [m.id for m in cfg.nodes if isinstance(m.ast, ast.Assign) and src(m.ast) == f"{COUNT} = parser.get_uint8()"]
        starts = [y for (y, k) in cfg.succ[head.id] if k == "t"]
        r = cfg.reachable(starts, blocked=consume)
        rep.check(bool(consume) and head.id not in r and atoms(normalise_compare(head.ast.test)) == [(COUNT, "!=", "0")], "R-01.3", fw.qualname, where(fw, head.ast),
                  "every iteration reads the next length octet; the loop ends at the zero octet", "an iteration can repeat without consuming input", stmt="consumes")
    else:
        rep.blind("R-01.3", fw.qualname, where(fw, fw.node), "decode loop not found", stmt="consumes")
    rep.check(pat.has(fw.node, "with parser.restore_furthest():") and pat.ends_with(fw.node, "return Name(__labels)"), "R-01.3", fw.qualname, where(fw, fw.node),
              "position restored to the furthest octet read; result goes through the validating constructor", "restore_furthest / validating constructor no longer used", stmt="restore-and-validate")
    sk = model.func("dns.wirebase.Parser.seek")
    c2 = CFG(sk.node, implicit_exc=False)
    ts = [x for x in c2.nodes if x.kind == "test"]
    okk = len(ts) == 1 and normalise_compare(ts[0].ast.test)[0] == "or" and set(atoms(normalise_compare(ts[0].ast.test))) == {("where", "<", "0"), ("where", ">", "self.end")}
    st = [x for x in c2.nodes if isinstance(x.ast, ast.Assign) and src(x.ast) == "self.current = where"]
    rep.check(okk and len(st) == 1 and c2.edge_dominated(st[0].id, {(ts[0].id, "f")}), "R-01.3", sk.qualname, where(sk, sk.node), "seek refuses offsets outside [0, end]", "Parser.seek bounds check changed", stmt="seek-bounds")

    # ---------------------------------------------------------------- R-01.4
    tw = model.func(f"{NAME}.to_wire")
    cfg = CFG(tw.node, implicit_exc=False)
    stores = [n for n in cfg.nodes if isinstance(n.ast, ast.Assign) and isinstance(n.ast.targets[0], ast.Subscript) and src(n.ast.targets[0].value) == "compress"]
    rep.floor("R-01.4-stores", len(stores), 1)
    for s in stores:
        key, val = src(s.ast.targets[0].slice), src(s.ast.value)
        bt = [t for t in cfg.nodes if t.kind == "test" and len(atoms(normalise_compare(t.ast.test))) == 1 and int_bound_lt(atoms(normalise_compare(t.ast.test))[0]) and int_bound_lt(atoms(normalise_compare(t.ast.test))[0])[0] == val]
        okk = bool(bt) and cfg.edge_dominated(s.id, {(bt[0].id, "t")}) and int_bound_lt(atoms(normalise_compare(bt[0].ast.test))[0])[1] <= 0x3FFF
        got = int_bound_lt(atoms(normalise_compare(bt[0].ast.test))[0])[1] if bt else None
        rep.check(okk, "R-01.4", tw.qualname, where(tw, s.ast), "only offsets <= 0x3FFF enter the table",
                  f"offsets up to {hex(got) if got is not None else 'unbounded'} are stored: a 14-bit pointer cannot address them and 0xC000 + pos overflows into the next bits", stmt="offset-bound")
        vd = [n for n in cfg.nodes if isinstance(n.ast, ast.Assign) and src(n.ast) == f"{val} = file.tell()"]
        wr = [n for (n, c) in calls_with_nodes(cfg) if src(c.func) == "file.write" and pat.match(pat.parse_expr("file.write(struct.pack('!B', __l))"), c, pat.Env())]
        okk = len(vd) >= 1 and cfg.dominated_by_set(s.id, [v.id for v in vd]) and bool(wr) and all(s.id not in cfg.reachable([w.id], skip_kinds={"loop"}) for w in wr) \
            and all(w.id in cfg.reachable([s.id]) for w in wr)
        rep.check(okk, "R-01.4", tw.qualname, where(tw, s.ast), "the stored offset is file.tell() taken before this suffix's first label is written", "the stored offset is not the position where this suffix starts", stmt="offset-before-write")
        lk = [c for c in ast.walk(tw.node) if isinstance(c, ast.Call) and src(c.func) == "compress.get"]
        kd = [src(n.value) for n in ast.walk(tw.node) if isinstance(n, ast.Assign) and src(n.targets[0]) == key]
        ek = pat.Env()
        rep.check(len(lk) == 1 and src(lk[0].args[0]) == key and len(kd) == 1 and pat.has(tw.node, f"{key} = Name(__labels[__i:])\n__i += 1", ek) and pat.has(tw.node, "__i = 0\nfor __label in __labels:", ek), "R-01.4", tw.qualname, where(tw, s.ast), "inserted under the same suffix Name(labels[i:]) that is looked up",
                  "lookup key and insertion key differ", stmt="same-key")
        gt = [t for t in cfg.nodes if t.kind == "test" and (f"len({key})", ">", "1") in atoms(normalise_compare(t.ast.test)) and normalise_compare(t.ast.test)[0] in ("and", "atom")]
        rep.check(bool(gt) and cfg.edge_dominated(s.id, {(g.id, "t") for g in gt}), "R-01.4", tw.qualname, where(tw, s.ast), "the root name is never inserted", "the root can be inserted into the compression table", stmt="no-root")
    t = " ".join(src(tw.node).split())
    ep = pat.Env()
    rep.check(pat.has(tw.node, "__value = 49152 + __pos\n__s = struct.pack('!H', __value)\nfile.write(__s)\nbreak", ep) and pat.has(tw.node, "__pos = compress.get(__n)", ep), "R-01.4", tw.qualname, where(tw, tw.node), "pointer = 0xC000 + offset read from the table",
              "the emitted pointer is not 0xC000 + the stored offset", stmt="pointer-emit")
    rep.check(pat.has(tw.node, "file.write(__s)\nbreak", ep), "R-01.4", tw.qualname, where(tw, tw.node), "a pointer ends the name", "labels are written after a pointer", stmt="pointer-terminates")

    from rules.c08 import check_rollback_purge
    check_rollback_purge(model, rep, "R-01.4")

    # ---------------------------------------------------------------- R-01.5 / R-01.6
    esc = _folded_bytes(model, nm, "_escaped")
    esc_text = _folded_bytes(model, nm, "_escaped_text")
    ef = model.func("dns.name._escapify")
    # raw range of the bytes branch: `elif c > A and c < B`
    raw_lo = raw_hi = None
    fmt_ok = []
    for n in ast.walk(ef.node):
        if isinstance(n, ast.If):
            nc = normalise_compare(n.test)
            if nc[0] == "and":
                lo = [int_bound_gt(a) for a in atoms(nc) if int_bound_gt(a) and int_bound_gt(a)[0].isidentifier()]
                hi = [int_bound_lt(a) for a in atoms(nc) if int_bound_lt(a) and int_bound_lt(a)[0].isidentifier()]
                if lo and hi and lo[0][0] == hi[0][0]:
                    raw_lo, raw_hi = lo[0][1], hi[0][1]
        if isinstance(n, ast.FormattedValue) and n.format_spec is not None:
            fmt_ok.append(src(n.format_spec))
    if raw_lo is None:
        raise AnalysisError("_escapify: raw range test `c > A and c < B` not found")
    raw = {c for c in range(raw_lo, raw_hi + 1)} - set(esc)
    tk = model.module("dns.tokenizer")
    delims = {ord(ch) for ch in _folded_bytes(model, tk, "_DELIMITERS")}
    ft = model.func("dns.name.from_text")
    reader_lits = set()
    for n in ast.walk(ft.node):
        if isinstance(n, ast.Compare) and len(n.comparators) == 1 and isinstance(n.comparators[0], ast.Constant) and isinstance(n.comparators[0].value, bytes) and len(n.comparators[0].value) == 1:
            reader_lits.add(n.comparators[0].value[0])
    zr = model.func("dns.zonefile.Reader.read")
    dollar = any(isinstance(c, ast.Call) and src(c.func).endswith(".startswith") and c.args and src(c.args[0]) == "'$'" for c in ast.walk(zr.node)) or "[0] == '$'" in src(zr.node)
    special = set(reader_lits) | delims | ({ord("$")} if dollar else set()) | set(range(0x80, 0x100))
    rep.floor("R-01.5-reader-specials", len(reader_lits), 3)
    leak = sorted(special & raw)
    rep.check(not leak, "R-01.5", ef.qualname, where(ef, ef.node),
              f"all {len(special)} reader-special octets are escaped (raw range {hex(raw_lo)}..{hex(raw_hi)} minus {esc!r})",
              f"octets {[chr(c) if c < 0x7f else hex(c) for c in leak]} are written raw but mean something to a reader (name/zone-file text does not parse back to the same label)", stmt="special-subset-escaped")
    # every other way out of _escapify (a "fast path" that returns the label unescaped) may only let octets through that are neither special to a reader nor outside the raw range
    rets = [r for r in ast.walk(ef.node) if isinstance(r, ast.Return) and r.value is not None]
    accs = {t_.id for x in ast.walk(ef.node) if isinstance(x, ast.AugAssign) and isinstance(x.target, ast.Name) for t_ in [x.target]}
    for r in rets:
        if isinstance(r.value, ast.Name) and r.value.id in accs:
            continue
        guard = next((g for g in ast.walk(ef.node) if isinstance(g, ast.If) and any(x is r for b in g.body for x in ast.walk(b))
                      and isinstance(g.test, ast.Call) and isinstance(g.test.func, ast.Attribute) and g.test.func.attr == "fullmatch" and isinstance(g.test.func.value, ast.Name)), None)
        allowed = None
        if guard is not None and guard.test.func.value.id in nm.assigns:
            v = nm.assigns[guard.test.func.value.id]
            if isinstance(v, ast.Call) and src(v.func) == "re.compile" and v.args and isinstance(v.args[0], ast.Constant) and isinstance(v.args[0].value, bytes):
                import re as _re
                try:
                    parsed = _re._parser.parse(v.args[0].value)
                    allowed = set()
                    okshape = len(parsed) == 1 and str(parsed[0][0]) == "MAX_REPEAT"
                    inner = parsed[0][1][2] if okshape else []
                    okshape = okshape and len(inner) == 1 and str(inner[0][0]) == "IN"
                    for (k_, a_) in (inner[0][1] if okshape else []):
                        if str(k_) == "LITERAL":
                            allowed.add(a_)
                        elif str(k_) == "RANGE":
                            allowed |= set(range(a_[0], a_[1] + 1))
                        else:
                            okshape = False
                    if not okshape:
                        allowed = None
                except Exception:
                    allowed = None
        if allowed is None:
            rep.blind("R-01.5", ef.qualname, where(ef, r), f"`{src(r)[:50]}` leaves _escapify without going through the per-octet loop and its guard is not a module-level `[class]+` bytes regex", stmt="fast-path")
        else:
            leak2 = sorted(c for c in allowed if c in special or c in set(esc) or not (raw_lo <= c <= raw_hi))
            rep.check(not leak2, "R-01.5", ef.qualname, where(ef, r), f"the fast path lets only {len(allowed)} plain octets through",
                      f"the fast path returns the label unescaped when it matches a class containing {[chr(c) for c in leak2]}: those octets need escaping (text does not parse back to the same labels, "
                      "e.g. a backslash inside `A-z`)", stmt="fast-path")
    # str mode
    specials_text = {chr(c) for c in (set(reader_lits) | delims | ({ord('$')} if dollar else set())) if c > 0x20}
    leak_t = sorted(specials_text - set(esc_text))
    rep.check(not leak_t, "R-01.5", ef.qualname, where(ef, ef.node), "unicode mode escapes the same specials", f"unicode mode leaves {leak_t} unescaped", stmt="special-subset-escaped-text")
    rep.check(bool(fmt_ok) and all(f.lstrip("f") in ("'03d'",) for f in fmt_ok), "R-01.5", ef.qualname, where(ef, ef.node), "decimal escapes are written with exactly 3 digits", f"decimal escape format is {fmt_ok}", stmt="3-digits-written")
    for qn in ("dns.name.from_text", "dns.name.from_unicode"):
        f = model.func(qn)
        t = " ".join(src(f.node).split())
        ee = pat.Env()
        rep.check(pat.has(f.node, "__ed += 1\nif __ed == 3:", ee), "R-01.5", qn, where(f, f.node), "decimal escapes are read with exactly 3 digits", "the reader no longer consumes exactly 3 digits", stmt="3-digits-read")
        rep.check(pat.has(f.node, "if __esc:\n    raise BadEscape", ee) and pat.has(f.node, f"__esc = False\n__ed = 0", ee) and (pat.has(f.node, "if not __b.isdigit():\n    raise BadEscape", ee) or pat.has(f.node, "if not __b.isdecimal():\n    raise BadEscape", ee)), "R-01.5", qn, where(f, f.node),
                  "truncated or non-numeric escapes raise BadEscape", "bad escapes are no longer rejected", stmt="bad-escape")
    cfg = CFG(ft.node, implicit_exc=False)
    et = pat.Env()
    pat.has(ft.node, "__total *= 10", et)
    packs = [n for n in cfg.nodes if n.ast is not None and n.kind == "stmt" and pat.has_expr(n.ast, "struct.pack('!B', __total)", et)]
    rep.floor("R-01.6", len(packs), 1)
    for pk in packs:
        ts = [t for t in cfg.nodes if t.kind == "test" and len(atoms(normalise_compare(t.ast.test))) == 1 and int_bound_gt(atoms(normalise_compare(t.ast.test))[0]) and
              int_bound_gt(atoms(normalise_compare(t.ast.test))[0]) == (et.get("__total"), 256)]
        okk = bool(ts) and cfg.edge_dominated(pk.id, {(ts[0].id, "f")}) and any(isinstance(s, ast.Raise) and "BadEscape" in src(s) for s in ts[0].ast.body)
        rep.check(okk, "R-01.6", ft.qualname, where(ft, pk.ast), "\\DDD is packed into one octet only when <= 255, else BadEscape", "a \\DDD escape above 255 reaches struct.pack('!B', ...) and raises struct.error", stmt="ddd-range")
    # ---------------------------------------------------------------- R-01.7
    ts = model.func(f"{NAME}.to_styled_text")
    tcfg = CFG(ts.node, implicit_exc=False)
    chosen = [n for n in tcfg.stmts() if isinstance(n.ast, ast.Assign) and isinstance(n.ast.value, ast.Call) and src(n.ast.value.func) == "self.choose_relativity"]
    if len(chosen) != 1:
        rep.blind("R-01.7", ts.qualname, where(ts, ts.node), "`<v> = self.choose_relativity(...)` not found", stmt="styled-name")
    else:
        later = [(n, x) for n in tcfg.stmts() if n.id != chosen[0].id and n.id in tcfg.reachable([chosen[0].id]) for x in own_nodes(n.ast) if isinstance(x, ast.Name) and x.id == "self"]
        for (n, x) in later:
            rep.bad("R-01.7", ts.qualname, where(ts, x), f"`{src(n.ast)[:50]}` reads `self` after the name was put into the style's relativity (`{src(chosen[0].ast.targets[0])}`): "
                    "the decision (empty -> '@', absolute -> drop the final dot) is taken on another name than the one printed", stmt="styled-name self-read")
        rep.ok("R-01.7", ts.qualname, where(ts, chosen[0].ast), f"after `{src(chosen[0].ast)[:60]}` only that name is read ({len(later)} reads of self)", stmt="styled-name")
    for qn in ("dns.name.from_text", "dns.name.from_unicode"):
        f7 = model.func(qn)
        ext = [n for n in ast.walk(f7.node) if isinstance(n, ast.If) and any(isinstance(c, ast.Call) and src(c.func).endswith(".extend") and "origin.labels" in src(c) for s_ in n.body for c in ast.walk(s_))]
        if len(ext) != 1:
            rep.blind("R-01.7", qn, where(f7, f7.node), "the `labels.extend(origin.labels)` decision was not found", stmt="origin-append")
            continue
        names_in_test = {x.id for x in ast.walk(ext[0].test) if isinstance(x, ast.Name)}
        at = set(atoms(normalise_compare(ext[0].test)))
        lab = next((a[0][4:-1] for a in at if a[0].startswith("len(") and a[1] == "==" and a[2] == "0"), None)
        okk = lab is not None and (f"{lab}[-1]", "!=", "b''") in at and ("origin", "is not", "None") in at and names_in_test <= {lab, "origin", "len"}
        rep.check(okk, "R-01.7", qn, where(f7, ext[0]), f"the origin is appended iff the parsed `{lab}` do not end in the empty (root) label and an origin was given",
                  f"the decision to append the origin is `{src(ext[0].test)[:70]}`: it must depend on the parsed labels only (an escaped final dot `\\.` in the text is not the root label)", stmt="origin-append")
    rep.assume("IDNA codecs (idna package / encodings.idna) are outside the analysed program")
    rep.share(model, "C06", {"R-06.4", "R-06.6"}, "R-01.8", "to_text(origin=..., relativize=True) and Tokenizer.get_name relativize through Name.relativize / choose_relativity", only=lambda o: o.rule == "R-06.6" or o.stmt in ("relativize", "choose"))
    # ---------------------------------------------------------------- R-01.9
    tw9 = model.func("dns.name.Name.to_wire")
    arm = [n for n in ast.walk(tw9.node) if isinstance(n, ast.If) and any(a[0] == "file" and a[1] == "is" and a[2] == "None" for a in atoms(normalise_compare(n.test)))]
    if len(arm) != 1:
        rep.blind("R-01.9", tw9.qualname, where(tw9, tw9.node), "the `file is None` arm was not found", stmt="bytes-arm-bound")
    else:
        appends = [l_ for l_ in ast.walk(arm[0]) if isinstance(l_, ast.For) and src(l_.iter) == "origin.labels"]
        guards = [g for g in ast.walk(arm[0]) if isinstance(g, ast.If) and any(isinstance(b, ast.Raise) and "NameTooLong" in src(b) for b in g.body)
                  and any(a[0].startswith("len(") and a[1] == ">" and a[2] == "255" for a in atoms(normalise_compare(g.test)))]
        okk = bool(appends) and bool(guards) and all(g.lineno > l_.lineno for g in guards for l_ in appends)
        rep.check(okk or not appends, "R-01.9", tw9.qualname, where(tw9, appends[0] if appends else arm[0]), "the bytes arm refuses a derelativized encoding above 255 octets",
                  "the arm that returns bytes appends the origin's labels and returns without `if len(out) > 255: raise NameTooLong`: a relative name plus origin longer than 255 octets is encoded "
                  "(to_wire(origin=...), to_digestable(origin)) where the file-writing arm raises NameTooLong", stmt="bytes-arm-bound")
        farm = [c for c in ast.walk(tw9.node) if isinstance(c, ast.Call) and src(c.func) == "Name" and c not in list(ast.walk(arm[0]))]
        rep.check(bool(farm), "R-01.9", tw9.qualname, where(tw9, tw9.node), "the file arm constructs Name(labels[i:]) - validated - before writing anything",
                  "the file arm no longer constructs a (validated) Name from the combined labels", stmt="file-arm-bound")
    # ---------------------------------------------------------------- R-01.10
    n_sm = 0
    for qn in ("dns.name.from_text", "dns.name.from_unicode"):
        fe = model.func(qn)
        loops = [l_ for l_ in ast.walk(fe.node) if isinstance(l_, ast.For) and any(isinstance(st, ast.If) and isinstance(st.test, ast.Name) for st in l_.body)]
        if len(loops) != 1:
            rep.blind("R-01.10", qn, where(fe, fe.node), "the character loop `for c in text: if <escaping>: ...` was not found", stmt="escape-reset")
            continue
        head = next(st for st in loops[0].body if isinstance(st, ast.If) and isinstance(st.test, ast.Name))
        esc = head.test.id
        arm = head.body
        touched = {t_.id for st in arm for x in ast.walk(st) if isinstance(x, (ast.Assign, ast.AugAssign)) for t_ in (x.targets if isinstance(x, ast.Assign) else [x.target]) if isinstance(t_, ast.Name)}
        zeroed = {t_.id for x in ast.walk(fe.node) if isinstance(x, ast.Assign) and isinstance(x.value, ast.Constant) and x.value.value == 0 and x.value.value is not False for t_ in x.targets if isinstance(t_, ast.Name)}
        state = sorted((touched & zeroed) - {esc})
        enters = [b for b in pat._bodies(loops[0]) if any(isinstance(st, ast.Assign) and any(isinstance(t_, ast.Name) and t_.id == esc for t_ in st.targets) and isinstance(st.value, ast.Constant) and st.value.value is True for st in b)]
        if len(enters) != 1 or len(state) < 2:
            rep.blind("R-01.10", qn, where(fe, loops[0]), f"escape entry / state variables not identified (entries {len(enters)}, state {state})", stmt="escape-reset")
            continue
        n_sm += 1
        here = {t_.id for st in enters[0] if isinstance(st, ast.Assign) and isinstance(st.value, ast.Constant) and st.value.value == 0 and st.value.value is not False for t_ in st.targets if isinstance(t_, ast.Name)}
        missing = [v for v in state if v not in here]
        rep.check(not missing, "R-01.10", qn, where(fe, enters[0][0]), f"entering an escape zeroes {state}",
                  f"the branch that enters the escaping state does not zero {missing}: after one complete \\DDD escape the next escape in the same label starts with stale digits "
                  "(it is refused with BadEscape or decoded to the wrong octet), so text the library itself produced does not parse back", stmt="escape-reset")
    rep.floor("R-01.10", n_sm, 2)
    from engine.minieval import evaluate, Unsupported
    ia = model.func("dns.name.is_all_ascii")
    tests13 = [n for n in ast.walk(ia.node) if isinstance(n, ast.If) and any(isinstance(b, ast.Return) and isinstance(b.value, ast.Constant) and b.value.value is False for b in n.body)]
    if len(tests13) != 1:
        rep.blind("R-01.13", ia.qualname, where(ia, ia.node), "the `if <code point test>: return False` of is_all_ascii was not found", stmt="ascii-bound")
    else:
        ords = [c for c in ast.walk(tests13[0].test) if isinstance(c, ast.Call) and src(c.func) == "ord"]
        try:
            verdict = [bool(evaluate(tests13[0].test, {src(ords[0]): v}, lambda nd: model.const(ia.module, nd))) for v in (0x7E, 0x7F, 0x80)] if ords else None
            rep.check(verdict == [False, False, True], "R-01.13", ia.qualname, where(ia, tests13[0]), "code points up to 0x7F are ASCII, 0x80 and above are not",
                      f"`{src(tests13[0].test)}` evaluates to {verdict} at 0x7E, 0x7F, 0x80 (expected [False, False, True]): text containing DEL (or a non-ASCII character, the other way round) takes the wrong path - "
                      "a label the library itself printed as `a\\127b` next to a U-label is pushed through IDNA and refused", stmt="ascii-bound")
        except (Unsupported, AnalysisError) as e:
            rep.blind("R-01.13", ia.qualname, where(ia, tests13[0]), f"test not evaluable: {e}", stmt="ascii-bound")
    from rules.c04 import check_parser_reads
    check_parser_reads(model, rep, "R-01.12")
    # ---------------------------------------------------------------- R-01.11
    n_np = 0
    for qn in ("dns.tokenizer.Tokenizer.get_name", "dns.tokenizer.Tokenizer.as_name"):
        fn_ = model.func(qn)
        n_np += 1
        un = [c for c in ast.walk(fn_.node) if isinstance(c, ast.Call) and isinstance(c.func, ast.Attribute) and c.func.attr.startswith("unescape")]
        rep.check(not un, "R-01.11", qn, where(fn_, un[0] if un else fn_.node), "the token reaches dns.name.from_text unescaped",
                  f"`{src(un[0])[:50]}` unescapes the token before dns.name.from_text runs its own escape state machine: escapes are interpreted twice" if un else "", stmt="single-unescape")
    rep.floor("R-01.11", n_np, 2)
    # ---------------------------------------------------------------- R-01.14
    codec = model.cls("dns.name.IDNACodec")
    n14 = 0
    for c14 in [codec] + model.subclasses(codec):
        fd = c14.methods.get("decode")
        if fd is None:
            continue
        for r14 in [r for r in ast.walk(fd.node) if isinstance(r, ast.Return) and r.value is not None]:
            n14 += 1
            v = r14.value
            okk = (isinstance(v, ast.Constant) and v.value == "") or (isinstance(v, ast.Call) and src(v.func) in ("_escapify", "super().decode"))
            rep.check(okk, "R-01.14", fd.qualname, where(fd, r14), f"returns `{src(v)[:40]}`",
                      f"`return {src(v)[:60]}` hands out label text without _escapify: a label holding '.' or a backslash prints as if it were several labels (to_unicode() output no longer parses back to the same name)",
                      stmt="decode-escapes")
    rep.floor("R-01.14", n14, 7)
    # ---------------------------------------------------------------- R-01.15
    from engine.minieval import evaluate as _ev15, Unsupported as _Un15
    n15 = 0
    for f15 in sorted(model.all_functions(), key=lambda g: g.qualname):
        if f15.module.name != "dns.name":
            continue
        for nd in ast.walk(f15.node):
            if not (isinstance(nd, ast.If) and len(nd.body) == 1 and isinstance(nd.body[0], ast.Raise) and nd.body[0].exc is not None and src(nd.body[0].exc).split("(")[0] == "LabelTooLong"):
                continue
            if not all(isinstance(c_, ast.Compare) and any(isinstance(k_, ast.Constant) and isinstance(k_.value, int) for k_ in [c_.left] + c_.comparators) for c_ in ast.walk(nd.test) if isinstance(c_, ast.Compare)) \
                    or not any(isinstance(c_, ast.Compare) for c_ in ast.walk(nd.test)):
                continue  # not a numeric length test (e.g. the message of a foreign exception)
            n15 += 1
            keys = {src(c_) for c_ in ast.walk(nd.test) if isinstance(c_, ast.Call) and dotted(c_.func) == "len"} or {x.id for x in ast.walk(nd.test) if isinstance(x, ast.Name)}
            try:
                if len(keys) != 1:
                    raise _Un15(f"length expressions {sorted(keys)}")
                k15 = next(iter(keys))
                verdict = [bool(_ev15(nd.test, {k15: v})) for v in (63, 64)]
                rep.check(verdict == [False, True], "R-01.15", f15.qualname, where(f15, nd), f"`{src(nd.test)}`: 63 accepted, 64 refused",
                          f"`{src(nd.test)}` is {verdict} at lengths 63, 64 (expected [False, True]): a legal 63-octet label is refused on this route (or a 64-octet one accepted) while the other constructors disagree", stmt="label-limit")
            except _Un15 as e:
                rep.blind("R-01.15", f15.qualname, where(f15, nd), f"label length test not evaluable: {e}", stmt="label-limit")
    rep.floor("R-01.15", n15, 2)
    from rules.c05 import check_text_name_triple
    check_text_name_triple(model, rep, "R-01.16")
    rep.meta["explanation"] = (
        "Must-pass-through and who-may-write rules for the validation gate, normalised-bound rules for the 63/255 limits and the compression offset, a well-founded-measure argument for "
        "wire decoding (pointer strictly decreasing, loop consumes), and set comparison between the octets readers treat specially and the octets the writer escapes (both folded from the source). "
        "Byte-identity of the round trip for all label contents, IDNA and successor/predecessor length handling are NOT decided.")


WITNESSES = [
    {"id": "c01-idna2008-ascii-label-63-refused", "rule": "R-01.15", "file": "dns/name.py", "expect": "fires",
     "old": "            if len(encoded) > 63:", "new": "            if len(encoded) >= 63:"},
    {"id": "c01-twin-idna2008-ascii-label-limit-flipped", "rule": "R-01.15", "file": "dns/name.py", "expect": "silent",
     "old": "            if len(encoded) > 63:", "new": "            if 64 <= len(encoded):"},
    {"id": "c01-idna2003-strict-decode-unescaped", "rule": "R-01.14", "file": "dns/name.py", "expect": "fires",
     "old": "            return _escapify(encodings.idna.ToUnicode(label))", "new": "            return encodings.idna.ToUnicode(label)"},
    {"id": "c01-twin-idna2003-decode-via-local", "rule": "R-01.14", "file": "dns/name.py", "expect": "silent",
     "old": "            return _escapify(encodings.idna.ToUnicode(label))", "new": "            ulabel = encodings.idna.ToUnicode(label)\n            return _escapify(ulabel)"},
    {"id": "c01-is-all-ascii-excludes-del", "rule": "R-01.13", "file": "dns/name.py", "expect": "fires",
     "old": "        if ord(c) > 0x7F:\n            return False", "new": "        if ord(c) >= 0x7F:\n            return False"},
    {"id": "c01-escapify-fast-path-lets-backslash-through", "rule": "R-01.5", "file": "dns/name.py", "expect": "fires",
     "edits": [{"file": "dns/name.py", "old": "_escaped_text = '\"().;\\\\@$'\n", "new": "_escaped_text = '\"().;\\\\@$'\nimport re\n_plain_label = re.compile(rb\"[0-9A-z_*-]+\")\n"},
               {"file": "dns/name.py", "old": "    if isinstance(label, bytes):\n        # Ordinary DNS label mode.", "new": "    if isinstance(label, bytes):\n        if _plain_label.fullmatch(label):\n            return label.decode(\"ascii\")\n        # Ordinary DNS label mode."}]},
    {"id": "c01-twin-escapify-fast-path-safe-class", "rule": "R-01.5", "file": "dns/name.py", "expect": "silent",
     "edits": [{"file": "dns/name.py", "old": "_escaped_text = '\"().;\\\\@$'\n", "new": "_escaped_text = '\"().;\\\\@$'\nimport re\n_plain_label = re.compile(rb\"[0-9A-Za-z_*-]+\")\n"},
               {"file": "dns/name.py", "old": "    if isinstance(label, bytes):\n        # Ordinary DNS label mode.", "new": "    if isinstance(label, bytes):\n        if _plain_label.fullmatch(label):\n            return label.decode(\"ascii\")\n        # Ordinary DNS label mode."}]},
    {"id": "c01-get-name-unescapes-first", "rule": "R-01.11", "file": "dns/tokenizer.py", "expect": "fires",
     "old": "        token = self.get()\n        return self.as_name(token, origin, relativize, relativize_to)", "new": "        token = self.get().unescape()\n        return self.as_name(token, origin, relativize, relativize_to)"},
    {"id": "c01-from-unicode-escape-reset-at-label-boundary", "rule": "R-01.10", "file": "dns/name.py", "expect": "fires",
     "old": "                labels.append(idna_codec.encode(label))\n                label = \"\"\n            elif c == \"\\\\\":\n                escaping = True\n                edigits = 0\n                total = 0\n",
     "new": "                labels.append(idna_codec.encode(label))\n                label = \"\"\n                edigits = 0\n                total = 0\n            elif c == \"\\\\\":\n                escaping = True\n"},
    {"id": "c01-bytes-arm-unbounded", "rule": "R-01.9", "file": "dns/name.py", "expect": "fires",
     "old": "                if len(out) > 255:\n                    raise NameTooLong\n", "new": ""},
    {"id": "c01-styled-text-tests-self", "rule": "R-01.7", "file": "dns/name.py", "expect": "fires",
     "old": "        if style.omit_final_dot and name.is_absolute():", "new": "        if style.omit_final_dot and self.is_absolute():"},
    {"id": "c01-origin-append-from-raw-text", "rule": "R-01.7", "file": "dns/name.py", "expect": "fires",
     "old": "    if (len(labels) == 0 or labels[-1] != b\"\") and origin is not None:\n        labels.extend(list(origin.labels))\n    return Name(labels)\n\n\ndef from_wire_parser", "new": "    if not text.endswith(b\".\") and origin is not None:\n        labels.extend(list(origin.labels))\n    return Name(labels)\n\n\ndef from_wire_parser"},
    {"id": "c01-last-empty-label-remembered", "rule": "R-01.2", "file": "dns/name.py", "expect": "fires",
     "old": "        if i < 0 and label == b\"\":\n            i = j", "new": "        if label == b\"\":\n            i = j"},
    {"id": "c01-twin-validate-labels-enumerate", "rule": "R-01.2", "file": "dns/name.py", "expect": "silent",
     "old": "    j = 0\n    for label in labels:\n        ll = len(label)\n        total += ll + 1\n        if ll > 63:\n            raise LabelTooLong\n        if i < 0 and label == b\"\":\n            i = j\n        j += 1\n",
     "new": "    for j, label in enumerate(labels):\n        ll = len(label)\n        total += ll + 1\n        if ll > 63:\n            raise LabelTooLong\n        if i < 0 and label == b\"\":\n            i = j\n"},
    {"id": "c01-compress-offset-64k", "rule": "R-01.4", "file": "dns/name.py", "expect": "fires",
     "old": "                    if pos <= 0x3FFF:", "new": "                    if pos <= 0xFFFF:"},
    {"id": "c01-self-pointer", "rule": "R-01.3", "file": "dns/name.py", "expect": "fires",
     "old": "                if current >= biggest_pointer:", "new": "                if current > biggest_pointer:"},
    {"id": "c01-setstate-no-validate", "rule": "R-01.1", "file": "dns/name.py", "expect": "fires",
     "old": "        super().__setattr__(\"labels\", state[\"labels\"])\n        _validate_labels(self.labels)", "new": "        super().__setattr__(\"labels\", state[\"labels\"])"},
    {"id": "c01-dollar-not-escaped", "rule": "R-01.5", "file": "dns/name.py", "expect": "fires",
     "old": "_escaped = b'\"().;\\\\@$'", "new": "_escaped = b'\"().;\\\\@'"},
    {"id": "c01-wire-label-64", "rule": "R-01.3", "file": "dns/name.py", "expect": "fires",
     "old": "            if count < 64:\n                labels.append(parser.get_bytes(count))", "new": "            if count <= 64:\n                labels.append(parser.get_bytes(count))"},
    {"id": "c01-label-limit-64", "rule": "R-01.2", "file": "dns/name.py", "expect": "fires",
     "old": "        if ll > 63:\n            raise LabelTooLong", "new": "        if ll > 64:\n            raise LabelTooLong"},
    {"id": "c01-twin-ge-64", "rule": "R-01.2", "file": "dns/name.py", "expect": "silent",
     "old": "        if ll > 63:\n            raise LabelTooLong", "new": "        if ll >= 64:\n            raise LabelTooLong"},
    {"id": "c01-twin-raw-7f", "rule": "R-01.5", "file": "dns/name.py", "expect": "silent",
     "old": "            elif c > 0x20 and c < 0x7F:", "new": "            elif c > 0x20 and c <= 0x7F:"},
    {"id": "c01-raw-space", "rule": "R-01.5", "file": "dns/name.py", "expect": "fires",
     "old": "            elif c > 0x20 and c < 0x7F:", "new": "            elif c >= 0x20 and c < 0x7F:"},
    {"id": "c01-ddd-300", "rule": "R-01.6", "file": "dns/name.py", "expect": "fires",
     "old": "                        if total > 255:\n                            raise BadEscape\n", "new": ""},
    {"id": "c01-bound-not-updated", "rule": "R-01.3", "file": "dns/name.py", "expect": "fires",
     "old": "                biggest_pointer = current\n", "new": ""},
    {"id": "c01-root-in-table", "rule": "R-01.4", "file": "dns/name.py", "expect": "fires",
     "old": "                if compress is not None and len(n) > 1:", "new": "                if compress is not None:"},
]
