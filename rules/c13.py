"""C13 inbound transfers: commit discipline (an error is never reported after the commit), rollback, state-machine wiring."""
from __future__ import annotations

import ast

from engine.cfg import CFG, normalise_compare, atoms, A
from engine.model import src, stmt_key, dotted
from engine import pat
from rules import roles
from engine.util import own_nodes, calls_with_nodes, where, optional_numeric_params, truthiness_uses

RULES = {
    "R-13.9": "records that may share an owner with a CNAME survive a transfer in any record order: the node exclusivity filter and its type tables are those of RFC 4035 2.5 / RFC 3007 (C09 R-09.3 adopted)",
    "R-13.8": "RFC 8945 allows unsigned messages between signed ones: neither _inbound_xfr twin demands a TSIG on every message - the `had_tsig` refusal is not inside the receive loop (unless it is tied to the last message)",
    "R-13.7": "a transfer is applied through one write transaction of the zone: on a versioned zone a refresh is admitted after an earlier overlapping one only if the writer admission protocol holds (C12 R-12.3 adopted)",
    "R-13.6": "a rejected transfer into a B-tree zone leaves it untouched only if the B-tree never writes a node shared with the published version (C19 R-19.1 adopted); a signed AXFR parses however the stream is cut into messages only if Message.find_rrset keys RRsets by covered type too (C03 R-03.4 index-key adopted)",
    "R-13.5": "an IXFR deletion removes exactly the addressed rdataset: the Version operations use every part of their (name, type, covers) key (C10 R-10.5 adopted)",
    "R-13.1": "no raise is reachable after the transfer's commit: inside Inbound.process_message, and in every driver after a process_message call that returned True",
    "R-13.2": "failure leaves the zone untouched: rollback in __exit__, rollback before the AXFR-style replacement writer, delete_exact for IXFR deletions, RFC 1982 serial comparison, out-of-zone names skipped, nothing applied after the final SOA",
    "R-13.4": "optional serial / timeout parameters of the transfer code are tested for presence by identity with None, never by truthiness (serial 0 is a valid base serial, reached after an RFC 1982 wrap)",
    "R-13.3": "both _inbound_xfr twins drive the transfer inside `with Inbound(...)`, parse with xfr/one_rr_per_rrset(IXFR)/multi/tsig_ctx, and inbound_xfr maps UseTCP to a TCP retry",
}
PM = "dns.xfr.Inbound.process_message"


def _commit_nodes(cfg):
    return [n for (n, c) in calls_with_nodes(cfg) if src(c.func) == "self.txn.commit"]



def check_inbound_exit(model, rep, rule):
    """Inbound.__exit__ rolls back whatever transaction is still open (shared with C12: an open write transaction holds the zone's single writer slot)."""
    ex = model.func("dns.xfr.Inbound.__exit__")
    t = " ".join(src(ex.node).split())
    rep.check("if self.txn: self.txn.rollback()" in t and t.rstrip().endswith("return False"), rule, ex.qualname, where(ex, ex.node),
              "__exit__ rolls back an open transaction and never swallows the exception", "__exit__ does not (roll back the open transaction and return False): a transfer that fails between the final SOA and the commit keeps "
              "the zone's write transaction open - on a versioned zone every later writer() blocks for ever", stmt="exit-rollback")

def run(model, rep, tier):
    pm = pat.canon_func(model.func(PM), ["for __rrset in message.answer[__answer_index:]:\n    __name = __rrset.name\n    __rdataset = __rrset\n    ...", "__soa = cast(dns.rdtypes.ANY.SOA.SOA, ...)"])
    cfg = CFG(pm.node, implicit_exc=False)
    # ---------------------------------------------------------------- R-13.1 (a) inside process_message
    commits = _commit_nodes(cfg)
    rep.floor("R-13.1-commit-sites", len(commits), 1)
    raises = [n for n in cfg.nodes if isinstance(n.ast, (ast.Raise, ast.Assert)) and n.kind == "stmt"]
    for cn in commits:
        after = cfg.reachable([y for (y, k) in cfg.succ[cn.id]], skip_kinds={"exc"})
        late = [r for r in raises if r.id in after]
        if not late:
            rep.ok("R-13.1", PM, where(pm, cn.ast), f"no raise/assert reachable after the commit ({len(raises)} raise sites all precede it)", stmt="after-commit")
        for r in late:
            p = cfg.path(cn.id, r.id, skip_kinds={"exc"})
            rep.bad("R-13.1", PM, where(pm, r.ast), f"`{stmt_key(r.ast)}` is reachable after self.txn.commit() ({cfg.fmt_path(p)}): the zone was changed and an error is reported",
                    stmt=f"after-commit: {stmt_key(r.ast)}")
        # the commit happens only when done
        tests = [t for t in cfg.nodes if t.kind == "test" and ("self.done", "truthy", "") in atoms(normalise_compare(t.ast.test)) and normalise_compare(t.ast.test)[0] in ("atom", "and")]
        okk = bool(tests) and cfg.edge_dominated(cn.id, {(t.id, "t") for t in tests})
        rep.check(okk, "R-13.1", PM, where(pm, cn.ast), "commit only when the transfer is done", "commit is reachable for an unfinished transfer", stmt="commit-iff-done")
        # the return value after a commit is True: `return self.done` with done true
        rets = [n for n in cfg.nodes if isinstance(n.ast, ast.Return) and n.id in after]
        rep.check(all(src(r.ast.value) in ("self.done", "True") for r in rets) and bool(rets), "R-13.1", PM, where(pm, cn.ast), "a committing call returns self.done (True)",
                  "a committing call may return something other than done", stmt="returns-done")
    # returns True  =>  committed (summary used for the callers): every `self.done = True` that can reach a normal return passes a commit, or nothing was opened for writing
    done_sets = [n for n in cfg.nodes if isinstance(n.ast, ast.Assign) and src(n.ast) == "self.done = True"]
    rep.floor("R-13.1-done-sites", len(done_sets), 2)
    # (b) drivers
    drivers = []
    for f in model.all_functions():
        if f.qualname == PM:
            continue
        if any(isinstance(c, ast.Call) and isinstance(c.func, ast.Attribute) and c.func.attr == "process_message" for c in ast.walk(f.node)):
            drivers.append(f)
    rep.floor("R-13.1-drivers", len(drivers), 2)
    for f in drivers:
        c2 = CFG(f.node, implicit_exc=False)
        for (n, c) in calls_with_nodes(c2):
            if not (isinstance(c.func, ast.Attribute) and c.func.attr == "process_message"):
                continue
            resvar = None
            if isinstance(n.ast, ast.Assign) and isinstance(n.ast.targets[0], ast.Name) and n.ast.value is c:
                resvar = n.ast.targets[0].id
            # explore with the result == True
            seen = set()
            todo = [y for (y, k) in c2.succ[n.id]]
            late = []
            while todo:
                x = todo.pop()
                if x in seen:
                    continue
                seen.add(x)
                nd = c2.nodes[x]
                if isinstance(nd.ast, (ast.Raise,)) and nd.kind == "stmt":
                    late.append(nd)
                    continue
                if nd.id == n.id:
                    continue  # next call: a new message
                for (y, k) in c2.succ[x]:
                    if k == "exc":
                        continue
                    if resvar and nd.kind == "test" and k in ("t", "f"):
                        at = atoms(normalise_compare(nd.ast.test))
                        if at == [(resvar, "falsy", "")] and k == "t":
                            continue
                        if at == [(resvar, "truthy", "")] and k == "f":
                            continue
                    todo.append(y)
            if not late:
                rep.ok("R-13.1", f.qualname, where(f, c), "no raise reachable after a process_message call that returned True", stmt="driver-after-commit")
            for r in late:
                rep.bad("R-13.1", f.qualname, where(f, r.ast), f"`{stmt_key(r.ast)}` is reachable after process_message returned True (transfer committed): applied and then reported as an error",
                        stmt=f"driver-after-commit: {stmt_key(r.ast)}")

    # ---------------------------------------------------------------- R-13.2
    check_inbound_exit(model, rep, "R-13.2")
    # after commit txn is cleared so __exit__ does not roll back a committed txn / commit twice
    for cn in commits:
        clear = [n.id for n in cfg.nodes if isinstance(n.ast, ast.Assign) and src(n.ast) == "self.txn = None"]
        rep.check(bool(clear) and cfg.postdominated_by_set(cn.id, clear), "R-13.2", PM, where(pm, cn.ast), "self.txn is cleared after the commit", "self.txn stays set after the commit (__exit__ would roll back / reuse an ended transaction)", stmt="clear-after-commit")
    # AXFR-style fallback
    okk = False
    for blk in _blocks(pm.node):
        ks = [stmt_key(s) for s in blk]
        if "self.txn = self.txn_manager.writer(True)" in ks:
            i = ks.index("self.txn = self.txn_manager.writer(True)")
            okk = "self.txn.rollback()" in ks[:i] and "self.incremental = False" in ks and "self.delete_mode = False" in ks and "self.expecting_SOA = False" in ks
    rep.check(okk, "R-13.2", PM, where(pm, pm.node), "AXFR-style answer: roll back the IXFR transaction, reset the state machine, open a replacement writer",
              "AXFR-style fallback no longer rolls back before opening the replacement writer (or leaves IXFR state set)", stmt="axfr-fallback")
    # first writer: replacement iff not incremental
    first = [src(n.value) for n in ast.walk(pm.node) if isinstance(n, ast.Assign) and src(n.targets[0]) == "self.txn" and "writer(" in src(n.value)]
    rep.check("self.txn_manager.writer(not self.incremental)" in first, "R-13.2", PM, where(pm, pm.node), "writer(replacement = not incremental)",
              f"initial writer is {first}: an AXFR would merge into the old zone or an IXFR would wipe it", stmt="first-writer")
    # add / delete_exact selection
    adds = [n for (n, c) in calls_with_nodes(cfg) if src(c.func) == "self.txn.add"]
    dels = [n for (n, c) in calls_with_nodes(cfg) if src(c.func) in ("self.txn.delete_exact", "self.txn.delete")]
    dm = [tt for tt in cfg.nodes if tt.kind == "test" and atoms(normalise_compare(tt.ast.test)) == [("self.delete_mode", "truthy", "")]]
    for d in dels:
        c = [c for (n, c) in calls_with_nodes(cfg) if n is d and src(c.func).startswith("self.txn.delete")][0]
        rep.check(src(c.func) == "self.txn.delete_exact" and any(cfg.edge_dominated(d.id, {(tt.id, "t")}) for tt in dm), "R-13.2", PM, where(pm, c),
                  "IXFR deletions use delete_exact under delete_mode", "IXFR deletion does not use delete_exact (a diff against the wrong base version is applied silently)", stmt="delete-exact")
    for a in adds:
        rep.check(any(cfg.edge_dominated(a.id, {(tt.id, "f")}) for tt in dm), "R-13.2", PM, where(pm, a.ast), "additions only outside delete_mode", "records are added while in delete_mode", stmt="add-side")
    rep.floor("R-13.2-mutations", len(adds) + len(dels), 2)
    # out-of-zone and after-final-SOA guards dominate every mutation in the loop
    muts = [n for (n, c) in calls_with_nodes(cfg) if src(c.func) in ("self.txn.add", "self.txn.delete_exact", "self.txn.delete", "self.txn.replace")]
    done_tests = [tt for tt in cfg.nodes if tt.kind == "test" and isinstance(tt.ast, ast.If) and atoms(normalise_compare(tt.ast.test)) == [("self.done", "truthy", "")]]
    done_guard = {(tt.id, "f") for tt in done_tests if any(isinstance(s, ast.Raise) for s in tt.ast.body)}
    for mnode in muts:
        rep.check(bool(done_guard) and cfg.edge_dominated(mnode.id, done_guard), "R-13.2", PM, where(pm, mnode.ast), "no record is applied after the final SOA (`if self.done: raise` first)",
                  "a record after the final SOA can be applied", stmt=f"after-final: {stmt_key(mnode.ast)}")
    sub = [tt for tt in cfg.nodes if tt.kind == "test" and atoms(normalise_compare(tt.ast.test)) == [("name.is_subdomain(self.origin)", "falsy", "")]]
    for mnode in adds + dels:
        rep.check(bool(sub) and cfg.edge_dominated(mnode.id, {(tt.id, "f") for tt in sub}), "R-13.2", PM, where(pm, mnode.ast), "out-of-zone owner names are skipped before any effect",
                  "an owner name outside the zone can reach add/delete", stmt=f"in-zone: {stmt_key(mnode.ast)}")
    # serial arithmetic
    ser = [tt for tt in cfg.nodes if tt.kind == "test" and any(a == A("dns.serial.Serial(soa.serial)", "<", "self.serial") for a in atoms(normalise_compare(tt.ast.test)))]
    rb = [n for n in cfg.nodes if isinstance(n.ast, ast.Raise) and "SerialWentBackwards" in src(n.ast)]
    rep.check(len(ser) == 1 and len(rb) == 1 and cfg.edge_dominated(rb[0].id, {(ser[0].id, "t")}), "R-13.2", PM, where(pm, pm.node),
              "serial regression detected with RFC 1982 arithmetic (dns.serial.Serial)", "serial regression test no longer uses dns.serial.Serial(...) < self.serial", stmt="serial-compare")
    # final SOA condition
    fin = [tt for tt in cfg.nodes if tt.kind == "test" and isinstance(tt.ast, ast.If) and pat.match(pat.parse_expr("rdataset == self.soa_rdataset and (not self.incremental or self.delete_mode)"), tt.ast.test, pat.Env())]
    rep.check(len(fin) == 1, "R-13.2", PM, where(pm, pm.node), "end detection: SOA equals the first SOA and (AXFR or in delete mode)",
              "end-of-transfer condition changed", stmt="final-soa-condition")
    if fin:
        body = "\n".join(src(s) for s in fin[0].ast.body)
        rep.check(pat.has(fin[0].ast, "if self.expecting_SOA:\n    raise ...") and pat.has(fin[0].ast, "if self.incremental and self.serial != soa.serial:\n    raise ..."), "R-13.2", PM, where(pm, fin[0].ast),
                  "empty IXFR and wrong-final-serial are rejected before done", "empty-IXFR / final-serial checks missing at the final SOA", stmt="final-soa-checks")
        ixm = [n for n in ast.walk(pm.node) if isinstance(n, ast.If) and atoms(normalise_compare(n.test)) == [A("soa.serial", "!=", "self.serial")]]
        rep.check(bool(ixm) and any(isinstance(s, ast.Raise) for s in ixm[0].body), "R-13.2", PM, where(pm, pm.node), "IXFR deletion set must start at the current serial",
                  "IXFR base serial mismatch is no longer rejected", stmt="base-serial")
    # header checks precede any effect
    first_mut = muts
    rc = [n for n in cfg.nodes if isinstance(n.ast, ast.Raise) and "TransferError" in src(n.ast)]
    rep.check(bool(rc) and all(not (cfg.reachable([cfg.entry.id], blocked=[t.id for t in cfg.nodes if t.kind == 'test' and 'rcode' in src(t.ast.test)]) & {m.id}) for m in first_mut),
              "R-13.2", PM, where(pm, pm.node), "rcode is checked before anything is applied", "records can be applied before the rcode check", stmt="rcode-first")
    udp = [n for n in cfg.nodes if isinstance(n.ast, ast.Raise) and "unexpected end of UDP IXFR" in src(n.ast)]
    rep.check(bool(udp), "R-13.2", PM, where(pm, pm.node), "unfinished UDP IXFR raises", "unfinished UDP IXFR no longer raises", stmt="udp-end")

    # ---------------------------------------------------------------- R-13.3
    for qn in ("dns.query._inbound_xfr", "dns.asyncquery._inbound_xfr"):
        f = pat.canon_func(model.func(qn), roles.INBOUND_XFR)
        c2 = CFG(f.node)
        pcs = [(n, c) for (n, c) in calls_with_nodes(c2) if isinstance(c.func, ast.Attribute) and c.func.attr == "process_message"]
        okk = bool(pcs) and all(any(src(w.context_expr).startswith("dns.xfr.Inbound(") for w in n.withs) for (n, c) in pcs)
        rep.check(okk, "R-13.3", qn, where(f, f.node), "process_message runs inside `with dns.xfr.Inbound(...)` (rollback on any exception)",
                  "the transfer loop is not inside `with dns.xfr.Inbound(...)`: an exception leaves the write transaction open", stmt="with-inbound")
        fw = [c for (n, c) in calls_with_nodes(c2) if src(c.func) == "dns.message.from_wire"]
        want = {"xfr": "True", "one_rr_per_rrset": "is_ixfr", "multi": "not is_udp", "tsig_ctx": "tsig_ctx", "origin": "origin", "keyring": "query.keyring", "request_mac": "query.mac"}
        for c in fw:
            kws = {k.arg: src(k.value) for k in c.keywords}
            for k, v in want.items():
                rep.check(kws.get(k) == v, "R-13.3", qn, where(f, c), f"from_wire({k}={v})", f"from_wire is called with {k}={kws.get(k)} instead of {v}", stmt=f"from_wire {k}")
        rep.check(len(fw) == 1, "R-13.3", qn, where(f, f.node), "one parse site", "parse site missing or duplicated", stmt="from_wire-site")
        ix = [src(n.value) for n in ast.walk(f.node) if isinstance(n, ast.Assign) and src(n.targets[0]) == "is_ixfr"]
        rep.check(ix == ["rdtype == dns.rdatatype.IXFR"], "R-13.3", qn, where(f, f.node), "is_ixfr = (rdtype == IXFR)", f"is_ixfr computed as {ix}", stmt="is_ixfr")
        th = [stmt_key(n) for n in ast.walk(f.node) if isinstance(n, ast.Assign) and src(n.targets[0]) == "tsig_ctx"]
        rep.check("tsig_ctx = r.tsig_ctx" in th, "R-13.3", qn, where(f, f.node), "the TSIG context is threaded from message to message", "multi-message TSIG context is not carried forward", stmt="tsig-thread")
    # the wire reader keeps every RR after the first SOA of a transfer message in its own RRset (order matters to the state machine)
    gs = pat.canon_func(model.func("dns.message._WireReader._get_section"), roles.GET_SECTION)
    fu = [n for n in ast.walk(gs.node) if isinstance(n, ast.Assign) and any(src(t) == "force_unique" for t in n.targets)]
    loop = [n for n in gs.node.body if isinstance(n, ast.For)]
    okk = len(fu) == 2 and len(loop) == 1
    if okk:
        before = [n for n in fu if n.lineno < loop[0].lineno]
        inside = [n for n in fu if n.lineno >= loop[0].lineno]
        okk = len(before) == 1 and src(before[0].value) == "self.one_rr_per_rrset" and len(inside) == 1 and src(inside[0].value) == "True"
        if okk:
            guards = [n for n in ast.walk(loop[0]) if isinstance(n, ast.If) and any(x is inside[0] for x in n.body)]
            okk = len(guards) == 1 and set(atoms(normalise_compare(guards[0].test))) == {("self.message.xfr", "truthy", ""), ("rdtype", "==", "dns.rdatatype.SOA")} and normalise_compare(guards[0].test)[0] == "and"
    rep.check(okk, "R-13.3", gs.qualname, where(gs, gs.node), "force_unique starts as one_rr_per_rrset and is switched on for the rest of the section at the first SOA of an xfr message (never switched off)",
              "force_unique is recomputed per record: after the first SOA of a transfer message later records can be merged into earlier RRsets, hiding surplus records from the transfer state machine", stmt="force-unique-sticky")
    fr = [c for c in ast.walk(gs.node) if isinstance(c, ast.Call) and src(c.func) == "self.message.find_rrset"]
    rep.check(len(fr) == 1 and src(fr[0].args[-1]) == "force_unique", "R-13.3", gs.qualname, where(gs, gs.node), "find_rrset receives force_unique", "find_rrset no longer receives force_unique", stmt="force-unique-used")
    for qn in ("dns.query.inbound_xfr", "dns.asyncquery.inbound_xfr"):
        f = model.func(qn)
        hs = [h for h in ast.walk(f.node) if isinstance(h, ast.ExceptHandler) and h.type is not None and src(h.type).endswith("UseTCP")]
        okk = bool(hs) and all(" ".join(src(h).split()).endswith("if udp_mode == UDPMode.ONLY: raise") for h in hs)
        rep.check(okk, "R-13.3", qn, where(f, f.node), "UseTCP falls through to the TCP attempt unless UDP-only was requested", "UseTCP is no longer mapped to a TCP retry", stmt="usetcp-retry")
    rep.assume("Transaction.commit/rollback semantics are those decided under C10; a failing commit() itself raises before anything is published")
    # ---------------------------------------------------------------- R-13.4
    n_opt = 0
    for f in sorted(model.all_functions(), key=lambda g: g.qualname):
        if not f.module.name.startswith(("dns.xfr",)):
            continue
        names = optional_numeric_params(f) | {p_ for p_ in f.params() if p_ in ("serial", "timeout", "lifetime", "expiration")}
        if not names:
            continue
        n_opt += len(names)
        for (n_, nm, how) in truthiness_uses(f.node, names):
            rep.bad("R-13.4", f.qualname, where(f, n_), f"`{nm}` is an optional number and 0 is a legitimate value, but it is {how}: 0 is taken for 'absent' (an IXFR from serial 0 is refused)", stmt=f"presence {nm}")
    rep.floor("R-13.4-optional", n_opt, 1)
    rep.ok("R-13.4", "dns.xfr", "-", f"{n_opt} optional numeric parameters are only ever tested with `is None` / `is not None`", stmt="presence-tests")
    rep.share(model, "C19", {"R-19.1"}, "R-13.6", "Inbound applies the transfer to a writable version that is a copy-on-write clone of the published B-tree")
    rep.share(model, "C03", {"R-03.4"}, "R-13.6", "every transfer message is parsed by the wire reader, which files RRSIGs of one owner by covered type", only=lambda o: o.stmt in ("index-key", "question-unique") or o.stmt.startswith("hook"))
    for qn in ("dns.query._inbound_xfr", "dns.asyncquery._inbound_xfr"):
        fx = model.func(qn)
        loops8 = [l_ for l_ in ast.walk(fx.node) if isinstance(l_, ast.While)]
        bad8 = []
        for l_ in loops8:
            for n in ast.walk(l_):
                if isinstance(n, ast.If) and any(isinstance(b, ast.Raise) for b in n.body):
                    at8 = atoms(normalise_compare(n.test))
                    if any(a[0].endswith(".had_tsig") for a in at8) and not any(a[0] == "done" for a in at8):
                        bad8.append(n)
        rep.check(bool(loops8) and not bad8, "R-13.8", qn, where(fx, bad8[0] if bad8 else fx.node), "no per-message TSIG requirement inside the receive loop",
                  f"`{src(bad8[0].test)[:60]}` refuses, inside the receive loop, any message without a TSIG: a valid transfer with an unsigned intermediate message (RFC 8945 5.3.1) is rejected and the zone "
                  "never converges" if bad8 else "receive loop not found", stmt="unsigned-intermediate-accepted")
    rep.share(model, "C09", {"R-09.3"}, "R-13.9", "Inbound stores every record through txn.add/replace -> Node._append_rdataset", only=lambda o: o.stmt in ("node-filter", "node-filter-tables", "classify"))
    rep.share(model, "C20", {"R-20.2"}, "R-13.7", "each IXFR step is applied to a writable version cloned from the newest committed version", only=lambda o: o.stmt in ("newest-base", "same-base"))
    rep.share(model, "C14", {"R-14.5"}, "R-13.6", "a signed transfer may carry unsigned intermediate messages (RFC 8945 5.3.1); the wire reader feeds each of them whole into the running TSIG context, else the next signed message fails BadSignature and the zone never converges")
    rep.share(model, "C12", {"R-12.3"}, "R-13.7", "Inbound opens txn_manager.writer(); a stale admission event blocks every later transfer for ever")
    rep.share(model, "C10", {"R-10.5", "R-10.9", "R-10.15"}, "R-13.5", "IXFR deletions address an rdataset by (name, rdtype, covers); a dropped component leaves stale RRSIGs in the zone")
    rep.meta["explanation"] = (
        "Commit-last typestate on the CFG of Inbound.process_message and of every driver (with the boolean result propagated through the loop test), "
        "plus dominance rules for the guards that must precede any zone mutation. Convergence to the server's version for all streams is NOT decided.")


def _blocks(fn):
    out = []
    for n in ast.walk(fn):
        for fld in ("body", "orelse", "finalbody"):
            b = getattr(n, fld, None)
            if isinstance(b, list) and b and isinstance(b[0], ast.stmt):
                out.append(b)
    return out


WITNESSES = [
    {"id": "c13-delete-rdataset-ignores-covers", "rule": "R-13.5", "file": "dns/zone.py", "expect": "fires",
     "old": "        node, name = self._maybe_cow_with_name(name)\n        node.delete_rdataset(self.zone.rdclass, rdtype, covers)\n        if len(node) == 0:\n            del self.nodes[name]\n\n\n@dns.immutable.immutable",
     "new": "        node, name = self._maybe_cow_with_name(name)\n        node.delete_rdataset(self.zone.rdclass, rdtype)\n        if len(node) == 0:\n            del self.nodes[name]\n\n\n@dns.immutable.immutable"},
    {"id": "c13-serial-zero-taken-for-absent", "rule": "R-13.4", "file": "dns/xfr.py", "expect": "fires",
     "old": "            if serial is None:\n                raise ValueError(\"a starting serial must be supplied for IXFRs\")", "new": "            if not serial:\n                raise ValueError(\"a starting serial must be supplied for IXFRs\")"},
    {"id": "c13-commit-in-loop", "rule": "R-13.1", "file": "dns/xfr.py", "expect": "fires",
     "old": "                    self.txn.replace(name, rdataset)\n                    self.done = True\n", "new": "                    self.txn.replace(name, rdataset)\n                    self.txn.commit()\n                    self.txn = None\n                    self.done = True\n"},
    {"id": "c13-delete-not-exact", "rule": "R-13.2", "file": "dns/xfr.py", "expect": "fires",
     "old": "self.txn.delete_exact(name, rdataset)", "new": "self.txn.delete(name, rdataset)"},
    {"id": "c13-no-rollback-on-exit", "rule": "R-13.2", "file": "dns/xfr.py", "expect": "fires",
     "old": "        if self.txn:\n            self.txn.rollback()\n        return False", "new": "        return False"},
    {"id": "c13-serial-plain-int", "rule": "R-13.2", "file": "dns/xfr.py", "expect": "fires",
     "old": "elif dns.serial.Serial(soa.serial) < self.serial:", "new": "elif soa.serial < self.serial:"},
    {"id": "c13-fallback-no-rollback", "rule": "R-13.2", "file": "dns/xfr.py", "expect": "fires",
     "old": "                self.txn.rollback()\n                self.txn = self.txn_manager.writer(True)", "new": "                self.txn = self.txn_manager.writer(True)"},
    {"id": "c13-out-of-zone-applied", "rule": "R-13.2", "file": "dns/xfr.py", "expect": "fires",
     "old": "            if not name.is_subdomain(self.origin):\n                continue\n", "new": ""},
    {"id": "c13-no-one-rr", "rule": "R-13.3", "file": "dns/query.py", "expect": "fires",
     "old": "                one_rr_per_rrset=is_ixfr,\n            )\n            done = inbound.process_message(r)", "new": "            )\n            done = inbound.process_message(r)"},
    {"id": "c13-async-not-in-with", "rule": "R-13.3", "file": "dns/asyncquery.py", "expect": "fires",
     "old": "    with dns.xfr.Inbound(txn_manager, rdtype, serial, is_udp) as inbound:\n        done = False", "new": "    inbound = dns.xfr.Inbound(txn_manager, rdtype, serial, is_udp)\n    if True:\n        done = False"},
    {"id": "c13-answers-after-final-ignored", "rule": "R-13.2", "file": "dns/xfr.py", "expect": "fires",
     "old": "            if self.done:\n                raise dns.exception.FormError(\"answers after final SOA\")\n", "new": ""},
    {"id": "c13-force-unique-per-record", "rule": "R-13.3", "file": "dns/message.py", "expect": "fires",
     "old": "                if self.message.xfr and rdtype == dns.rdatatype.SOA:\n                    force_unique = True", "new": "                force_unique = self.one_rr_per_rrset or (\n                    self.message.xfr and rdtype == dns.rdatatype.SOA\n                )"},
    {"id": "c13-twin-commit-helper-order", "rule": "R-13.1", "file": "dns/xfr.py", "expect": "silent",
     "old": "        if self.done and self.txn is not None:", "new": "        if self.txn is not None and self.done:"},
]
