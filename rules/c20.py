"""C20 B-tree zone derived state: flag re-derivation completeness, flag/index pairing, ordered containers."""
from __future__ import annotations

import ast

from engine.cfg import CFG, normalise_compare, atoms
from engine.dataflow import ReachingDefs
from engine.model import src, stmt_key, dotted
from engine import pat
from engine.util import own_nodes, calls_with_nodes, where

RULES = {
    "R-20.8": "adopted from C10: the copy-on-write helper of the base WritableVersion keeps its shape - fresh node, copied rdatasets, stored under and returned with the validated name (R-10.5)",
    "R-20.7": "adopted from C06: Name.fullcompare counts the labels in common before it returns any relation but NONE (bounds() reads that count)",
    "R-20.6": "storing a rdataset can REMOVE the NS rdataset of a node (Node.replace_rdataset evicts NS when a CNAME is stored, CNAME exclusivity): put_rdataset re-derives the delegation state afterwards - when the node was a delegation and holds no NS any more, the flag, the index entry and the subtree's GLUE flags go, exactly as in delete_rdataset(NS)",
    "R-20.5": "the delegation index is a B-tree shared copy-on-write between versions: it stays equal to the flags of ITS version only if no shared node is ever written (C19 R-19.1 adopted)",
    "R-20.1": "every site in btreezone.WritableVersion that obtains a fresh node re-derives or copies every NodeFlags member",
    "R-20.2": "the DELEGATION flag, the delegation index and the GLUE flags of the subtree change together (add/discard paired with the flag and update_glue_flag)",
    "R-20.4": "bounds(): both bounds skip occluded (glue) names, and no `x[-n:]` slice is taken with an n that may be 0 (it would yield the whole name instead of the empty one: the apex of a relativized zone)",
    "R-20.3": "map and index are B-tree containers (canonical order by construction); keys are validated; helper predicates have the documented shape",
}
WV = "dns.btreezone.WritableVersion"

# (function, flag) -> reason why the flag cannot apply at that site
EXCEPTIONS = {
    ("dns.btreezone.WritableVersion.update_glue_flag", "ORIGIN"): "the loop visits only names that are proper subdomains of a delegation point, and a delegation point is never the apex (put_rdataset requires `not is_origin_or_glue`)",
}


def _flag_ops(fn_node, enum_members):
    """flags handled in a function: {member: set(ops)}; '*' when the whole flags word is copied."""
    out = {}
    for n in ast.walk(fn_node):
        tgt, val, op = None, None, None
        if isinstance(n, ast.AugAssign) and isinstance(n.target, ast.Attribute) and n.target.attr == "flags":
            tgt, val, op = n.target, n.value, type(n.op).__name__
        elif isinstance(n, ast.Assign) and any(isinstance(t, ast.Attribute) and t.attr == "flags" for t in n.targets):
            tgt, val, op = n.targets[0], n.value, "="
        if tgt is None:
            continue
        names = {m.attr for m in ast.walk(val) if isinstance(m, ast.Attribute) and isinstance(m.value, ast.Name) and m.value.id == "NodeFlags" and m.attr in enum_members}
        if op == "=" and isinstance(val, ast.Attribute) and val.attr == "flags":
            out.setdefault("*", set()).add("copy")
        for nm in names:
            out.setdefault(nm, set()).add(op)
    return out


def check_negative_zero_slices(model, rep, rule, only_prefix=None):
    """`x[-n:]` with n == 0 is the WHOLE sequence and `x[:-n]` with n == 0 is the EMPTY one - the opposite of what "the last n" / "all but the
    last n" mean.  Every such slice with a non-constant n must be reached only when n != 0 (dominating test on n)."""
    n_neg = 0
    for f in sorted(model.all_functions(), key=lambda g: g.qualname):
        if only_prefix and not f.qualname.startswith(only_prefix):
            continue
        negs = []
        for x in ast.walk(f.node):
            if isinstance(x, ast.Subscript) and isinstance(x.slice, ast.Slice) and x.slice.step is None:
                lo, up = x.slice.lower, x.slice.upper
                if up is None and isinstance(lo, ast.UnaryOp) and isinstance(lo.op, ast.USub) and not isinstance(lo.operand, ast.Constant):
                    negs.append((x, lo.operand, "lower"))
                elif lo is None and isinstance(up, ast.UnaryOp) and isinstance(up.op, ast.USub) and not isinstance(up.operand, ast.Constant):
                    negs.append((x, up.operand, "upper"))
        if not negs:
            continue
        cfg = CFG(f.node, implicit_exc=False)
        for (x, opnd, side) in negs:
            n_neg += 1
            e = src(opnd)
            node = next((n for n in cfg.stmts() if any(y is x for y in own_nodes(n.ast))), None)
            okk = False
            if node is not None:
                for t_ in cfg.nodes:
                    if t_.kind != "test":
                        continue
                    nc = normalise_compare(t_.ast.test)
                    if nc[0] != "atom":
                        continue
                    a = nc[1]
                    if a[0] != e:
                        continue
                    if (a[1], a[2]) in (("==", "0"), ("falsy", ""), ("<=", "0"), ("<", "1")) and cfg.edge_dominated(node.id, {(t_.id, "f")}):
                        okk = True
                    if (a[1], a[2]) in ((">", "0"), ("truthy", ""), (">=", "1"), ("!=", "0")) and cfg.edge_dominated(node.id, {(t_.id, "t")}):
                        okk = True
            what = "the WHOLE sequence, not the empty one" if side == "lower" else "the EMPTY sequence, not the whole one"
            rep.check(okk, rule, f.qualname, where(f, x), f"`{src(x)[:50]}` is reached only with `{e}` != 0",
                      f"`{src(x)[:60]}`: when `{e[:40]}` is 0 the slice is {what} (e.g. the apex of a relativized zone, or relativizing to the empty origin)",
                      stmt="neg-slice " + src(x)[:40])
    return n_neg


def run(model, rep, tier):
    flags_cls = model.cls("dns.btreezone.NodeFlags")
    members = {k for k, v in model.enum_members(flags_cls).items() if isinstance(v, int)}
    rep.floor("R-20.1-enum", len(members), 3)
    wv = model.cls(WV)
    # ---------------------------------------------------------------- R-20.1
    sites = 0
    for name, f in sorted(wv.methods.items()):
        fresh = [c for c in ast.walk(f.node) if isinstance(c, ast.Call) and (src(c.func).endswith("node_factory") or src(c.func) == "super()._maybe_cow_with_name")]
        if not fresh or name == "__init__":
            continue
        sites += 1
        ops = _flag_ops(f.node, members)
        for m in sorted(members):
            con = f.qualname
            if "*" in ops or m in ops:
                rep.ok("R-20.1", con, where(f, fresh[0]), f"fresh node: {m} is {'copied' if '*' in ops else 're-derived'} ({', '.join(sorted(ops.get(m, ops.get('*', []))))})", stmt=f"fresh node: {m}")
            elif (con, m) in EXCEPTIONS:
                rep.excepted("R-20.1", con, where(f, fresh[0]), EXCEPTIONS[(con, m)], stmt=f"fresh node: {m}")
            else:
                rep.bad("R-20.1", con, where(f, fresh[0]), f"a fresh node replaces the old one here but NodeFlags.{m} is neither copied nor re-derived: the flag silently drops while the index keeps the name",
                        stmt=f"fresh node: {m}")
    rep.floor("R-20.1", sites, 2)
    # in _maybe_cow_with_name each re-derivation must use the right predicate
    mc = model.func(f"{WV}._maybe_cow_with_name")
    cfg = CFG(mc.node, implicit_exc=False)
    want = {"ORIGIN": "self._is_origin(name)", "GLUE": "self.delegations.is_glue(name)", "DELEGATION": "name in self.delegations"}
    for n in cfg.nodes:
        if isinstance(n.ast, ast.AugAssign) and isinstance(n.ast.target, ast.Attribute) and n.ast.target.attr == "flags":
            fl = [m.attr for m in ast.walk(n.ast.value) if isinstance(m, ast.Attribute) and src(m.value) == "NodeFlags"]
            for flg in fl:
                if flg not in want:
                    continue
                tests = [t for t in cfg.nodes if t.kind == "test" and " ".join(src(t.ast.test).split()) == want[flg]]
                okk = bool(tests) and cfg.edge_dominated(n.id, {(t.id, "t") for t in tests}) and isinstance(n.ast.op, ast.BitOr)
                rep.check(okk, "R-20.1", mc.qualname, where(mc, n.ast), f"{flg} set exactly under `{want[flg]}`", f"{flg} is not set under `{want[flg]}`", stmt=f"derive {flg}")
    # version classes consult their OWN origin: the zone's origin is None until the first commit (origin taken from $ORIGIN while loading)
    n_zo = 0
    for ci in [c for c in model.classes.values() if c.module.name in ("dns.btreezone", "dns.zone") and any(b.name == "Version" for b in c.mro)]:
        for mname, mf in ci.methods.items():
            for x in ast.walk(mf.node):
                if isinstance(x, ast.Attribute) and x.attr == "origin" and src(x.value) in ("self.zone", "zone"):
                    n_zo += 1
                    okk = mname == "__init__" and ci.qualname == "dns.zone.WritableVersion"
                    rep.check(okk, "R-20.1", mf.qualname, where(mf, x), "the zone origin is only copied into the writable version at construction",
                              f"`{src(x)}` is read in a version method: during the initial load of a zone whose origin comes from $ORIGIN it is still None, so the apex is not recognised "
                              "(no ORIGIN flag; its NS makes it a delegation and every other name glue)", stmt="zone-origin-read")
    rep.floor("R-20.1-zone-origin", n_zo, 1)
    io = model.func(f"{WV}._is_origin")
    t = " ".join(src(io.node).split())
    rep.check(pat.ends_with(io.node, "if self.zone.relativize:\n    return name == dns.name.empty\nelse:\n    return name == self.origin"), "R-20.1", io.qualname, where(io, io.node),
              "_is_origin compares with empty (relativized) or the zone origin", "_is_origin no longer compares with (empty | origin)", stmt="is-origin")

    # ---------------------------------------------------------------- R-20.2
    n_pairs = 0
    for name, f in sorted(wv.methods.items()):
        for blk in _blocks(f.node):
            ks = [stmt_key(s) for s in blk]
            for s in blk:
                k = stmt_key(s)
                if k == "self.delegations.add(name)":
                    n_pairs += 1
                    okk = "self.update_glue_flag(name, True)" in ks
                    cfgf = CFG(f.node, implicit_exc=False)
                    nd = cfgf.node_for(s)
                    setf = [n.id for n in cfgf.nodes if isinstance(n.ast, ast.AugAssign) and src(n.ast.target).endswith(".flags") and "NodeFlags.DELEGATION" in src(n.ast.value) and isinstance(n.ast.op, ast.BitOr)]
                    okk = okk and bool(setf) and cfgf.dominated_by_set(nd.id, setf)
                    rep.check(okk, "R-20.2", f.qualname, where(f, s), "index add paired with the DELEGATION flag and update_glue_flag(name, True)",
                              "delegations.add without (DELEGATION flag on the node and GLUE on the subtree)", stmt=k)
                if k == "self.delegations.discard(name)":
                    n_pairs += 1
                    okk = "self.update_glue_flag(name, False)" in ks
                    clears = any(kk.replace(" ", "") == "node.flags&=~NodeFlags.DELEGATION" for kk in ks)
                    # or the node itself is deleted right after (delete_node)
                    deleted = "del self.nodes[name]" in [stmt_key(x) for x in ast.walk(f.node) if isinstance(x, ast.Delete)] and f.name == "delete_node"
                    rep.check(okk and (clears or deleted), "R-20.2", f.qualname, where(f, s), "index discard paired with clearing DELEGATION (or deleting the node) and update_glue_flag(name, False)",
                              "delegations.discard without (clearing the DELEGATION flag / deleting the node, and clearing GLUE on the subtree)", stmt=k)
    rep.floor("R-20.2", n_pairs, 3)
    # every store/clear of the DELEGATION flag outside _maybe_cow_with_name is paired with the index
    for name, f in sorted(wv.methods.items()):
        if name == "_maybe_cow_with_name":
            continue
        for blk in _blocks(f.node):
            ks = [stmt_key(s) for s in blk]
            for s in blk:
                if isinstance(s, ast.AugAssign) and src(s.target).endswith(".flags") and "NodeFlags.DELEGATION" in src(s.value):
                    if isinstance(s.op, ast.BitOr):
                        okk = any("self.delegations.add(name)" in src(x) for x in blk)
                        rep.check(okk, "R-20.2", f.qualname, where(f, s), "setting DELEGATION is accompanied by the index add (guarded by `name not in self.delegations`)",
                                  "DELEGATION flag set without adding the name to the delegation index", stmt=stmt_key(s))
                    else:
                        okk = "self.delegations.discard(name)" in ks
                        rep.check(okk, "R-20.2", f.qualname, where(f, s), "clearing DELEGATION is accompanied by the index discard",
                                  "DELEGATION flag cleared without removing the name from the delegation index", stmt=stmt_key(s))
    # put_rdataset: NS at a non-origin, non-glue node makes a delegation
    pr = model.func(f"{WV}.put_rdataset")
    cfg = CFG(pr.node, implicit_exc=False)
    tests = [n for n in cfg.nodes if n.kind == "test" and isinstance(n.ast, ast.If)]
    okk = any(normalise_compare(t.ast.test)[0] == "and" and {a for a in atoms(normalise_compare(t.ast.test))} ==
              {("rdataset.rdtype", "==", "dns.rdatatype.NS"), ("node.is_origin_or_glue()", "falsy", "")} for t in tests)
    rep.check(okk, "R-20.2", pr.qualname, where(pr, pr.node), "delegation created iff NS and the node is neither origin nor glue",
              "the condition that creates a delegation is no longer `NS and not is_origin_or_glue()`", stmt="put-condition")
    dr = model.func(f"{WV}.delete_rdataset")
    cfg = CFG(dr.node, implicit_exc=False)
    tests = [n for n in cfg.nodes if n.kind == "test" and isinstance(n.ast, ast.If)]
    okk = any(normalise_compare(t.ast.test)[0] == "and" and set(atoms(normalise_compare(t.ast.test))) == {("rdtype", "==", "dns.rdatatype.NS"), ("name", "in", "self.delegations")} for t in tests)
    rep.check(okk, "R-20.2", dr.qualname, where(dr, dr.node), "delegation removed iff the NS rdataset of an indexed name is deleted",
              "the condition that removes a delegation is no longer `rdtype == NS and name in self.delegations`", stmt="delete-condition")
    dn = model.func(f"{WV}.delete_node")
    okk = "if node.is_delegation():" in src(dn.node) and "self.delegations.discard(name)" in src(dn.node) and "self.update_glue_flag(name, False)" in src(dn.node)
    rep.check(okk, "R-20.2", dn.qualname, where(dn, dn.node), "delete_node mirrors delete_rdataset for delegation points", "delete_node no longer un-delegates a deleted delegation point", stmt="delete-node-mirror")
    # update_glue_flag: visits exactly the proper subdomains following `name`, cows untouched nodes, stores updates after the walk
    ug = model.func(f"{WV}.update_glue_flag")
    t = src(ug.node)
    checks = [
        ("cursor.seek(name, False)", "starts after the delegation name"),
        ("if not ename.is_subdomain(name):", "stops at the first name outside the subtree"),
        ("if ename not in self.changed:", "cows nodes not yet changed in this version"),
        ("new_node.rdatasets.extend(node.rdatasets)", "copies the rdatasets into the fresh node"),
        ("self.changed.add(ename)", "records the name as changed"),
        ("node.flags |= NodeFlags.GLUE", "sets GLUE"),
        ("node.flags &= ~NodeFlags.GLUE", "clears GLUE"),
        ("for ename, node in updates:\n    self.nodes[ename] = node", "stores the updated nodes after the walk"),
    ]
    body = "\n".join(src(s) for s in ug.node.body)
    for frag, what in checks:
        rep.check(frag in body, "R-20.2", ug.qualname, where(ug, ug.node), f"update_glue_flag {what}", f"update_glue_flag no longer {what}", stmt=frag.split("\n")[0])
    cfg = CFG(ug.node, implicit_exc=False)
    tests = [n for n in cfg.nodes if n.kind == "test" and atoms(normalise_compare(n.ast.test)) == [("is_glue", "truthy", "")]]
    sets = [n for n in cfg.nodes if isinstance(n.ast, ast.AugAssign) and isinstance(n.ast.op, ast.BitOr) and "GLUE" in src(n.ast.value)]
    clrs = [n for n in cfg.nodes if isinstance(n.ast, ast.AugAssign) and isinstance(n.ast.op, ast.BitAnd) and "GLUE" in src(n.ast.value)]
    okk = len(tests) == 1 and len(sets) == 1 and len(clrs) == 1 and cfg.edge_dominated(sets[0].id, {(tests[0].id, "t")}) and cfg.edge_dominated(clrs[0].id, {(tests[0].id, "f")})
    rep.check(okk, "R-20.2", ug.qualname, where(ug, ug.node), "GLUE set iff is_glue", "GLUE set/cleared on the wrong side of is_glue", stmt="glue-direction")

    # ---------------------------------------------------------------- R-20.3
    z = model.cls("dns.btreezone.Zone")
    mf = z.assigns.get("map_factory")
    rep.check(mf is not None and "dns.btree.BTreeDict" in src(mf), "R-20.3", z.qualname, f"{z.file}:{z.node.lineno}", "node map is a BTreeDict (iteration is canonical order by construction)",
              "btreezone.Zone.map_factory is no longer a BTreeDict: names do not iterate in canonical order", stmt="map_factory")
    for attr, want in (("writable_version_factory", "WritableVersion"), ("immutable_version_factory", "ImmutableVersion"), ("node_factory", "Node")):
        v = z.assigns.get(attr)
        rep.check(v is not None and src(v) == want, "R-20.3", z.qualname, f"{z.file}:{z.node.lineno}", f"{attr} = {want}", f"{attr} is not the btreezone {want}", stmt=attr)
    dl = model.cls("dns.btreezone.Delegations")
    rep.check(any(b == "dns.btree.BTreeSet" for b in dl.bases), "R-20.3", dl.qualname, f"{dl.file}:{dl.node.lineno}", "delegation index is a BTreeSet", "delegation index is not a BTreeSet", stmt="index-type")
    gd = model.func("dns.btreezone.Delegations.get_delegation")
    t = src(gd.node)
    okk = "cursor.seek(name, before=False)" in t and "prev = cursor.prev()" in t and "is_subdomain = reln == dns.name.NameRelation.SUBDOMAIN" in t \
        and "if is_subdomain or reln == dns.name.NameRelation.EQUAL:" in t
    rep.check(okk, "R-20.3", gd.qualname, where(gd, gd.node), "get_delegation: greatest indexed name <= query, accepted iff the query is at or below it",
              "get_delegation no longer takes the predecessor-or-equal and tests SUBDOMAIN/EQUAL", stmt="get-delegation")
    ig = model.func("dns.btreezone.Delegations.is_glue")
    rets = [src(r.value) for r in ast.walk(ig.node) if isinstance(r, ast.Return)]
    rep.check(sorted(rets) == ["False", "is_subdomain"], "R-20.3", ig.qualname, where(ig, ig.node), "is_glue = strictly beneath a delegation (EQUAL is not glue)",
              f"is_glue returns {rets}: a delegation point itself would count as glue (or glue is missed)", stmt="is-glue")
    # keys validated: reuse the C10 key-provenance analysis on this class
    from rules import c10
    n_keys = 0
    for name, f in sorted(wv.methods.items()):
        if name == "__init__":
            continue
        cfg = CFG(f.node)
        rd = ReachingDefs(cfg, f.params())
        for n in cfg.stmts():
            for (kexpr, what) in c10._key_uses(n.ast):
                n_keys += 1
                kinds = c10._key_kinds(model, f, cfg, rd, kexpr, n, set())
                badk = sorted(k for k in kinds if not k.startswith("ok"))
                rep.check(not badk, "R-20.3", f.qualname, where(f, kexpr), f"key `{src(kexpr)}` in {what} validated", f"key `{src(kexpr)}` in {what} may be {', '.join(badk)}", stmt=f"{what} key {src(kexpr)}")
    rep.floor("R-20.3-keys", n_keys, 10)
    for name, f in sorted(wv.methods.items()):
        for c in ast.walk(f.node):
            if isinstance(c, ast.Call) and dotted(c.func) == "sorted":
                rep.bad("R-20.3", f.qualname, where(f, c), "sorted() in the B-tree version: order must come from the tree", stmt="sorted")
    # ------------------------------------------------------------ R-20.4
    n_neg = check_negative_zero_slices(model, rep, "R-20.4")
    rep.floor("R-20.4-negslices", n_neg, 2)
    bf = model.func("dns.btreezone.ImmutableVersion.bounds")
    ret = [c for c in ast.walk(bf.node) if isinstance(c, ast.Call) and src(c.func) == "Bounds"]
    if len(ret) != 1 or len(ret[0].args) < 3:
        rep.blind("R-20.4", bf.qualname, where(bf, bf.node), "Bounds(...) construction not recognised", stmt="bounds-shape")
    else:
        for idx, side in ((1, "left"), (2, "right")):
            arg = ret[0].args[idx]
            roots = {n.id for n in ast.walk(arg) if isinstance(n, ast.Name)}
            # follow one level of local definitions (right_key = right.key())
            for a in ast.walk(bf.node):
                if isinstance(a, ast.Assign) and any(isinstance(t_, ast.Name) and t_.id in roots for t_ in a.targets):
                    roots |= {n.id for n in ast.walk(a.value) if isinstance(n, ast.Name)}
            loops = [w for w in ast.walk(bf.node) if isinstance(w, ast.While)]
            skipped = False
            for w in loops:
                tests = [src(x) for x in ast.walk(w) if isinstance(x, ast.Call) and isinstance(x.func, ast.Attribute) and x.func.attr == "is_glue"]
                reass = {t_.id for a in ast.walk(w) if isinstance(a, ast.Assign) for t_ in a.targets if isinstance(t_, ast.Name)}
                if any(any(t.startswith(r + ".") for r in roots) for t in tests) and reass & roots:
                    skipped = True
            rep.check(skipped, "R-20.4", bf.qualname, where(bf, arg), f"the {side} bound is moved past glue names in a loop",
                      f"the {side} bound (`{src(arg)}`) is never tested with is_glue(): an occluded name beneath a zone cut can be returned as a bound", stmt=f"skip-glue {side}")
    # the index and the map start from the same base: both copy-on-write from the previous version, or (replacement) both empty
    wi = wv.methods["__init__"]
    cfg = CFG(wi.node, implicit_exc=False)

    def conds(n):
        out = []
        for t_ in cfg.nodes:
            if t_.kind == "test" and isinstance(t_.ast, ast.If):
                for k in ("t", "f"):
                    if cfg.edge_dominated(n.id, {(t_.id, k)}):
                        out.append((k, " ".join(src(t_.ast.test).split())))
        return sorted(out)
    cow = {}
    fresh_idx = []
    for n in cfg.stmts():
        a = n.ast
        if isinstance(a, (ast.Assign, ast.AnnAssign)) and isinstance(a.value, ast.Call):
            tgt = src(a.targets[0]) if isinstance(a, ast.Assign) else src(a.target)
            orig = [src(k.value) for k in a.value.keywords if k.arg == "original"]
            if tgt in ("self.nodes", "self.delegations"):
                if orig:
                    cow.setdefault(tgt, []).append((n, orig[0]))
                elif tgt == "self.delegations":
                    fresh_idx.append(n)
    if len(cow.get("self.nodes", [])) != 1 or len(cow.get("self.delegations", [])) != 1:
        rep.blind("R-20.2", wi.qualname, where(wi, wi.node), f"copy-on-write initialisation of nodes/delegations not recognised: { {k: len(v) for k, v in cow.items()} }", stmt="same-base")
    else:
        (nn, no), (dn, do) = cow["self.nodes"][0], cow["self.delegations"][0]
        rep.check(conds(nn) == conds(dn) and no.endswith(".nodes") and do.endswith(".delegations") and no.rsplit(".", 1)[0] == do.rsplit(".", 1)[0], "R-20.2", wi.qualname, where(wi, dn.ast),
                  f"map and delegation index are cloned from the same version under the same condition {conds(nn)}",
                  f"the delegation index is cloned from `{do}` under {conds(dn)} but the node map from `{no}` under {conds(nn)}: a replacement transaction starts with an empty map and the old cuts, "
                  "so names in the new content are flagged DELEGATION/GLUE by cuts that no longer exist", stmt="same-base")
        base = no.rsplit(".", 1)[0]
        bdefs = sorted({" ".join(src(a.value).split()) for a in ast.walk(wi.node) if isinstance(a, ast.Assign) and any(src(t_) == base for t_ in a.targets)})
        rep.check(bdefs == ["zone._versions[-1]"], "R-20.2", wi.qualname, where(wi, nn.ast), "a non-replacement writer is a copy-on-write clone of the NEWEST version (`zone._versions[-1]`)",
                  f"the copy-on-write base `{base}` is {bdefs}, not the newest version: with more than one retained version (an open reader, max_versions > 1) the writer starts from a stale snapshot "
                  "and its commit silently drops everything committed since", stmt="newest-base")
        rep.check(bool(fresh_idx) and all(conds(x) != conds(dn) for x in fresh_idx), "R-20.2", wi.qualname, where(wi, wi.node), "a replacement writer starts with an empty delegation index",
                  "no arm gives a replacement writer an empty delegation index", stmt="fresh-index")
    rep.share(model, "C10", {"R-10.5"}, "R-20.8", "btreezone.put_rdataset / delete_rdataset use the name returned by the base class's _maybe_cow_with_name as the key of the delegation index and as the root of the glue walk: it must be the validated spelling on every return path")
    rep.share(model, "C06", {"R-06.11"}, "R-20.7", "ImmutableVersion.bounds() takes the closest encloser from the number of common labels that Name.fullcompare returns (its third result)")
    rep.share(model, "C19", {"R-19.9"}, "R-20.5", "zone.keys() / txn.iterate_names() iterate the BTree through BTree.__iter__: a writer that adds or deletes names while it walks them relies on the iterating cursor being registered (and parked by the mutation)")
    rep.share(model, "C19", {"R-19.1", "R-19.6"}, "R-20.5", "WritableVersion clones version.delegations (a BTreeSet) and version.nodes; a rolled-back or superseded writer must leave the older version's index intact")
    # ---------------------------------------------------------------- R-20.6
    pr = model.func("dns.btreezone.WritableVersion.put_rdataset")
    c6 = CFG(pr.node, implicit_exc=False)
    puts = [n for (n, c) in calls_with_nodes(c6) if isinstance(c.func, ast.Attribute) and c.func.attr in ("replace_rdataset", "_append_rdataset")]
    discards = [n for (n, c) in calls_with_nodes(c6) if src(c.func) == "self.delegations.discard"]
    evict_aware = model.func("dns.node.Node._append_rdataset")
    evicts = "NodeKind" in src(evict_aware.node)
    if not puts:
        rep.blind("R-20.6", pr.qualname, where(pr, pr.node), "the `node.replace_rdataset(rdataset)` call was not found", stmt="ns-evicted")
    else:
        after = [d for d in discards if any(d.id in c6.reachable([p_.id]) for p_ in puts)]
        tests_ns = [t for t in c6.nodes if t.kind == "test" and "dns.rdatatype.NS" in src(t.ast.test) and ("get_rdataset" in src(t.ast.test) or "find_rdataset" in src(t.ast.test) or "rdatasets" in src(t.ast.test))]
        unflag = pat.has(pr.node, "node.flags &= ~NodeFlags.DELEGATION") and any(src(c.func) == "self.update_glue_flag" and len(c.args) == 2 and src(c.args[1]) == "False" for (n, c) in calls_with_nodes(c6))
        rep.check((not evicts) or (bool(after) and bool(tests_ns) and bool(unflag)), "R-20.6", pr.qualname, where(pr, puts[0].ast),
                  "after the store, a delegation whose NS rdataset was evicted is un-delegated (flag, index, subtree glue)",
                  "Node._append_rdataset can evict the NS rdataset (CNAME exclusivity), but put_rdataset never re-derives the delegation state after the store: `replace('sub', <CNAME>)` on a "
                  "delegation point leaves DELEGATION on a node without NS, its name in the index and GLUE on the subtree", stmt="ns-evicted")
    rep.meta["explanation"] = (
        "Exhaustiveness of flag re-derivation over the NodeFlags enum at every site that replaces a node, block-level pairing of flag/index/"
        "subtree updates, and shape rules for the helper predicates. bounds() results and nested-cut semantics are NOT decided (the nested-cut "
        "order dependence is listed as a known finding).")


def _blocks(fn):
    out = []
    for n in ast.walk(fn):
        for fld in ("body", "orelse", "finalbody"):
            b = getattr(n, fld, None)
            if isinstance(b, list) and b and isinstance(b[0], ast.stmt):
                out.append(b)
    return out


WITNESSES = [
    {"id": "c20-put-cname-keeps-delegation", "rule": "R-20.6", "file": "dns/btreezone.py", "expect": "fires",
     "old": "            node.flags &= ~NodeFlags.DELEGATION  # type: ignore\n            self.delegations.discard(name)\n            self.update_glue_flag(name, False)\n\n    def delete_rdataset(", "new": "            pass\n\n    def delete_rdataset("},
    {"id": "c20-writer-clones-oldest-version", "rule": "R-20.2", "file": "dns/btreezone.py", "expect": "fires",
     "old": "            version = zone._versions[-1]", "new": "            version = zone._versions[0]"},
    {"id": "c20-is-origin-uses-zone-origin", "rule": "R-20.1", "file": "dns/btreezone.py", "expect": "fires",
     "old": "            return name == self.origin", "new": "            return name == self.zone.origin"},
    {"id": "c20-closest-encloser-negative-zero-slice", "rule": "R-20.4", "file": "dns/btreezone.py", "expect": "fires",
     "old": "        _, closest_encloser = name.split(\n            max(left_comparison[2], right_comparison[2])\n        )\n",
     "new": "        common = max(left_comparison[2], right_comparison[2])\n        closest_encloser = dns.name.Name(name[-common:])\n"},
    {"id": "c20-twin-closest-encloser-guarded-slice", "rule": "R-20.4", "file": "dns/btreezone.py", "expect": "silent",
     "old": "        _, closest_encloser = name.split(\n            max(left_comparison[2], right_comparison[2])\n        )\n",
     "new": "        common = max(left_comparison[2], right_comparison[2])\n        if common > 0:\n            closest_encloser = dns.name.Name(name[-common:])\n        else:\n            closest_encloser = dns.name.empty\n"},
    {"id": "c20-left-bound-glue", "rule": "R-20.4", "file": "dns/btreezone.py", "expect": "fires",
     "old": "        while left.value().is_glue():\n            # occluded names are not bounds; back up to their delegation point\n            left = c.prev()\n            assert left is not None\n", "new": ""},
    {"id": "c20-replacement-keeps-old-index", "rule": "R-20.2", "file": "dns/btreezone.py", "expect": "fires",
     "old": "            self.delegations = Delegations(original=version.delegations)  # type: ignore\n        else:\n            self.delegations = Delegations()\n",
     "new": "        else:\n            version = zone._versions[-1]\n        self.delegations = Delegations(original=version.delegations)  # type: ignore\n"},
    {"id": "c20-delegation-not-rederived", "rule": "R-20.1", "file": "dns/btreezone.py", "expect": "fires",
     "old": "        elif name in self.delegations:\n            node.flags |= NodeFlags.DELEGATION\n", "new": ""},
    {"id": "c20-glue-not-rederived", "rule": "R-20.1", "file": "dns/btreezone.py", "expect": "fires",
     "old": "        elif self.delegations.is_glue(name):\n            node.flags |= NodeFlags.GLUE\n        elif name in self.delegations:", "new": "        elif name in self.delegations:"},
    {"id": "c20-delete-node-no-glue-update", "rule": "R-20.2", "file": "dns/btreezone.py", "expect": "fires",
     "old": "                self.delegations.discard(name)\n                self.update_glue_flag(name, False)\n            del self.nodes[name]", "new": "                self.delegations.discard(name)\n            del self.nodes[name]"},
    {"id": "c20-put-no-index", "rule": "R-20.2", "file": "dns/btreezone.py", "expect": "fires",
     "old": "            if name not in self.delegations:\n                self.delegations.add(name)\n                self.update_glue_flag(name, True)", "new": "            if name not in self.delegations:\n                self.update_glue_flag(name, True)"},
    {"id": "c20-delete-keeps-flag", "rule": "R-20.2", "file": "dns/btreezone.py", "expect": "fires",
     "old": "            node.flags &= ~NodeFlags.DELEGATION  # type: ignore\n            self.delegations.discard(name)  # pyright: ignore", "new": "            self.delegations.discard(name)  # pyright: ignore"},
    {"id": "c20-glue-inverted", "rule": "R-20.2", "file": "dns/btreezone.py", "expect": "fires",
     "old": "            if is_glue:\n                node.flags |= NodeFlags.GLUE\n            else:\n                node.flags &= ~NodeFlags.GLUE", "new": "            if not is_glue:\n                node.flags |= NodeFlags.GLUE\n            else:\n                node.flags &= ~NodeFlags.GLUE"},
    {"id": "c20-is-glue-includes-equal", "rule": "R-20.3", "file": "dns/btreezone.py", "expect": "fires",
     "old": "        if cut is None:\n            return False\n        return is_subdomain", "new": "        if cut is None:\n            return False\n        return True"},
    {"id": "c20-twin-flag-order", "rule": "R-20.1", "file": "dns/btreezone.py", "expect": "silent",
     "old": "            node.flags &= ~NodeFlags.DELEGATION  # type: ignore\n            self.delegations.discard(name)  # pyright: ignore", "new": "            self.delegations.discard(name)  # pyright: ignore\n            node.flags &= ~NodeFlags.DELEGATION  # type: ignore"},
    {"id": "c20-plain-dict-map", "rule": "R-20.3", "file": "dns/btreezone.py", "expect": "fires",
     "old": "        dns.btree.BTreeDict[dns.name.Name, Node],\n    )\n    writable_version_factory", "new": "        dict,\n    )\n    writable_version_factory"},
]
