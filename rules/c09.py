"""C09 zone text round trip: writing under lossless styles cannot fail on the generic path, out-of-zone data is dropped before any
effect, the CNAME-exclusivity hook is unavoidable."""
from __future__ import annotations

import ast

from engine.cfg import CFG, normalise_compare, atoms
from engine.dataflow import ReachingDefs
from engine.model import src, stmt_key, dotted, walk_no_nested, AnalysisError
from engine import pat
from engine.util import own_nodes, calls_with_nodes, where

RULES = {
    "R-09.11": "every TTL the zone writer can print loads again: the TTL refusal on the path every record of a zone file takes (Transaction._rdataset_from_args), evaluated by the checker at MAX_TTL and MAX_TTL + 1, is False and True - the maximum itself is a legal TTL",
    "R-09.10": "$GENERATE modifiers default alike in every spelling: each branch of Reader._parse_modify that unpacks regex groups applies every empty-group default (`if v == \"\": v = ...`) that a sibling branch applies to the same variable (an unsigned `${5}` means `${+5}`); and chunked output covers the whole value: _wordbreak slices range(0, len(data), chunksize)",
    "R-09.9": "the tokenizer treats a parenthesised multi-line record like its one-line spelling: whenever Tokenizer.get consumes a delimiter and starts the token scan afresh (`continue` after `(`, `)`, a closing quote, a comment that ends inside parentheses) it first skips the whitespace that follows - only the opening quote, whose content is significant, does not",
    "R-09.8": "records of one owner and type merge while the file is read only if the lookup addresses the stored rdataset by its full (rdclass, rdtype, covers) key: calls that pass <x>.rdtype (or their own rdtype) also pass the matching covers (same rule as C10 R-10.9, run here directly because C10 adopts a C09 rule)",
    "R-09.7": "names inside records of a zone file are made relative to the ZONE origin even below a `$ORIGIN` line: every name-reading call of a text reader passes origin, relativize and relativize_to on (C05 R-05.6 adopted)",
    "R-09.6": "$INCLUDE saves the including file's reader state before any of it is changed and restores the same fields in the same order at the end of the included file (tokenizer, current origin, last owner, file, TTL state)",
    "R-09.5": "skipping an ignored (out-of-zone) line terminates at end of input as well as at end of line: token loops of the zone reader leave on EOF (shared with C04 R-04.6)",
    "R-09.4": "character-strings written by the zone writer are read back octet for octet: the \\DDD escape is written and read with 3 digits and accepted up to 255 (C05 R-05.2 adopted)",
    "R-09.1": "the zone writer never raises for a style that keeps all information: the generic (\\#) path encodes with the style's origin, the writer functions contain no explicit raise, and every boolean style knob only selects between two total formatting branches",
    "R-09.2": "an owner name read from the zone file reaches txn.add only through the `is_subdomain(zone_origin)` test; the out-of-zone arm eats the line and returns without any effect",
    "R-09.3": "the zone reader registers the CNAME/other-data check, and a put reaches the version only after every registered check ran",
}

WRITER_FUNCS = ["dns.zone.Zone.to_styled_file", "dns.zone.Zone._write_line", "dns.node.Node.to_styled_text", "dns.rdataset.Rdataset.to_styled_text", "dns.name.Name.to_styled_text",
                "dns.rdata.Rdata.to_generic", "dns.rdata.GenericRdata.to_styled_text"]



def check_generic_origin(model, rep, rule):
    """The generic (\\#) writer is given the style's origin (shared with C05: the generic text of a known type must be producible for every relativity choice)."""
    rs = pat.canon_func(model.func("dns.rdataset.Rdataset.to_styled_text"), [
        "__s = io.StringIO()", "__ntext = justify(__ntext, style.name_just)", "__rdclass = style.override_rdclass", "__rdclass_text = justify(__rdclass_text, style.rdclass_just)",
        "__rdtype_text = justify(__rdtype_text, style.rdtype_just)", "__ttl = justify(__ttl, style.ttl_just)", "for __rd in self:\n    __extra = ''\n    ...", "__rdata_text = __rd.to_styled_text(style)"])
    gcalls = [c for c in ast.walk(rs.node) if isinstance(c, ast.Call) and isinstance(c.func, ast.Attribute) and c.func.attr == "to_generic"]
    rep.floor(rule + "-generic-sites", len(gcalls), 1)
    for c in gcalls:
        args = [src(a) for a in c.args] + [f"{k.arg}={src(k.value)}" for k in c.keywords]
        okk = any(a in ("style.origin", "origin=style.origin") for a in args)
        rep.check(okk, rule, rs.qualname, where(rs, c), "to_generic() is given the style's origin (relative names can be encoded)",
                  "rd.to_generic() is called without the style's origin: writing a relativized zone with want_generic raises NeedAbsoluteNameOrOrigin", stmt="generic-origin")
    tg = model.func("dns.rdata.Rdata.to_generic")
    rep.check("self.to_wire(origin=origin)" in src(tg.node), rule, tg.qualname, where(tg, tg.node), "to_generic encodes with the origin it is given", "to_generic ignores its origin", stmt="to-generic")
    return rs


def run(model, rep, tier):
    # ---------------------------------------------------------------- R-09.1
    # locals are canonicalised by role (engine.pat.canon): the fragments below name roles, the code may spell them differently
    rs = check_generic_origin(model, rep, "R-09.1")
    n_r = 0
    for q in WRITER_FUNCS:
        f = model.func(q)
        raises = [n for n in walk_no_nested(f.node) if isinstance(n, ast.Raise)]
        n_r += 1
        rep.check(not raises, "R-09.1", q, where(f, raises[0] if raises else f.node), "no explicit raise on the writing path",
                  f"`{stmt_key(raises[0]) if raises else ''}`: the zone writer can refuse a zone it was given", stmt="no-raise")
    rep.floor("R-09.1", n_r, 6)
    # style knobs: every `if style.<knob>` in the writer has both arms total (no raise, no early return without output)
    knobs = set()
    for q in ("dns.rdataset.Rdataset.to_styled_text", "dns.zone.Zone.to_styled_file", "dns.node.Node.to_styled_text"):
        f = model.func(q)
        for n in walk_no_nested(f.node):
            if isinstance(n, ast.If):
                for a in ast.walk(n.test):
                    if isinstance(a, ast.Attribute) and src(a.value) == "style":
                        knobs.add(a.attr)
    rep.meta["style_knobs_seen"] = sorted(knobs)
    rep.floor("R-09.1-knobs", len(knobs), 10)
    zs = pat.canon_func(model.func("dns.zone.Zone.to_styled_file"), ["__origin_style = style.replace(origin=None)\n__l = '$ORIGIN ' + self.origin.to_styled_text(__origin_style)", "__names = self.keys()", "for __n in __names:"])
    t = " ".join(src(zs.node).split())
    rep.check("if style.sorted: names = list(self.keys()) names.sort() else: names = self.keys()" in t and "for n in names: l = self[n].to_styled_text(style, n)" in t, "R-09.1", zs.qualname, where(zs, zs.node),
              "every node is written exactly once, sorted or in map order", "node iteration in the zone writer changed", stmt="all-nodes")
    rep.check("origin_style = style.replace(origin=None) l = '$ORIGIN ' + self.origin.to_styled_text(origin_style)" in t, "R-09.1", zs.qualname, where(zs, zs.node), "$ORIGIN is written absolute",
              "$ORIGIN is relativized to itself", stmt="origin-directive")
    # $TTL is written exactly when the TTL column may be omitted: both sides must test `default_ttl is not None`
    zt = [n for n in ast.walk(zs.node) if isinstance(n, ast.If) and any("$TTL" in src(x) for x in n.body)]
    rt_src = " ".join(src(rs.node).split())
    okk = len(zt) == 1 and atoms(normalise_compare(zt[0].test)) == [("style.default_ttl", "is not", "None")] and "style.default_ttl is not None and self.ttl == style.default_ttl" in rt_src
    rep.check(okk, "R-09.1", zs.qualname, where(zs, zt[0] if zt else zs.node), "`$TTL n` is emitted under `default_ttl is not None`, the same condition under which records omit their TTL column",
              "the $TTL directive and the omission of the TTL column are decided by different conditions (e.g. truthiness vs `is not None`): with default_ttl=0 records lose their TTL on re-read", stmt="ttl-directive-condition")
    nd = pat.canon_func(model.func("dns.node.Node.to_styled_text"), ["for __rds in self.rdatasets:"])
    t = " ".join(src(nd.node).split())
    rep.check("for rds in self.rdatasets:" in t and "rds.to_styled_text" in t, "R-09.1", nd.qualname, where(nd, nd.node), "every rdataset of the node is written", "node writer skips rdatasets", stmt="all-rdatasets")
    # the "owner already printed" flag flips only after something was printed for this node
    ncfg = CFG(nd.node, implicit_exc=False)
    flips = [n for n in ncfg.nodes if isinstance(n.ast, ast.Assign) and "first_name_is_duplicate=True" in src(n.ast)]
    writes = [n for (n, c) in calls_with_nodes(ncfg) if isinstance(c.func, ast.Attribute) and c.func.attr == "write" and any("to_styled_text" in src(a) for a in c.args)]
    okk = len(flips) == 1 and len(writes) == 1 and ncfg.dominated_by_set(flips[0].id, [writes[0].id])
    rep.check(okk, "R-09.1", nd.qualname, where(nd, flips[0].ast if flips else nd.node), "first_name_is_duplicate is set only after an rdataset of this node was written",
              "first_name_is_duplicate can be set although nothing was written for the node yet (an empty first rdataset): with deduplicate_names all its records get a blank owner and re-attach to the previous node on re-read",
              stmt="dedup-after-print")
    t = " ".join(src(rs.node).split())
    rep.check("for rd in self:" in t and "s.write(f'{ntext}{ttl}{rdclass_text}{rdtype_text} {rdata_text}{extra}\\n')" in t, "R-09.1", rs.qualname, where(rs, rs.node),
              "every record is written with owner, ttl, class, type and rdata columns", "record line composition changed", stmt="record-line")
    rep.check("if style.want_generic: rdtype_text = f'TYPE{self.rdtype}'" in t and "elif style.want_generic: rdclass_text = f'CLASS{rdclass} '" in t, "R-09.1", rs.qualname, where(rs, rs.node),
              "generic style prints CLASSn/TYPEn mnemonics the reader accepts", "generic class/type mnemonics changed", stmt="generic-mnemonics")

    # ---------------------------------------------------------------- R-09.2
    n_add = 0
    n_rel = 0
    OWNER = ["self.txn.add(__name, ...)"]
    for q in ("dns.zonefile.Reader._rr_line", "dns.zonefile.Reader._generate_line"):
        f = pat.canon_func(model.func(q), OWNER)
        cfg = CFG(f.node, implicit_exc=False)
        adds = [(n, c) for (n, c) in calls_with_nodes(cfg) if src(c.func) == "self.txn.add"]
        guards = []
        for t_ in cfg.nodes:
            if t_.kind == "test" and isinstance(t_.ast, ast.If) and atoms(normalise_compare(t_.ast.test)) == [("name.is_subdomain(self.zone_origin)", "falsy", "")]:
                guards.append(t_)
        force = [n.id for n in cfg.nodes if isinstance(n.ast, ast.Assign) and src(n.ast) == "name = self.force_name"]
        for (n, c) in adds:
            n_add += 1
            if not (c.args and src(c.args[0]) == "name"):
                rep.blind("R-09.2", q, where(f, c), f"txn.add is called with owner `{src(c.args[0]) if c.args else ''}`", stmt="add-owner")
                continue
            r = cfg.reachable([cfg.entry.id], blocked=force, blocked_edges={(g.id, "f") for g in guards})
            rep.check(bool(guards) and n.id not in r, "R-09.2", q, where(f, c), "a file-derived owner reaches txn.add only on the in-zone side of `name.is_subdomain(self.zone_origin)`",
                      "an owner name taken from the file can reach txn.add without the in-zone test: out-of-zone records are loaded (or raise KeyError)", stmt="in-zone-gate")
        for g in guards:
            body = g.ast.body
            ks = [stmt_key(s) for s in body]
            effect = any(isinstance(x, ast.Call) and "txn" in src(x.func) for s in body for x in ast.walk(s))
            rep.check(ks == ["self._eat_line()", "return"] and not effect, "R-09.2", q, where(f, g.ast), "out-of-zone arm: eat the line and return, no effect",
                      f"out-of-zone arm is {ks}: the rest of the line is not skipped or something is applied", stmt="out-of-zone-arm")
            # nothing touches the transaction before the gate in this function
            before = [m for (m, c2) in calls_with_nodes(cfg) if "self.txn." in src(c2.func) and g.id in cfg.reachable([m.id]) and m.id not in cfg.reachable([y for (y, k) in cfg.succ[g.id]])]
            rep.check(not before, "R-09.2", q, where(f, g.ast), "no transaction call precedes the in-zone test", "the transaction is touched before the in-zone test", stmt="no-effect-before-gate")
        # the owner is made relative to the same origin the in-zone test used (the zone origin, not the current $ORIGIN)
        rel = [c for c in ast.walk(f.node) if isinstance(c, ast.Call) and isinstance(c.func, ast.Attribute) and c.func.attr == "relativize" and src(c.func.value) == "name"]
        gate_origins = {src(x.args[0]) for g in guards for x in ast.walk(g.ast.test) if isinstance(x, ast.Call) and isinstance(x.func, ast.Attribute) and x.func.attr == "is_subdomain" and x.args}
        for c in rel:
            rep.check(len(gate_origins) == 1 and c.args and src(c.args[0]) in gate_origins, "R-09.2", q, where(f, c), f"the owner is relativized against {sorted(gate_origins)}, the origin of the in-zone test",
                      f"the owner is relativized against `{src(c.args[0]) if c.args else ''}` but tested against {sorted(gate_origins)}: after a $ORIGIN below the zone origin the record is stored under another name "
                      "than its expansion / absolute spelling", stmt="owner-relativize-origin")
        n_rel += len(rel)
    rep.floor("R-09.2", n_add, 2)
    rep.floor("R-09.2-relativize", n_rel, 2)
    # an explicit owner is remembered BEFORE the in-zone test, so continuation lines of an out-of-zone owner are dropped too
    f = pat.canon_func(model.func("dns.zonefile.Reader._rr_line"), OWNER)
    cfg = CFG(f.node, implicit_exc=False)
    stores = [n for n in cfg.nodes if isinstance(n.ast, ast.Assign) and any(src(t) == "self.last_name" for t in n.ast.targets)]
    gates = [t_ for t_ in cfg.nodes if t_.kind == "test" and isinstance(t_.ast, ast.If) and atoms(normalise_compare(t_.ast.test)) == [("name.is_subdomain(self.zone_origin)", "falsy", "")]]
    okk = len(stores) >= 1 and len(gates) == 1 and all(gates[0].id in cfg.reachable([s_.id]) and s_.id not in cfg.reachable([y for (y, k) in cfg.succ[gates[0].id]]) for s_ in stores)
    rep.check(okk, "R-09.2", f.qualname, where(f, stores[0].ast if stores else f.node), "the owner of the line is recorded in last_name before the in-zone test",
              "last_name is updated only after the in-zone test: whitespace-led lines after an out-of-zone owner inherit the previous in-zone owner and foreign data is loaded", stmt="last-name-before-gate")
    # the force_name exemption really is caller-supplied
    rr = pat.canon_func(model.func("dns.zonefile.Reader._rr_line"), OWNER)
    t = " ".join(src(rr.node).split())
    rep.check("if self.force_name is not None: name = self.force_name" in t, "R-09.2", rr.qualname, where(rr, rr.node), "the only owner that bypasses the gate is the caller's force_name", "force_name handling changed", stmt="force-name")

    # ---------------------------------------------------------------- R-09.3
    init = model.func("dns.zonefile.Reader.__init__")
    cfg = CFG(init.node, implicit_exc=False)
    reg = [n.id for (n, c) in calls_with_nodes(cfg) if src(c.func) == "self.txn.check_put_rdataset" and [src(a) for a in c.args] == ["_check_cname_and_other_data"]]
    rep.check(bool(reg) and cfg.dominated_by_set(cfg.exit.id, reg), "R-09.3", init.qualname, where(init, init.node), "every Reader registers _check_cname_and_other_data on its transaction",
              "the zone reader no longer registers the CNAME/other-data check on every construction path", stmt="registers-check")
    cp = model.func("dns.transaction.Transaction.check_put_rdataset")
    rep.check("self._check_put_rdataset.append(check)" in src(cp.node), "R-09.3", cp.qualname, where(cp, cp.node), "registration appends to the list the put path iterates", "check registration changed", stmt="registration")
    ck = pat.canon_func(model.func("dns.transaction.Transaction._checked_put_rdataset"), ["for __check in self._check_put_rdataset:"])
    cfg = CFG(ck.node, implicit_exc=False)
    put = [n for (n, c) in calls_with_nodes(cfg) if src(c.func) == "self._put_rdataset"]
    loops = [n for n in cfg.nodes if n.kind == "for" and src(n.ast.iter) == "self._check_put_rdataset"]
    okk = len(put) == 1 and len(loops) == 1 and cfg.edge_dominated(put[0].id, {(loops[0].id, "f")}) and any(isinstance(s, ast.Expr) and src(s) == "check(self, name, rdataset)" for s in loops[0].ast.body)
    rep.check(okk, "R-09.3", ck.qualname, where(ck, ck.node), "all registered checks run (and may raise) before the put", "the put can happen before/without the registered checks", stmt="checks-before-put")
    txn = model.cls("dns.transaction.Transaction")
    for ci in [txn] + model.subclasses(txn):
        for name, f in ci.methods.items():
            for c in ast.walk(f.node):
                if isinstance(c, ast.Call) and isinstance(c.func, ast.Attribute) and c.func.attr == "_put_rdataset" and src(c.func.value) == "self":
                    rep.check(name == "_checked_put_rdataset", "R-09.3", f.qualname, where(f, c), "_put_rdataset reached through the checked wrapper", "_put_rdataset called directly: the CNAME check is bypassed", stmt="who-calls-put")
    cc = pat.canon_func(model.func("dns.zonefile._check_cname_and_other_data"), ["__node = txn.get_node(name)", "__node_kind = __node.classify()", "__rdataset_kind = dns.node.NodeKind.classify_rdataset(rdataset)"])
    t = " ".join(src(cc.node).split())
    okk = "if node_kind == dns.node.NodeKind.CNAME and rdataset_kind == dns.node.NodeKind.REGULAR: raise CNAMEAndOtherData" in t and \
          "elif node_kind == dns.node.NodeKind.REGULAR and rdataset_kind == dns.node.NodeKind.CNAME: raise CNAMEAndOtherData" in t and "node = txn.get_node(name)" in t
    rep.check(okk, "R-09.3", cc.qualname, where(cc, cc.node), "refuses regular data at a CNAME node and a CNAME at a regular node (neutral types pass)", "the CNAME/other-data predicate changed", stmt="cname-predicate")
    nk = model.func("dns.node.NodeKind.classify")
    t = " ".join(src(nk.node).split())
    rep.check("if _matches_type_or_its_signature(_cname_types, rdtype, covers): return NodeKind.CNAME elif _matches_type_or_its_signature(_neutral_types, rdtype, covers): return NodeKind.NEUTRAL else: return NodeKind.REGULAR" in t,
              "R-09.3", nk.qualname, where(nk, nk.node), "classification: CNAME / neutral (NSEC, NSEC3, KEY and their signatures) / regular", "node-kind classification changed", stmt="classify")
    ndm = model.modules["dns.node"]
    try:
        got_c = {int(v) for v in model.const(ndm, ndm.assigns["_cname_types"])}
        got_n = {int(v) for v in model.const(ndm, ndm.assigns["_neutral_types"])}
        rt = model.cls("dns.rdatatype.RdataType")
        mem = model.enum_members(rt)
        want_c, want_n = {mem["CNAME"]}, {mem["NSEC"], mem["NSEC3"], mem["KEY"]}
        names = {v: k for k, v in mem.items()}
        rep.check(got_c == want_c and got_n == want_n, "R-09.3", "dns.node._neutral_types", "dns/node.py", "CNAME-kind = {CNAME}; neutral = {NSEC, NSEC3, KEY} (RFC 4035 2.5, RFC 3007)",
                  f"the exclusivity tables are CNAME-kind {sorted(names.get(v, v) for v in got_c)}, neutral {sorted(names.get(v, v) for v in got_n)}; expected CNAME-kind ['CNAME'], neutral ['KEY', 'NSEC', 'NSEC3']: "
                  "a type that may sit next to a CNAME is evicted by it (or evicts it) silently, and which record survives depends on the order of the records", stmt="node-filter-tables")
    except (AnalysisError, KeyError, TypeError, ValueError) as e:
        rep.blind("R-09.3", "dns.node._neutral_types", "dns/node.py", f"the exclusivity tables could not be folded: {e}", stmt="node-filter-tables")
    rep.assume("equality of the re-read zone and agreement of equivalent spellings are behavioural and are not decided here")
    rep.share(model, "C05", {"R-05.4", "R-05.6", "R-05.13"}, "R-09.7", "the zone reader hands (current origin, relativize, zone origin) to dns.rdata.from_text for every record")
    rep.share(model, "C05", {"R-05.1t", "R-05.2"}, "R-09.4", "zone text is written with dns.rdata._escapify and read with Token.unescape_to_bytes")
    from rules.common import token_loops_end_at_eof
    token_loops_end_at_eof(model, rep, "R-09.5")
    ap = model.func("dns.node.Node._append_rdataset")
    e9 = pat.Env()
    okk = pat.has(ap.node, "if __kind == NodeKind.CNAME:\n    self.rdatasets = [__r for __r in self.rdatasets if NodeKind.classify_rdataset(__r) != NodeKind.REGULAR]\nelif __kind == NodeKind.REGULAR:\n"
                  "    self.rdatasets = [__r for __r in self.rdatasets if NodeKind.classify_rdataset(__r) != NodeKind.CNAME]", e9) \
        and pat.has(ap.node, "__kind = NodeKind.classify_rdataset(rdataset)", e9)
    rep.check(okk, "R-09.3", ap.qualname, where(ap, ap.node), "adding a CNAME-kind rdataset drops exactly the REGULAR ones and vice versa (NEUTRAL ones and the same kind stay)",
              "the node-level exclusivity filter changed: e.g. a CNAME and its own RRSIG(CNAME) evict each other, or regular data survives next to a CNAME", stmt="node-filter")
    # ---------------------------------------------------------------- R-09.6
    rd6 = model.func("dns.zonefile.Reader.read")
    saves = [c for c in ast.walk(rd6.node) if isinstance(c, ast.Call) and src(c.func) == "self.saved_state.append" and c.args and isinstance(c.args[0], ast.Tuple)]
    restores = [n for n in ast.walk(rd6.node) if isinstance(n, ast.Assign) and isinstance(n.targets[0], ast.Tuple) and isinstance(n.value, ast.Call) and src(n.value.func) == "self.saved_state.pop"]
    if len(saves) != 1 or len(restores) != 1:
        rep.blind("R-09.6", rd6.qualname, where(rd6, rd6.node), f"$INCLUDE save/restore not found ({len(saves)} saves, {len(restores)} restores)", stmt="include-state")
    else:
        saved = [src(e) for e in saves[0].args[0].elts]
        restored = [src(e) for e in restores[0].targets[0].elts]
        rep.check(saved == restored and len(saved) >= 8 and [src(a) for a in restores[0].value.args] in (["-1"], []), "R-09.6", rd6.qualname, where(rd6, restores[0]), f"restores {len(restored)} fields in the order they were saved (LIFO)",
                  f"the fields restored at the end of an included file {restored} are not the fields saved at $INCLUDE {saved} in the same order (or not popped from the end)", stmt="include-restore")
        blk = next((b for b in pat._bodies(rd6.node) if any(isinstance(st, ast.Expr) and st.value is saves[0] for st in b)), None)
        early = []
        if blk is not None:
            idx = next(i for i, st in enumerate(blk) if isinstance(st, ast.Expr) and st.value is saves[0])
            for st in blk[:idx]:
                for x in ast.walk(st):
                    if isinstance(x, (ast.Assign, ast.AugAssign, ast.AnnAssign)):
                        for t_ in (x.targets if isinstance(x, ast.Assign) else [x.target]):
                            if src(t_) in saved:
                                early.append(x)
        rep.check(blk is not None and not early, "R-09.6", rd6.qualname, where(rd6, early[0] if early else saves[0]), "the state is saved before the $INCLUDE arm changes any of it",
                  (f"`{src(early[0])[:50]}` runs before the state is saved: the included file's value is what gets restored, so the rest of the including file is read under the wrong "
                   "origin / owner / TTL (names silently land elsewhere)") if early else "the save is not a statement of the $INCLUDE arm", stmt="include-save-first")
    from rules.common import key_triple_forwarded
    key_triple_forwarded(model, rep, "R-09.8", {"dns.node", "dns.zone", "dns.transaction", "dns.btreezone", "dns.versioned", "dns.zonefile"}, 15)
    # ---------------------------------------------------------------- R-09.9
    tg = model.func("dns.tokenizer.Tokenizer.get")
    n_cont = 0
    for blk in pat._bodies(tg.node):
        conts = [i for i, st in enumerate(blk) if isinstance(st, ast.Continue)]
        if not conts:
            continue
        before = blk[:conts[0]]
        opens_quote = any(isinstance(x, ast.Assign) and src(x.targets[0]) == "self.quoting" and isinstance(x.value, ast.Constant) and x.value.value is True for st in before for x in ast.walk(st))
        if opens_quote:
            rep.ok("R-09.9", tg.qualname, where(tg, blk[conts[0]]), "opening quote: the following characters are content", stmt="restart opening-quote", nontrivial=False)
            continue
        n_cont += 1
        skips = any(isinstance(st, ast.Expr) and isinstance(st.value, ast.Call) and src(st.value.func) == "self.skip_whitespace" for st in before)
        what = " ".join(src(before[-1]).split())[:40] if before else "the delimiter"
        rep.check(skips, "R-09.9", tg.qualname, where(tg, blk[conts[0]]), "whitespace skipped before the scan restarts",
                  f"the scan restarts (`continue` after `{what}`) without self.skip_whitespace(): inside parentheses the indentation of the next line (or a blank line) after a comment / delimiter "
                  "becomes a token of its own, so the multi-line spelling of a record is a syntax error while its one-line spelling loads", stmt=f"restart {n_cont}")
    rep.floor("R-09.9", n_cont, 4)
    # ---------------------------------------------------------------- R-09.11
    from engine.minieval import evaluate, Unsupported
    ra = model.func("dns.transaction.Transaction._rdataset_from_args")
    t11 = [n for n in ast.walk(ra.node) if isinstance(n, ast.If) and any(isinstance(b, ast.Raise) and "TTL" in src(b) for b in n.body)]
    if len(t11) != 1:
        rep.blind("R-09.11", ra.qualname, where(ra, ra.node), "the `TTL value too big` refusal was not found", stmt="ttl-max-accepted")
    else:
        var11 = sorted({x.id for x in ast.walk(t11[0].test) if isinstance(x, ast.Name) and x.id != "dns"})
        try:
            mx = int(model.const(ra.module, ast.parse("dns.ttl.MAX_TTL", mode="eval").body))
            verdict = [bool(evaluate(t11[0].test, {var11[0]: v}, lambda nd: model.const(ra.module, nd))) for v in (mx, mx + 1)]
            rep.check(verdict == [False, True], "R-09.11", ra.qualname, where(ra, t11[0]), "TTLs up to MAX_TTL are accepted, MAX_TTL + 1 is refused",
                      f"`{src(t11[0].test)}` is {verdict} at MAX_TTL, MAX_TTL + 1 (expected [False, True]): a zone holding a record (or $TTL) of exactly 4294967295 is written but cannot be read back", stmt="ttl-max-accepted")
        except (Unsupported, AnalysisError, IndexError) as e:
            rep.blind("R-09.11", ra.qualname, where(ra, t11[0]), f"TTL test not evaluable: {e}", stmt="ttl-max-accepted")
    # ---------------------------------------------------------------- R-09.10
    pm10 = model.func("dns.zonefile.Reader._parse_modify")
    branches = []
    for blk in pat._bodies(pm10.node):
        unp = [st for st in blk if isinstance(st, ast.Assign) and isinstance(st.targets[0], ast.Tuple) and isinstance(st.value, ast.Call) and src(st.value.func).endswith(".groups")]
        if unp:
            vars_ = {e.id for e in unp[0].targets[0].elts if isinstance(e, ast.Name)}
            dflt = set()
            for st in blk:
                if isinstance(st, ast.If) and len(st.body) == 1 and isinstance(st.body[0], ast.Assign) and isinstance(st.body[0].targets[0], ast.Name):
                    for a in atoms(normalise_compare(st.test)):
                        if a[1] == "==" and a[2] in ("''", '""') and a[0] == st.body[0].targets[0].id:
                            dflt.add(a[0])
            branches.append((unp[0], vars_, dflt))
    need = set().union(*[d for (_u, _v, d) in branches]) if branches else set()
    for (u, vars_, dflt) in branches:
        missing = sorted((need & vars_) - dflt)
        rep.check(not missing, "R-09.10", pm10.qualname, where(pm10, u), f"`{src(u)[:50]}`: empty groups defaulted like in the sibling branches",
                  f"`{src(u)[:60]}` unpacks {missing} from regex groups that may be empty but does not default them (`if v == \"\": v = ...`) as the sibling branches do: this spelling of the modifier "
                  "is refused while its explicit form and the hand-written expansion load", stmt="generate-defaults")
    rep.floor("R-09.10", len(branches), 3)
    wb = model.func("dns.rdata._wordbreak")
    rep.check(pat.has_expr(wb.node, "[___d[__i:__i + ___c] for __i in range(0, len(___d), ___c)]"), "R-09.10", wb.qualname, where(wb, wb.node), "chunks cover range(0, len(data), chunksize)",
              "_wordbreak no longer slices data[i:i+chunksize] for i in range(0, len(data), chunksize): some octets of a chunked base64/hex field are dropped for certain lengths and the written zone does not read back",
              stmt="wordbreak-covers")
    rep.meta["explanation"] = (
        "Three narrow structural clauses: the generic-syntax path encodes with the style's origin and the writer functions cannot raise; a taint-style gate analysis of the owner name in "
        "_rr_line/_generate_line (reachability with the in-zone edge removed, caller-supplied force_name exempt); and who-may-call / must-pass-through for the CNAME-exclusivity hook. "
        "The round trip itself and the equivalence of spellings are NOT decided.")


WITNESSES = [
    {"id": "c09-max-ttl-refused", "rule": "R-09.11", "file": "dns/transaction.py", "expect": "fires",
     "old": "                        if ttl > dns.ttl.MAX_TTL:", "new": "                        if ttl >= dns.ttl.MAX_TTL:"},
    {"id": "c09-neutral-table-key-replaced", "rule": "R-09.3", "file": "dns/node.py", "expect": "fires",
     "old": "    dns.rdatatype.KEY,  # RFC 4035 section 2.5, RFC 3007", "new": "    dns.rdatatype.DNSKEY,  # RFC 4035 section 2.5, RFC 3007"},
    {"id": "c09-generate-unsigned-offset-not-defaulted", "rule": "R-09.10", "file": "dns/zonefile.py", "expect": "fires",
     "old": "                mod, sign, offset = g2.groups()\n                if sign == \"\":\n                    sign = \"+\"\n", "new": "                mod, sign, offset = g2.groups()\n"},
    {"id": "c09-wordbreak-drops-last-octet", "rule": "R-09.10", "file": "dns/rdata.py", "expect": "fires",
     "old": "for i in range(0, len(data), chunksize)]", "new": "for i in range(0, len(data) - 1, chunksize)]"},
    {"id": "c09-comment-in-parens-keeps-indentation", "rule": "R-09.9", "file": "dns/tokenizer.py", "expect": "fires",
     "old": "                        elif self.multiline:\n                            self.skip_whitespace()\n                            token = \"\"\n                            continue", "new": "                        elif self.multiline:\n                            token = \"\"\n                            continue"},
    {"id": "c09-include-origin-set-before-save", "rule": "R-09.6", "file": "dns/zonefile.py", "expect": "fires",
     "edits": [{"file": "dns/zonefile.py", "old": "                            new_origin = self.current_origin\n                        self.saved_state.append(", "new": "                            new_origin = self.current_origin\n                        self.current_origin = new_origin\n                        self.saved_state.append("}]},
    {"id": "c09-include-restore-order", "rule": "R-09.6", "file": "dns/zonefile.py", "expect": "fires",
     "old": "                            self.tok,\n                            self.current_origin,\n                            self.last_name,\n                            self.current_file,\n                            self.last_ttl,\n                            self.last_ttl_known,\n                            self.default_ttl,\n                            self.default_ttl_known,\n                        ) = self.saved_state.pop(-1)",
     "new": "                            self.tok,\n                            self.last_name,\n                            self.current_origin,\n                            self.current_file,\n                            self.last_ttl,\n                            self.last_ttl_known,\n                            self.default_ttl,\n                            self.default_ttl_known,\n                        ) = self.saved_state.pop(-1)"},
    {"id": "c09-node-filter-keeps-only-neutral", "rule": "R-09.3", "file": "dns/node.py", "expect": "fires",
     "old": "                    if NodeKind.classify_rdataset(rds) != NodeKind.REGULAR", "new": "                    if NodeKind.classify_rdataset(rds) == NodeKind.NEUTRAL"},
    {"id": "c09-eat-line-spins-at-eof", "rule": "R-09.5", "file": "dns/zonefile.py", "expect": "fires",
     "old": "            token = self.tok.get()\n            if token.is_eol_or_eof():\n                break", "new": "            token = self.tok.get()\n            if token.is_eol():\n                break"},
    {"id": "c09-generate-relativizes-to-current-origin", "rule": "R-09.2", "file": "dns/zonefile.py", "expect": "fires",
     "old": "                self._eat_line()\n                return\n            if self.relativize:\n                name = name.relativize(self.zone_origin)\n\n            try:", "new": "                self._eat_line()\n                return\n            if self.relativize:\n                name = name.relativize(self.current_origin)\n\n            try:"},
    {"id": "c09-dedup-flag-without-print", "rule": "R-09.1", "file": "dns/node.py", "expect": "fires",
     "old": "                if style.deduplicate_names and not style.first_name_is_duplicate:\n                    style = style.replace(first_name_is_duplicate=True)", "new": "            if style.deduplicate_names and not style.first_name_is_duplicate:\n                style = style.replace(first_name_is_duplicate=True)"},
    {"id": "c09-generic-without-origin", "rule": "R-09.1", "file": "dns/rdataset.py", "expect": "fires",
     "old": "rd.to_generic(style.origin).to_styled_text(style)", "new": "rd.to_generic().to_styled_text(style)"},
    {"id": "c09-no-in-zone-test", "rule": "R-09.2", "file": "dns/zonefile.py", "expect": "fires",
     "old": "            assert self.zone_origin is not None\n            if not name.is_subdomain(self.zone_origin):\n                self._eat_line()\n                return\n            if self.relativize:\n                name = name.relativize(self.zone_origin)\n\n        # TTL",
     "new": "            assert self.zone_origin is not None\n            if self.relativize:\n                name = name.relativize(self.zone_origin)\n\n        # TTL"},
    {"id": "c09-out-of-zone-not-eaten", "rule": "R-09.2", "file": "dns/zonefile.py", "expect": "fires",
     "old": "            if not name.is_subdomain(self.zone_origin):\n                self._eat_line()\n                return\n            if self.relativize:\n                name = name.relativize(self.zone_origin)\n\n        # TTL",
     "new": "            if not name.is_subdomain(self.zone_origin):\n                return\n            if self.relativize:\n                name = name.relativize(self.zone_origin)\n\n        # TTL"},
    {"id": "c09-no-cname-hook", "rule": "R-09.3", "file": "dns/zonefile.py", "expect": "fires",
     "old": "        self.txn.check_put_rdataset(_check_cname_and_other_data)\n", "new": ""},
    {"id": "c09-put-before-checks", "rule": "R-09.3", "file": "dns/transaction.py", "expect": "fires",
     "old": "        for check in self._check_put_rdataset:\n            check(self, name, rdataset)\n        self._put_rdataset(name, rdataset)", "new": "        self._put_rdataset(name, rdataset)\n        for check in self._check_put_rdataset:\n            check(self, name, rdataset)"},
    {"id": "c09-writer-refuses", "rule": "R-09.1", "file": "dns/node.py", "expect": "fires",
     "old": "        for rds in self.rdatasets:\n            if len(rds) > 0:", "new": "        for rds in self.rdatasets:\n            if rds.ttl > 0x7FFFFFFF:\n                raise ValueError(\"bad ttl\")\n            if len(rds) > 0:"},
    {"id": "c09-ttl-directive-truthiness", "rule": "R-09.1", "file": "dns/zone.py", "expect": "fires",
     "old": "            if style.default_ttl is not None:\n                l = f\"$TTL {style.default_ttl}\"", "new": "            if style.default_ttl:\n                l = f\"$TTL {style.default_ttl}\""},
    {"id": "c09-twin-gate-positive-form", "rule": "R-09.2", "file": "dns/zonefile.py", "expect": "silent",
     "old": "                self.last_name = self.tok.as_name(token, self.current_origin)", "new": "                new_name = self.tok.as_name(token, self.current_origin)\n                self.last_name = new_name"},
]
