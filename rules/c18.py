"""C18 network exchanges: nothing returned unchecked, sync/async twins agree, stream framing."""
from __future__ import annotations

import ast
import re

from engine.cfg import CFG, normalise_compare, atoms, A
from engine.model import src, stmt_key, dotted, AnalysisError, walk_no_nested
from engine.project import feasible_paths, eval_norm
from engine import pat
from engine.twins import TwinSpec, project, first_difference, count_events
from engine.util import own_nodes, calls_with_nodes, where, optional_numeric_params, truthiness_uses

RULES = {
    "R-18.13": "set-up time is charged to the caller's budget: in dns.query / dns.asyncquery, once a function has turned its timeout into a deadline (`_compute_times(timeout)`), a later call that hands `timeout` on to another transport function of these modules is preceded on every path by `timeout = _timeout(expiration)` (the time left), not the caller's original figure - else a reply that arrives after the deadline (slow connect or TLS handshake) is returned instead of raising Timeout",
    "R-18.12": "options reach the transport they were given for: inside dns.query / dns.asyncquery a local named like a parameter of the called transport function (timeout, port, source, one_rr_per_rrset, ignore_trailing, ...) is passed positionally only at that parameter's position - two swapped booleans make a reply with trailing octets accepted although ignore_trailing is False",
    "R-18.11": "connecting is part of the exchange and is bounded like it: every backend.make_socket(..., SOCK_STREAM, ...) of dns.asyncquery passes a timeout (6th argument) - without it the asynchronous connect to a server that black-holes TCP never ends, while the synchronous twin gives up at the deadline",
    "R-18.10": "adopted from C07: a reply is matched to its query by comparing question RRsets, i.e. Rdataset/RRset.__eq__ - name, class, type (R-07.11)",
    "R-18.9": "a transfer message is read under the EARLIER of its per-message deadline and the transfer's lifetime: in both _inbound_xfr twins the clamp replaces mexpiration by expiration exactly when mexpiration is None or later than expiration",
    "R-18.8": "the header fields is_response compares are extracted whole: opcode.from_flags inverts opcode.to_flags for all sixteen opcodes whatever the other flag bits are (evaluated by the checker on the two return expressions), so opcodes 8..15 do not alias 0..7; and every dns.asyncquery function has the parameter defaults of its dns.query twin, an option only the async side has defaulting to its 'off' value (False/None/0)",
    "R-18.7": "backend sockets take a RELATIVE timeout: every timeout argument handed to an async socket method (sendall/recv/sendto/recvfrom) in dns/asyncquery.py is `_timeout(<expiration>)` or a local computed from it - never the absolute expiration itself (a timestamp read as seconds never expires)",
    "R-18.6": "an expired deadline surfaces as dns.exception.Timeout on every backend: in the asyncio backend asyncio.wait_for is called only inside _maybe_wait_for (which translates asyncio.TimeoutError), and that translation is in place - a bare TimeoutError is an OSError, which callers read as 'the server is broken'",
    "R-18.5": "a deadline is an absolute expiration; the relative timeout handed to a blocking call inside a loop (`_timeout(expiration)` / `_remaining(expiration)`) is computed on every trip, never once before the loop - otherwise n fragments may each take the whole budget and the exchange outlives its deadline without a Timeout",
    "R-18.1": "an exchange function returns a message only on paths that are infeasible when q.is_response(r) is false (checked here or, for ignore_errors, in receive_udp with the query), or returns the result of another checked exchange; receive_udp tests the source address before parsing",
    "R-18.2": "each dns.query function and its dns.asyncquery twin project onto the same sequence of decisions (recv, destination test, from_wire with its keyword set, Truncated/generic arms, is_response, raise/continue/return)",
    "R-18.4": "deadline plumbing: timeout / expiration parameters of the query functions and async backends are tested for presence by identity with None, never by truthiness (a timeout of 0 means 'already expired', not 'wait forever')",
    "R-18.3": "stream framing: read loops end only at count == 0, an empty read raises EOFError, writes advance by what was sent, the length prefix is 2 octets big-endian on both sides",
}

EXCHANGES = ["udp", "tcp", "tls", "https", "_http3", "quic", "udp_with_fallback"]
IS_RESP = re.compile(r"^\w+\.is_response\(\w+\)$")

COMMON_RENAME = {"AsyncQuicConnection": "SyncQuicConnection", "httpx2.AsyncClient": "httpx2.Client", "the_client": "session", "client": "session"}
TWINS = [
    # (name, events, rename, drop_args_for, reasoned extra drops)
    ("receive_udp", {"_udp_recv", "_matches_destination", "from_wire", "is_response"}, {"recvfrom": "_udp_recv"},
     {"_udp_recv": {"sock", "max_size", "expiration", "#0", "#1"}}),
    ("udp", {"send_udp", "receive_udp", "is_response"}, {}, {}),
    ("tcp", {"send_tcp", "receive_tcp", "is_response"}, {}, {}),
    ("udp_with_fallback", {"udp", "tcp"}, {}, {}),
    ("quic", {"from_wire", "is_response"}, {}, {}),
    ("_http3", {"from_wire", "is_response", "_check_status"}, {}, {}),
    ("https", {"from_wire", "is_response", "_http3"}, {}, {}),
    ("receive_tcp", {"_net_read", "from_wire", "unpack"}, {"_read_exactly": "_net_read"}, {"from_wire": {"continue_on_error"}}),
    ("send_udp", {"to_wire", "_udp_send"}, {"sendto": "_udp_send"}, {"_udp_send": {"sock", "#2", "expiration", "data", "destination", "#0", "#1"}}),
    ("send_tcp", {"to_wire", "_net_write", "to_bytes"}, {"sendall": "_net_write"}, {"_net_write": {"sock", "data", "expiration", "#0", "#1"}}),
    ("_inbound_xfr", {"from_wire", "process_message", "Inbound"}, {}, {}),
]
TWIN_NOTES = {
    "receive_tcp": "async receive_tcp has its own ignore_errors parameter (explicit caller opt-in, forwarded as continue_on_error); the keyword is ignored in the comparison",
}
NOT_TWINNED = {"tls": "async tls() delegates to tcp() over a TLS socket while the sync version inlines the exchange; both are covered by R-18.1"}


def _msg_returns(cfg):
    return [n for n in cfg.nodes if isinstance(n.ast, ast.Return) and n.kind == "stmt" and n.ast.value is not None and not isinstance(n.ast.value, ast.Constant)]


def _checked_by_paths(cfg, val, only=None) -> tuple[int, list]:
    """Under valuation `val`, every feasible path to a value-returning `return` must be infeasible once every
    `X.is_response(Y)` atom is assumed false."""
    keys = set()
    for n in cfg.nodes:
        if n.kind == "test" and isinstance(n.ast, (ast.If, ast.While)):
            for (lhs, op, rhs) in atoms(normalise_compare(n.ast.test)):
                if op in ("truthy", "falsy") and IS_RESP.match(lhs):
                    keys.add(lhs)
    val_false = dict(val)
    for k in keys:
        val_false[k] = False
    good = feasible_paths(cfg, val, loop_unroll=0)
    bad = []
    n_ret = 0
    for p in good:
        last = cfg.nodes[p[-2][0]] if len(p) > 1 else None
        if last is None or not (isinstance(last.ast, ast.Return) and last.ast.value is not None and not isinstance(last.ast.value, ast.Constant)):
            continue
        if only is not None and last.id not in only:
            continue
        n_ret += 1
        # is this very path still feasible with is_response false?
        ok_when_false = True
        for (i, k) in p:
            nd = cfg.nodes[i]
            if nd.kind == "test" and k in ("t", "f") and isinstance(nd.ast, (ast.If, ast.While)):
                v = eval_norm(normalise_compare(nd.ast.test), val_false)
                if v is not None and v != (k == "t"):
                    ok_when_false = False
                    break
        if ok_when_false:
            bad.append(p)
    return n_ret, bad


def run(model, rep, tier):
    # ---------------------------------------------------------------- R-18.1
    n_ex = 0
    for mod in ("dns.query", "dns.asyncquery"):
        for name in EXCHANGES:
            f = model.func(f"{mod}.{name}")
            cfg = CFG(f.node, implicit_exc=False)
            rets = _msg_returns(cfg)
            if not rets:
                rep.blind("R-18.1", f.qualname, where(f, f.node), "no value-returning return found")
                continue
            n_ex += 1
            # classify each return: delegated (result of another exchange) or locally checked
            local = []
            for r in rets:
                v = r.ast.value
                if isinstance(v, ast.Await):
                    v = v.value
                elts = v.elts if isinstance(v, ast.Tuple) else [v]
                deleg = False
                for e in elts:
                    if isinstance(e, ast.Await):
                        e = e.value
                    if isinstance(e, ast.Call) and (dotted(e.func) or "").split(".")[-1] in EXCHANGES:
                        deleg = True
                    if isinstance(e, ast.Name):
                        defs = [d.value for d in ast.walk(f.node) if isinstance(d, ast.Assign) and any(src(t) == e.id for t in d.targets)]
                        defs = [d.value if isinstance(d, ast.Await) else d for d in defs]
                        if defs and all(isinstance(d, ast.Call) and (dotted(d.func) or "").split(".")[-1] in EXCHANGES for d in defs):
                            deleg = True
                if deleg:
                    rep.ok("R-18.1", f.qualname, where(f, r.ast), f"`{stmt_key(r.ast)}`: result of another exchange function that is itself checked", stmt=stmt_key(r.ast))
                else:
                    local.append(r)
            if not local:
                continue
            has_ie = "ignore_errors" in f.params()
            vals = [{"ignore_errors": False}] if has_ie else [{}]
            for val in vals:
                n_ret, bad = _checked_by_paths(cfg, val, {r.id for r in local})
                lab = ", ".join(f"{k}={v}" for k, v in val.items()) or "all options"
                if n_ret == 0:
                    rep.blind("R-18.1", f.qualname, where(f, f.node), f"no feasible returning path under {lab}", stmt=f"checked [{lab}]")
                elif bad:
                    rep.bad("R-18.1", f.qualname, where(f, local[0].ast), f"[{lab}] a message can be returned although is_response() is false: path {cfg.fmt_path([i for (i, _k) in bad[0]])}",
                            stmt=f"checked [{lab}]")
                else:
                    rep.ok("R-18.1", f.qualname, where(f, local[0].ast), f"[{lab}] all {n_ret} returning paths require q.is_response(r)", stmt=f"checked [{lab}]")
            if has_ie:
                # ignore_errors=True: the check is delegated to receive_udp, which must get ignore_errors and the query
                rc = [c for c in ast.walk(f.node) if isinstance(c, ast.Call) and (dotted(c.func) or "").endswith("receive_udp")]
                okk = False
                if len(rc) == 1:
                    callee = model.func(f"{mod}.receive_udp")
                    params = callee.params()
                    amap = {params[i]: src(a) for i, a in enumerate(rc[0].args) if i < len(params)}
                    amap.update({k.arg: src(k.value) for k in rc[0].keywords})
                    sends = [c for c in ast.walk(f.node) if isinstance(c, ast.Call) and (dotted(c.func) or "").endswith("send_udp") and len(c.args) >= 3]
                    okk = amap.get("ignore_errors") == "ignore_errors" and amap.get("query") == "q" and len(sends) == 1 and amap.get("destination") == src(sends[0].args[2])
                rep.check(okk, "R-18.1", f.qualname, where(f, f.node), "with ignore_errors the filtering is delegated: receive_udp gets ignore_errors, the query and the destination",
                          "with ignore_errors=True nothing checks the reply: receive_udp is not given (ignore_errors, query=q, destination)", stmt="delegates-check")
    rep.floor("R-18.1", n_ex, 14)
    for mod in ("dns.query", "dns.asyncquery"):
        f = model.func(f"{mod}.receive_udp")
        cfg = CFG(f.node, implicit_exc=False)
        n_ret, bad = _checked_by_paths(cfg, {"ignore_errors": True, "query is not None": True})
        rep.check(n_ret > 0 and not bad, "R-18.1", f.qualname, where(f, f.node), f"with ignore_errors and a query, all {n_ret} returning paths require query.is_response(r)",
                  "with ignore_errors=True and a query, receive_udp can return a message that is not a response to it", stmt="filter [ignore_errors=True]")
        # exception arms: a parse failure is never returned
        hs = [h for h in ast.walk(f.node) if isinstance(h, ast.ExceptHandler)]
        okk = len(hs) == 2 and all(not any(isinstance(x, ast.Return) for x in ast.walk(h)) for h in hs)
        rep.check(okk, "R-18.1", f.qualname, where(f, f.node), "parse failures are skipped or raised, never returned", "an exception arm of receive_udp returns", stmt="no-return-in-handlers")
        fw = [c for c in ast.walk(f.node) if isinstance(c, ast.Call) and src(c.func) == "dns.message.from_wire"]
        kws = {k.arg for c in fw for k in c.keywords}
        rep.check("continue_on_error" not in kws, "R-18.1", f.qualname, where(f, f.node), "datagrams are parsed strictly (no continue_on_error)",
                  "receive_udp parses with continue_on_error: a malformed datagram with a matching header comes back as a partial message and is returned", stmt="strict-parse")
        # destination test dominates parsing
        md = [n for n in cfg.nodes if n.kind == "test" and "_matches_destination(" in src(n.ast.test)]
        pw = [n for (n, c) in calls_with_nodes(cfg) if src(c.func) == "dns.message.from_wire"]
        okk = len(md) == 1 and len(pw) == 1 and cfg.edge_dominated(pw[0].id, {(md[0].id, "f")}) and atoms(normalise_compare(md[0].ast.test))[0][1] == "falsy"
        rep.check(okk, "R-18.1", f.qualname, where(f, f.node), "a datagram is parsed only after _matches_destination accepted its source", "datagrams are parsed/returned without the source-address test", stmt="destination-first")
    mdf = model.func("dns.query._matches_destination")
    t = " ".join(src(mdf.node).split())
    okk = pat.has(mdf.node, "if not destination:\n    return True") and pat.has(mdf.node, "if _addresses_equal(af, from_address, destination) or (dns.inet.is_multicast(destination[0]) and from_address[1:] == destination[1:]):\n    return True\nelif ignore_unexpected:\n    return False") \
        and "raise UnexpectedSource" in t
    rep.check(okk, "R-18.1", mdf.qualname, where(mdf, mdf.node), "source must equal the destination (address and port; multicast: port) else skip/raise", "_matches_destination changed", stmt="matches-shape")
    ae = model.func("dns.query._addresses_equal")
    t = " ".join(src(ae.node).split())
    e = pat.Env()
    rep.check(pat.has(ae.node, "__n1 = dns.inet.inet_pton(af, a1[0])", e) and pat.has(ae.node, "__n2 = dns.inet.inet_pton(af, a2[0])", e) and pat.has(ae.node, "return __n1 == __n2 and a1[1:] == a2[1:]", e), "R-18.1", ae.qualname, where(ae, ae.node),
              "binary address comparison plus port (and scope)", "_addresses_equal changed", stmt="addresses-equal")
    ir = model.func("dns.message.Message.is_response")
    cfg = CFG(ir.node, implicit_exc=False)
    first = [n for n in cfg.nodes if n.kind == "test"][0] if any(n.kind == "test" for n in cfg.nodes) else None
    okk = first is not None and normalise_compare(first.ast.test)[0] == "or" and set(atoms(normalise_compare(first.ast.test))) == {
        A("other.flags & dns.flags.QR", "==", "0"), A("self.id", "!=", "other.id"), A("dns.opcode.from_flags(self.flags)", "!=", "dns.opcode.from_flags(other.flags)")}
    if okk:
        rets = [n for n in cfg.nodes if isinstance(n.ast, ast.Return) and src(n.ast.value) == "True"]
        okk = all(cfg.edge_dominated(r.id, {(first.id, "f")}) for r in rets) and bool(rets)
    rep.check(okk, "R-18.1", ir.qualname, where(ir, ir.node), "is_response requires QR, same id and same opcode before anything else", "is_response no longer requires (QR set, same id, same opcode)", stmt="is-response-header")
    t = " ".join(src(ir.node).split())
    rep.check(pat.ends_with(ir.node, "...\nfor __n in self.question:\n    if __n not in other.question:\n        return False\nfor __n in other.question:\n    if __n not in self.question:\n        return False\nreturn True"), "R-18.1", ir.qualname, where(ir, ir.node),
              "question sections must be equal as sets", "question comparison in is_response changed", stmt="is-response-question")

    # ---------------------------------------------------------------- R-18.2
    n_tw = 0
    for (name, events, rename, drops) in TWINS:
        a = model.func(f"dns.query.{name}")
        b = model.func(f"dns.asyncquery.{name}")
        spec = TwinSpec(events=set(events), rename=dict(rename), drop_args={"backend"}, drop_args_for=drops, test_rename=COMMON_RENAME)
        pa, pb = project(model, a, spec), project(model, b, spec)
        n_ev = count_events(pa)
        if n_ev == 0:
            rep.blind("R-18.2", f"dns.query.{name} ~ dns.asyncquery.{name}", where(a, a.node), "projection is empty (event alphabet no longer matches the code)", stmt="twin")
            continue
        n_tw += 1
        d = first_difference(pa, pb)
        note = f" ({TWIN_NOTES[name]})" if name in TWIN_NOTES else ""
        if d is None:
            rep.ok("R-18.2", f"dns.query.{name} ~ dns.asyncquery.{name}", where(b, b.node), f"{n_ev} events, projections equal{note}", stmt="twin")
        else:
            rep.bad("R-18.2", f"dns.query.{name} ~ dns.asyncquery.{name}", where(b, b.node), f"sync and async versions decide differently: {d}", stmt="twin")
    rep.floor("R-18.2", n_tw, 10)
    for name, why in NOT_TWINNED.items():
        rep.excepted("R-18.2", f"dns.query.{name} ~ dns.asyncquery.{name}", "dns/asyncquery.py", why, stmt="twin")

    # ---------------------------------------------------------------- R-18.3
    for qn, recv in (("dns.query._net_read", "sock.recv"), ("dns.asyncquery._read_exactly", "sock.recv")):
        f = model.func(qn)
        cfg = CFG(f.node, implicit_exc=False)
        loops = [n for n in cfg.nodes if n.kind == "test" and isinstance(n.ast, ast.While)]
        okk = len(loops) == 1 and atoms(normalise_compare(loops[0].ast.test)) == [("count", ">", "0")]
        rep.check(okk, "R-18.3", qn, where(f, f.node), "reads while count > 0", "read loop condition is not `count > 0`", stmt="loop-cond")
        if not loops:
            continue
        lp = loops[0]
        brk = [n for n in ast.walk(lp.ast) if isinstance(n, (ast.Break, ast.Return))]
        rep.check(not brk, "R-18.3", qn, where(f, lp.ast), "no break/return inside the read loop: the only normal exit is count == 0",
                  "the read loop can be left early: a short message is returned at EOF or on a partial read", stmt="no-early-exit")
        rets = [n for n in cfg.nodes if isinstance(n.ast, ast.Return)]
        rep.check(len(rets) == 1 and cfg.edge_dominated(rets[0].id, {(lp.id, "f")}), "R-18.3", qn, where(f, f.node), "returns only after the loop condition failed", "returns before the requested octets were read", stmt="return-after-loop")
        e = pat.Env()
        pat.has(lp.ast, f"__n = {recv}(...)", e)
        vn = e.get("__n", "?")
        eof = [n for n in cfg.nodes if n.kind == "test" and set(atoms(normalise_compare(n.ast.test))) == {(vn, "==", "b''")}]
        okk = len(eof) == 1 and any(isinstance(s, ast.Raise) and "EOFError" in src(s) for s in eof[0].ast.body)
        rep.check(okk, "R-18.3", qn, where(f, f.node), "an empty read raises EOFError", "an empty read (peer closed) no longer raises EOFError", stmt="eof-raises")
        dec = [stmt_key(s) for s in ast.walk(lp.ast) if isinstance(s, (ast.AugAssign, ast.Assign)) and "count" in src(s.targets[0] if isinstance(s, ast.Assign) else s.target)]
        rep.check(dec in ([f"count -= len({vn})"], [f"count = count - len({vn})"]), "R-18.3", qn, where(f, f.node), "count decreases by exactly the octets received", f"count is updated as {dec}", stmt="count-decreases")
        vs = src(rets[0].ast.value) if len(rets) == 1 and rets[0].ast.value is not None else "?"
        acc = [stmt_key(s) for s in ast.walk(lp.ast) if isinstance(s, (ast.AugAssign, ast.Assign)) and src(s.targets[0] if isinstance(s, ast.Assign) else s.target) == vs]
        rep.check(acc in ([f"{vs} += {vn}"], [f"{vs} = {vs} + {vn}"]), "R-18.3", qn, where(f, f.node), "received octets are appended in order", f"accumulation is {acc}", stmt="append")
        rc = [c for c in ast.walk(lp.ast) if isinstance(c, ast.Call) and src(c.func) == recv]
        rep.check(len(rc) == 1 and src(rc[0].args[0]) == "count", "R-18.3", qn, where(f, f.node), "never asks for more than the remaining count", "recv may read past the end of the message", stmt="recv-count")
    nw = model.func("dns.query._net_write")
    t = " ".join(src(nw.node).split())
    e = pat.Env()
    rep.check(pat.has(nw.node, "while __cur < __l:", e) and pat.has(nw.node, "__cur += sock.send(data[__cur:])", e) and pat.has(nw.node, "__l = len(data)", e) and pat.has(nw.node, "__cur = 0", e), "R-18.3", nw.qualname, where(nw, nw.node),
              "writes until all octets are sent, advancing by the return of send()", "_net_write no longer advances by what send() reported / can stop early", stmt="write-loop")
    rep.check(not any(isinstance(n, (ast.Break, ast.Return)) for n in ast.walk(nw.node)), "R-18.3", nw.qualname, where(nw, nw.node), "no early exit from the write loop", "write loop can be left early", stmt="write-no-early-exit")
    for mod in ("dns.query", "dns.asyncquery"):
        rt = model.func(f"{mod}.receive_tcp")
        t = " ".join(src(rt.node).split()).replace("await ", "")
        rd = "_net_read" if mod == "dns.query" else "_read_exactly"
        rep.check(pat.has(rt.node, f"__ldata = {rd}(sock, 2, expiration)\n(__l,) = struct.unpack('!H', __ldata)\n__wire = {rd}(sock, __l, expiration)"),
                  "R-18.3", rt.qualname, where(rt, rt.node), "reads a 2-octet big-endian length, then exactly that many octets", "TCP length-prefix decoding changed", stmt="length-prefix-read")
        stf = model.func(f"{mod}.send_tcp")
        t = " ".join(src(stf.node).split())
        e = pat.Env()
        rep.check(pat.has(stf.node, "__m = what.to_wire(prepend_length=True)", e) and pat.has(stf.node, "__m = len(what).to_bytes(2, 'big') + what", e), "R-18.3", stf.qualname, where(stf, stf.node),
                  "prepends a 2-octet big-endian length", "TCP length-prefix encoding changed", stmt="length-prefix-write")
    mw = model.func("dns.message.Message.to_wire")
    rep.check(pat.has(mw.node, "__w = len(__w).to_bytes(2, 'big') + __w"), "R-18.3", mw.qualname, where(mw, mw.node), "prepend_length uses 2 octets big-endian", "prepend_length encoding changed", stmt="prepend-length")
    for qn in ("dns.query._udp_recv", "dns.query._udp_send"):
        f = model.func(qn)
        hs = [h for h in ast.walk(f.node) if isinstance(h, ast.ExceptHandler)]
        rep.check(all(src(h.type) == "BlockingIOError" for h in hs) and len(hs) == 1, "R-18.3", qn, where(f, f.node), "only would-block is retried", "more than would-block is swallowed and retried", stmt="retry-only-wouldblock")
    wf = model.func("dns.query._wait_for")
    rep.check("raise dns.exception.Timeout" in src(wf.node), "R-18.3", wf.qualname, where(wf, wf.node), "an expired deadline raises Timeout", "_wait_for no longer raises Timeout at the deadline", stmt="deadline")
    rep.assume("socket / backend objects behave as documented (recv returns b'' only at end of stream; send returns the count sent)")
    # ---------------------------------------------------------------- R-18.4
    n_opt = 0
    for f in sorted(model.all_functions(), key=lambda g: g.qualname):
        if not f.module.name.startswith(("dns._asyncio_backend", "dns._trio_backend", "dns.asyncbackend", "dns._asyncbackend", "dns.query", "dns.asyncquery")):
            continue
        names = optional_numeric_params(f) | {p_ for p_ in f.params() if p_ in ("timeout", "expiration", "lifetime")}
        if not names:
            continue
        n_opt += len(names)
        for (n_, nm, how) in truthiness_uses(f.node, names):
            rep.bad("R-18.4", f.qualname, where(f, n_), f"`{nm}` is a deadline and 0 is a legitimate value, but it is {how}: 0 is taken for 'absent' (an expired deadline turns into an unbounded wait instead of dns.exception.Timeout)", stmt=f"presence {nm}")
    rep.floor("R-18.4-optional", n_opt, 40)
    rep.ok("R-18.4", "dns.query / dns.asyncquery / backends", "-", f"{n_opt} optional numeric parameters are only ever tested with `is None` / `is not None`", stmt="presence-tests")
    # ---------------------------------------------------------------- R-18.5
    n_to = 0
    for f5 in sorted(model.all_functions(), key=lambda g: g.qualname):
        if f5.module.name not in ("dns.query", "dns.asyncquery", "dns._asyncio_backend", "dns._trio_backend", "dns._asyncbackend", "dns.quic._sync", "dns.quic._asyncio", "dns.quic._trio"):
            continue
        loops = [l_ for l_ in walk_no_nested(f5.node) if isinstance(l_, (ast.While, ast.For, ast.AsyncFor))]
        if not loops:
            continue

        def is_rel(e):
            return isinstance(e, ast.Call) and src(e.func).split(".")[-1] in ("_timeout", "_remaining")
        rel_locals = {}
        for a in walk_no_nested(f5.node):
            if isinstance(a, ast.Assign) and is_rel(a.value) and len(a.targets) == 1 and isinstance(a.targets[0], ast.Name):
                rel_locals.setdefault(a.targets[0].id, []).append(a)
        for lp in loops:
            inner = list(ast.walk(lp))
            for c in inner:
                if not isinstance(c, ast.Call) or is_rel(c):
                    continue
                for a in list(c.args) + [k.value for k in c.keywords]:
                    if is_rel(a):
                        n_to += 1
                        rep.ok("R-18.5", f5.qualname, where(f5, c), f"`{src(a)}` computed at the call, inside the loop", stmt=f"timeout-per-trip {src(c.func)}", nontrivial=False)
                    elif isinstance(a, ast.Name) and a.id in rel_locals:
                        n_to += 1
                        inside = any(any(d is x for x in inner) for d in rel_locals[a.id])
                        rep.check(inside, "R-18.5", f5.qualname, where(f5, c), f"`{a.id}` is recomputed inside the loop",
                                  f"`{src(c)[:60]}` runs on every trip of the loop with `{a.id}`, computed once before it (`{src(rel_locals[a.id][0])}`): every trip may take the whole remaining budget, "
                                  "so a reply arriving in n slow fragments is accepted up to n times the deadline later and no Timeout is raised", stmt=f"timeout-per-trip {src(c.func)}")
    rep.floor("R-18.5", n_to, 3)
    # ---------------------------------------------------------------- R-18.6
    n_wf = 0
    for f6 in sorted(model.all_functions(), key=lambda g: g.qualname):
        if f6.module.name != "dns._asyncio_backend":
            continue
        for c in ast.walk(f6.node):
            if isinstance(c, ast.Call) and src(c.func) in ("asyncio.wait_for", "asyncio.timeout", "asyncio.timeout_at"):
                n_wf += 1
                rep.check(f6.name == "_maybe_wait_for", "R-18.6", f6.qualname, where(f6, c), "asyncio.wait_for only inside the translating helper",
                          f"`{src(c)[:60]}` is called directly in {f6.name}: when it expires the caller gets the builtin TimeoutError (an OSError) instead of dns.exception.Timeout, so e.g. the resolver "
                          "drops the server as broken where the sync resolver retries it", stmt="wait-for-wrapped")
    mw = model.func("dns._asyncio_backend._maybe_wait_for")
    hs = [h for t_ in ast.walk(mw.node) if isinstance(t_, ast.Try) for h in t_.handlers]
    okk = any(h.type is not None and "TimeoutError" in src(h.type) and any(isinstance(x, ast.Raise) and "dns.exception.Timeout" in src(x) for x in ast.walk(h)) for h in hs)
    rep.check(okk, "R-18.6", mw.qualname, where(mw, mw.node), "asyncio.TimeoutError is translated to dns.exception.Timeout", "_maybe_wait_for no longer translates asyncio.TimeoutError into dns.exception.Timeout", stmt="timeout-translation")
    rep.floor("R-18.6", n_wf, 1)
    # ---------------------------------------------------------------- R-18.9
    for qn in ("dns.query._inbound_xfr", "dns.asyncquery._inbound_xfr"):
        fx9 = model.func(qn)
        e9 = pat.Env()
        cl = [n for n in ast.walk(fx9.node) if isinstance(n, ast.If) and len(n.body) == 1 and isinstance(n.body[0], ast.Assign) and src(n.body[0].value) == "expiration" and isinstance(n.body[0].targets[0], ast.Name)]
        if len(cl) != 1:
            rep.blind("R-18.9", qn, where(fx9, fx9.node), "the deadline clamp `if ...: <m> = expiration` was not found", stmt="deadline-clamp")
            continue
        mv = cl[0].body[0].targets[0].id
        at9 = set(atoms(normalise_compare(cl[0].test)))
        want9 = {(mv, "is", "None"), ("expiration", "is not", "None"), A(mv, ">", "expiration")}
        rep.check(at9 == want9 and normalise_compare(cl[0].test)[0] == "or", "R-18.9", qn, where(fx9, cl[0]), f"`{mv}` = min(per-message deadline, lifetime)",
                  f"the clamp condition is `{src(cl[0].test)[:70]}`: the later of the two deadlines is used (or the wrong one replaced), so messages arriving after the lifetime - or after the per-message timeout - are "
                  "still read and applied instead of raising Timeout", stmt="deadline-clamp")
    # ---------------------------------------------------------------- R-18.8
    from engine.minieval import evaluate, Unsupported
    ff, tf = model.func("dns.opcode.from_flags"), model.func("dns.opcode.to_flags")
    try:
        rf = [r for r in ast.walk(ff.node) if isinstance(r, ast.Return)][0].value
        rt_ = [r for r in ast.walk(tf.node) if isinstance(r, ast.Return)][0].value
        inner = rf.args[0] if isinstance(rf, ast.Call) and len(rf.args) == 1 else rf
        pf, pt = [p_ for p_ in ff.params()][0], [p_ for p_ in tf.params()][0]
        fold = lambda nd: model.const(ff.module, nd)
        bad_ops = []
        for v in range(16):
            w = evaluate(rt_, {pt: v}, fold)
            for other in (0, 0x87FF):
                if (w & other) != 0 and other == 0x87FF and (w & 0x87FF):
                    bad_ops.append((v, "to_flags touches other bits"))
                got = evaluate(inner, {pf: w | other}, fold)
                if got != v:
                    bad_ops.append((v, got))
        rep.check(not bad_ops, "R-18.8", ff.qualname, where(ff, ff.node), "from_flags(to_flags(v) | other bits) == v for v in 0..15",
                  f"from_flags / to_flags are not inverse for opcodes {sorted({b[0] for b in bad_ops})} (e.g. opcode {bad_ops[0][0]} reads back as {bad_ops[0][1]}): a forged reply whose opcode differs from the query's "
                  "only in the dropped bit passes is_response" if bad_ops else "", stmt="opcode-field")
    except (Unsupported, IndexError, AnalysisError) as e:
        rep.blind("R-18.8", ff.qualname, where(ff, ff.node), f"opcode field expressions not evaluable: {e}", stmt="opcode-field")
    n_tw = 0
    for fa in sorted(model.all_functions(), key=lambda g: g.qualname):
        if fa.module.name != "dns.asyncquery" or fa.cls is not None or fa.name.startswith("_"):
            continue
        fs_ = model.functions.get("dns.query." + fa.name)
        if fs_ is None:
            continue
        def defaults(fn_):
            a_ = fn_.node.args
            allp = list(a_.posonlyargs) + list(a_.args)
            d_ = {p_.arg: src(dv) for p_, dv in zip(allp[len(allp) - len(a_.defaults):], a_.defaults)}
            d_.update({p_.arg: src(dv) for p_, dv in zip(a_.kwonlyargs, a_.kw_defaults) if dv is not None})
            return d_
        da, ds = defaults(fa), defaults(fs_)
        n_tw += 1
        diff = sorted(k for k in da if k in ds and da[k] != ds[k] and k not in ("backend", "sock", "client", "session"))
        only_a = sorted(k for k in da if k not in ds and k not in ("backend",) and da[k] not in ("False", "None", "0", "''", "b''"))
        rep.check(not diff and not only_a, "R-18.8", fa.qualname, where(fa, fa.node), "same parameter defaults as its sync twin",
                  f"defaults differ from dns.query.{fa.name}: " + ", ".join([f"{k}: async {da[k]} / sync {ds[k]}" for k in diff] + [f"{k} (async only) defaults to {da[k]}" for k in only_a]) +
                  " - callers that do not pass the option get a different acceptance policy on the async side (e.g. lenient parsing returns a damaged reply as genuine)", stmt="twin-defaults")
    rep.floor("R-18.8-twins", n_tw, 10)
    # ---------------------------------------------------------------- R-18.7
    POS = {"sendall": 1, "recv": 1, "sendto": 2, "recvfrom": 1}
    n_rel = 0
    for f7 in sorted(model.all_functions(), key=lambda g: g.qualname):
        if f7.module.name != "dns.asyncquery":
            continue
        rel = {t_.id for x in ast.walk(f7.node) if isinstance(x, ast.Assign) and isinstance(x.value, ast.Call) and src(x.value.func).split(".")[-1] in ("_timeout", "_remaining") for t_ in x.targets if isinstance(t_, ast.Name)}
        for c in ast.walk(f7.node):
            if not (isinstance(c, ast.Call) and isinstance(c.func, ast.Attribute) and c.func.attr in POS and len(c.args) > POS[c.func.attr]):
                continue
            a = c.args[POS[c.func.attr]]
            n_rel += 1
            okk = (isinstance(a, ast.Call) and src(a.func).split(".")[-1] in ("_timeout", "_remaining")) or (isinstance(a, ast.Name) and a.id in rel) or (isinstance(a, ast.Constant) and a.value is None)
            rep.check(okk, "R-18.7", f7.qualname, where(f7, c), f"`{src(c.func)}` gets a relative timeout (`{src(a)[:30]}`)",
                      f"`{src(c)[:70]}` hands `{src(a)}` to the socket as its timeout: that is an absolute expiration (seconds since the epoch), so a blocked write/read effectively never times out "
                      "whatever the lifetime", stmt=f"relative-timeout {c.func.attr}")
    rep.floor("R-18.7", n_rel, 6)
    rep.share(model, "C07", {"R-07.11"}, "R-18.10", "Message.is_response() tests `n in other.question` for every question RRset: membership is RRset.__eq__; a question of another class must not match")
    # ---------------------------------------------------------------- R-18.11
    n11 = 0
    for f11 in sorted(model.all_functions(), key=lambda g: g.qualname):
        if f11.module.name != "dns.asyncquery":
            continue
        for c11 in ast.walk(f11.node):
            if not (isinstance(c11, ast.Call) and isinstance(c11.func, ast.Attribute) and c11.func.attr == "make_socket"):
                continue
            stype = c11.args[1] if len(c11.args) > 1 else next((k.value for k in c11.keywords if k.arg == "socktype"), None)
            if stype is None or not src(stype).endswith("SOCK_STREAM"):
                continue
            n11 += 1
            tmo = c11.args[5] if len(c11.args) > 5 else next((k.value for k in c11.keywords if k.arg == "timeout"), None)
            okk = tmo is not None and not (isinstance(tmo, ast.Constant) and tmo.value is None)
            rep.check(okk, "R-18.11", f11.qualname, where(f11, c11), f"the stream connect is bounded by `{src(tmo) if tmo is not None else ''}`",
                      f"`{src(c11)[:80]}` passes no timeout: the connect waits for ever on a server that drops TCP SYNs - the exchange outlives its timeout and a resolution its lifetime (no failover, no LifetimeTimeout)",
                      stmt="connect-timeout")
    rep.floor("R-18.11", n11, 3)
    from rules.common import name_slot_agreement
    name_slot_agreement(model, rep, "R-18.12",
                        lambda f, nm, cands: (cands if f.module.name in ("dns.query", "dns.asyncquery") and cands and all(g.module.name in ("dns.query", "dns.asyncquery") for g in cands) else None),
                        80, "the callee applies the option of one name to the other (e.g. one_rr_per_rrset and ignore_trailing swapped: trailing octets are accepted or refused against the caller's wish)")
    # ---------------------------------------------------------------- R-18.13
    n13 = 0
    tnames13 = {g.node.name for g in model.all_functions() if g.module.name in ("dns.query", "dns.asyncquery") and "timeout" in g.params()}
    for f13 in sorted(model.all_functions(), key=lambda g: g.qualname):
        if f13.module.name not in ("dns.query", "dns.asyncquery") or "timeout" not in f13.params():
            continue
        cfg13 = CFG(f13.node, implicit_exc=False)
        deadline = [n.id for n in cfg13.stmts() if isinstance(n.ast, ast.Assign) and isinstance(n.ast.value, ast.Call) and src(n.ast.value.func) == "_compute_times" and [src(a_) for a_ in n.ast.value.args] == ["timeout"]]
        if not deadline:
            continue
        rederive = [n.id for n in cfg13.stmts() if isinstance(n.ast, ast.Assign) and src(n.ast.targets[0]) == "timeout" and isinstance(n.ast.value, ast.Call) and src(n.ast.value.func) in ("_timeout", "_remaining")]
        for (nd13, c13) in calls_with_nodes(cfg13):
            nm13 = c13.func.id if isinstance(c13.func, ast.Name) else None
            if nm13 not in tnames13 or nm13 in ("_compute_times",):
                continue
            callee13 = next((g for g in model.all_functions() if g.module.name == f13.module.name and g.node.name == nm13 and g.cls is None), None) if hasattr(f13, "cls") else None
            if callee13 is None:
                callee13 = next((g for g in model.all_functions() if g.module.name == f13.module.name and g.node.name == nm13), None)
            if callee13 is None or "timeout" not in callee13.params():
                continue
            idx13 = callee13.params().index("timeout")
            arg13 = c13.args[idx13] if len(c13.args) > idx13 else next((k.value for k in c13.keywords if k.arg == "timeout"), None)
            if not isinstance(arg13, ast.Name) or not cfg13.dominated_by_set(nd13.id, deadline):
                continue
            n13 += 1
            fresh = [n.id for n in cfg13.stmts() if isinstance(n.ast, ast.Assign) and src(n.ast.targets[0]) == arg13.id and isinstance(n.ast.value, ast.Call) and src(n.ast.value.func) in ("_timeout", "_remaining")]
            rep.check(bool(fresh) and cfg13.dominated_by_set(nd13.id, fresh), "R-18.13", f13.qualname, where(f13, c13), f"`{nm13}(... {arg13.id} ...)` receives the time left until the deadline",
                      f"`{nm13}(...)` is handed `{arg13.id}`, not the time left (`_timeout(expiration)`), after the deadline was fixed and time was spent (connect, handshake): the inner exchange starts a fresh budget and a reply after the caller's deadline is returned instead of Timeout",
                      stmt=f"remaining-time {nm13}")
    rep.floor("R-18.13", n13, 1)
    rep.meta["explanation"] = (
        "Path-feasibility argument for 'nothing returned unchecked' (each returning path becomes infeasible when is_response is assumed false, under each value of ignore_errors), "
        "event projection and comparison of 11 sync/async twin pairs, and loop-shape rules for stream framing. Behaviour under every datagram sequence and stream split is NOT enumerated.")


WITNESSES = [
    {"id": "c18-twin-tls-options-by-keyword", "rule": "R-18.12", "file": "dns/query.py", "expect": "silent",
     "old": "            source_port,\n            one_rr_per_rrset,\n            ignore_trailing,\n            sock,\n        )", "new": "            source_port,\n            ignore_trailing=ignore_trailing,\n            one_rr_per_rrset=one_rr_per_rrset,\n            sock=sock,\n        )", "count": 1},
    {"id": "c18-async-tls-restarts-the-budget", "rule": "R-18.13", "file": "dns/asyncquery.py", "expect": "fires",
     "old": "    async with cm as s:\n        timeout = _timeout(expiration)\n        response = await tcp(", "new": "    async with cm as s:\n        response = await tcp("},
    {"id": "c18-twin-async-tls-remaining-local", "rule": "R-18.13", "file": "dns/asyncquery.py", "expect": "silent",
     "old": "    async with cm as s:\n        timeout = _timeout(expiration)\n        response = await tcp(\n            q,\n            where,\n            timeout,", "new": "    async with cm as s:\n        left = _timeout(expiration)\n        response = await tcp(\n            q,\n            where,\n            left,"},
    {"id": "c18-tls-swaps-trailing-and-one-rr", "rule": "R-18.12", "file": "dns/query.py", "expect": "fires",
     "old": "            source_port,\n            one_rr_per_rrset,\n            ignore_trailing,\n            sock,\n        )", "new": "            source_port,\n            ignore_trailing,\n            one_rr_per_rrset,\n            sock,\n        )", "count": 1},
    {"id": "c18-async-tcp-connect-unbounded", "rule": "R-18.11", "file": "dns/asyncquery.py", "expect": "fires",
     "old": "            af, socket.SOCK_STREAM, 0, stuple, dtuple, timeout\n        )", "new": "            af, socket.SOCK_STREAM, 0, stuple, dtuple\n        )"},
    {"id": "c18-twin-async-tcp-connect-keyword", "rule": "R-18.11", "file": "dns/asyncquery.py", "expect": "silent",
     "old": "            af, socket.SOCK_STREAM, 0, stuple, dtuple, timeout\n        )", "new": "            af, socket.SOCK_STREAM, 0, stuple, dtuple, timeout=timeout\n        )"},
    {"id": "c18-xfr-clamp-takes-later-deadline", "rule": "R-18.9", "file": "dns/query.py", "expect": "fires",
     "old": "                expiration is not None and mexpiration > expiration", "new": "                expiration is not None and mexpiration < expiration", "count": 1},
    {"id": "c18-opcode-from-flags-three-bits", "rule": "R-18.8", "file": "dns/opcode.py", "expect": "fires",
     "old": "    return Opcode((flags & 0x7800) >> 11)", "new": "    return Opcode((flags >> 11) & 0x7)"},
    {"id": "c18-twin-opcode-from-flags-shift-first", "rule": "R-18.8", "file": "dns/opcode.py", "expect": "silent",
     "old": "    return Opcode((flags & 0x7800) >> 11)", "new": "    return Opcode((flags >> 11) & 0xF)"},
    {"id": "c18-async-receive-tcp-lenient-default", "rule": "R-18.8", "file": "dns/asyncquery.py", "expect": "fires",
     "old": "    ignore_trailing: bool = False,\n    ignore_errors: bool = False,\n) -> tuple[dns.message.Message, float]:\n    \"\"\"Read a DNS message from a TCP socket.", "new": "    ignore_trailing: bool = False,\n    ignore_errors: bool = True,\n) -> tuple[dns.message.Message, float]:\n    \"\"\"Read a DNS message from a TCP socket."},
    {"id": "c18-async-xfr-sendall-absolute-expiration", "rule": "R-18.7", "file": "dns/asyncquery.py", "expect": "fires",
     "old": "        await tcp_sock.sendall(tcpmsg, _timeout(expiration))", "new": "        await tcp_sock.sendall(tcpmsg, expiration)"},
    {"id": "c18-stream-recv-bare-wait-for", "rule": "R-18.6", "file": "dns/_asyncio_backend.py", "expect": "fires",
     "old": "        return await _maybe_wait_for(self.reader.read(size), timeout)", "new": "        return await asyncio.wait_for(self.reader.read(size), timeout)"},
    {"id": "c18-read-exactly-timeout-hoisted", "rule": "R-18.5", "file": "dns/asyncquery.py", "expect": "fires",
     "old": "    s = b\"\"\n    while count > 0:\n        n = await sock.recv(count, _timeout(expiration))", "new": "    s = b\"\"\n    timeout = _timeout(expiration)\n    while count > 0:\n        n = await sock.recv(count, timeout)"},
    {"id": "c18-twin-read-exactly-timeout-local-in-loop", "rule": "R-18.5", "file": "dns/asyncquery.py", "expect": "silent",
     "old": "    while count > 0:\n        n = await sock.recv(count, _timeout(expiration))", "new": "    while count > 0:\n        timeout = _timeout(expiration)\n        n = await sock.recv(count, timeout)"},
    {"id": "c18-asyncio-timeout-zero-means-forever", "rule": "R-18.4", "file": "dns/_asyncio_backend.py", "expect": "fires",
     "old": "async def _maybe_wait_for(awaitable, timeout):\n    if timeout is not None:", "new": "async def _maybe_wait_for(awaitable, timeout):\n    if timeout:"},
    {"id": "c18-async-tcp-unchecked", "rule": "R-18.1", "file": "dns/asyncquery.py", "expect": "fires",
     "old": "            ignore_trailing,\n        )\n        r.time = received_time - begin_time\n        if not q.is_response(r):\n            raise BadResponse\n        return r",
     "new": "            ignore_trailing,\n        )\n        r.time = received_time - begin_time\n        return r"},
    {"id": "c18-async-udp-continue-on-error", "rule": "R-18.2", "file": "dns/asyncquery.py", "expect": "fires",
     "old": "                raise_on_truncation=raise_on_truncation,\n            )\n        except dns.message.Truncated as e:\n            # See the comment in query.py for details.",
     "new": "                raise_on_truncation=raise_on_truncation,\n                continue_on_error=ignore_errors,\n            )\n        except dns.message.Truncated as e:\n            # See the comment in query.py for details."},
    {"id": "c18-net-read-short-at-eof", "rule": "R-18.3", "file": "dns/query.py", "expect": "fires",
     "old": "            if n == b\"\":\n                raise EOFError(\"EOF\")\n            count -= len(n)", "new": "            if n == b\"\":\n                break\n            count -= len(n)"},
    {"id": "c18-udp-bad-response-accepted", "rule": "R-18.1", "file": "dns/query.py", "expect": "fires",
     "old": "        if not (ignore_errors or q.is_response(r)):\n            raise BadResponse\n        return r\n    assert (\n        False  # help mypy figure out we can't get here  lgtm[py/unreachable-statement]\n    )\n\n\ndef udp_with_fallback",
     "new": "        return r\n    assert (\n        False  # help mypy figure out we can't get here  lgtm[py/unreachable-statement]\n    )\n\n\ndef udp_with_fallback"},
    {"id": "c18-receive-udp-no-query-filter", "rule": "R-18.1", "file": "dns/query.py", "expect": "fires",
     "old": "        if ignore_errors and query is not None and not query.is_response(r):\n            continue\n        if destination:", "new": "        if destination:"},
    {"id": "c18-parse-before-destination", "rule": "R-18.1", "file": "dns/query.py", "expect": "fires",
     "old": "        if not _matches_destination(\n            sock.family, from_address, destination, ignore_unexpected\n        ):\n            continue\n        received_time = time.time()\n        try:\n            r = dns.message.from_wire(",
     "new": "        received_time = time.time()\n        try:\n            r = dns.message.from_wire("},
    {"id": "c18-is-response-no-opcode", "rule": "R-18.1", "file": "dns/message.py", "expect": "fires",
     "old": "            or self.id != other.id\n            or dns.opcode.from_flags(self.flags) != dns.opcode.from_flags(other.flags)\n        ):", "new": "            or self.id != other.id\n        ):"},
    {"id": "c18-async-quic-wrong-mac", "rule": "R-18.2", "file": "dns/asyncquery.py", "expect": "fires",
     "old": "            request_mac=q.request_mac,\n            one_rr_per_rrset=one_rr_per_rrset,\n            ignore_trailing=ignore_trailing,\n        )\n    r.time = max(finish - start, 0.0)\n    if not q.is_response(r):\n        raise BadResponse\n    return r\n\n\nasync def _inbound_xfr",
     "new": "            request_mac=q.request_mac,\n            one_rr_per_rrset=one_rr_per_rrset,\n            ignore_trailing=True,\n        )\n    r.time = max(finish - start, 0.0)\n    if not q.is_response(r):\n        raise BadResponse\n    return r\n\n\nasync def _inbound_xfr"},
    {"id": "c18-write-ignores-partial", "rule": "R-18.3", "file": "dns/query.py", "expect": "fires",
     "old": "            current += sock.send(data[current:])", "new": "            sock.send(data[current:])\n            current = l"},
    {"id": "c18-twin-local-rename", "rule": "R-18.2", "file": "dns/asyncquery.py", "expect": "silent",
     "old": "    ldata = await _read_exactly(sock, 2, expiration)\n    (l,) = struct.unpack(\"!H\", ldata)\n    wire = await _read_exactly(sock, l, expiration)\n    received_time = time.time()\n    r = dns.message.from_wire(",
     "new": "    ldata = await _read_exactly(sock, 2, expiration)\n    (l,) = struct.unpack(\"!H\", ldata)\n    wire = await _read_exactly(sock, l, expiration)\n    received_time = time.time()\n    await backend_noop() if False else None\n    r = dns.message.from_wire("},
]
