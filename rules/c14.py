"""C14 TSIG: digest composition vs RFC 8945 4.3, validation ordering, algorithm tables, position rule."""
from __future__ import annotations

import ast
import struct

from engine.cfg import CFG, normalise_compare, atoms, A
from engine.model import src, stmt_key, dotted, AnalysisError
from engine.project import feasible_paths
from engine import pat
from rules import roles
from engine.util import own_nodes, calls_with_nodes, where

RULES = {
    "R-14.11": "adopted from C18: the synchronous and asynchronous transports hand the same request MAC, keyring and flags to the reader (R-18.2) - a response is validated against the MAC of the query it answers on every transport",
    "R-14.1": "the ordered ctx.update() inputs of _digest equal the RFC 8945 4.3 composition under every valuation of (first, request MAC present); multi-message continuation starts with the length-prefixed prior MAC",
    "R-14.2": "validate digests the message with ARCOUNT-1 cut at the TSIG, performs error/time/key/algorithm checks before the MAC check, and every normal return is dominated by ctx.verify(rdata.mac); HMAC verify is a constant-time comparison of the (possibly truncated) digest",
    "R-14.3": "HMACTSig._hashes and mac_sizes agree (keys, hash function per algorithm name, digest or truncated size)",
    "R-14.10": "a message with a key is signed every time it is rendered: `want_tsig_sign` is written only by the constructor and use_tsig(); rendering never clears it (a second to_wire() after the content changed, or after the fudge window, would re-emit the stale MAC and time)",
    "R-14.9": "the algorithm a signer writes into the TSIG record is the algorithm of the key that computes the MAC: Renderer.add_tsig / add_multi_tsig build the template with `key.algorithm` (a Key object of another algorithm than the `algorithm` argument would otherwise produce a message its own key rejects with BadAlgorithm)",
    "R-14.8": "the TSIG record is read exactly: the 48-bit time, the 16-bit fudge/sizes and the MAC come through the bounded, exact-width Parser reads (rule of C04 R-04.5, run here directly)",
    "R-14.7": "every field of the TSIG RR that the digest replaces by a constant is pinned by the reader: _digest packs TTL 0 (RFC 8945 4.2: the TTL MUST be 0), so the wire reader refuses a TSIG RR whose TTL is not 0 before it validates - otherwise 32 bits of the signed message can be altered without the MAC noticing",
    "R-14.6": "every transport verifies the response against the MAC of the query it sent: the request_mac handed to the response parser is the query's `.mac` (or the function's own request_mac parameter), never `.request_mac` of the query (b'' for a query); a TSIG-keyed transfer ends with a signed message",
    "R-14.5": "every signer entry point hands the request MAC (and, for multi-message signing, the running context) it was given to dns.tsig.sign; an unsigned intermediate message of a multi-message sequence is digested whole (RFC 8945 5.3.1)",
    "R-14.4": "a TSIG that is not the last record / class ANY / in ADDITIONAL raises BadTSIG (a FormError); Message.to_wire signs the wire produced after write_header()",
}

HASH_SIZES = {"sha1": 20, "sha224": 28, "sha256": 32, "sha384": 48, "sha512": 64, "md5": 16}

# RFC 8945 section 4.3.3 (+ 4.3.2 request MAC, 5.3.1 subsequent messages)
REQUEST_MAC = ["u16:len(request_mac)", "bytes:request_mac"]
MESSAGE = ["u16:rdata.original_id", "bytes:wire[2:]"]
VARIABLES_1 = ["canon:key.name", "u16:dns.rdataclass.ANY", "u32:0", "canon:key.algorithm"]
TIMERS = ["u16:time.hi16", "u32:time.lo32", "u16:rdata.fudge"]
VARIABLES_2 = ["u16:rdata.error", "u16:len(rdata.other)", "bytes:rdata.other"]
EXPECT = {
    (True, True): REQUEST_MAC + MESSAGE + VARIABLES_1 + TIMERS + VARIABLES_2,
    (True, False): MESSAGE + VARIABLES_1 + TIMERS + VARIABLES_2,
    (False, True): MESSAGE + TIMERS,
    (False, False): MESSAGE + TIMERS,
}
WIDTH = {"B": "u8", "H": "u16", "I": "u32", "Q": "u64"}


class Tokenizer:
    def __init__(self, fn_node):
        self.defs = {}
        for n in ast.walk(fn_node):
            if isinstance(n, ast.Assign) and len(n.targets) == 1 and isinstance(n.targets[0], ast.Name):
                self.defs.setdefault(n.targets[0].id, []).append(n.value)

    def scalar(self, e, depth=0) -> str:
        s = " ".join(src(e).split())
        if isinstance(e, ast.Name) and e.id in self.defs and depth < 4:
            vals = [v for v in self.defs[e.id]]
            # `time` may be rebound to rdata.time_signed: still the signing time
            if e.id == "time":
                return "time"
            if len(vals) == 1:
                return self.scalar(vals[0], depth + 1)
        s = s.replace("rdata.time_signed", "time")
        if s in ("(time >> 32) & 65535", "time >> 32 & 65535"):
            return "time.hi16"
        if s in ("time & 4294967295",):
            return "time.lo32"
        return s

    def tokens(self, e, depth=0) -> list[str]:
        if depth > 6:
            return [f"?:{src(e)[:30]}"]
        if isinstance(e, ast.BinOp) and isinstance(e.op, ast.Add):
            return self.tokens(e.left, depth + 1) + self.tokens(e.right, depth + 1)
        if isinstance(e, ast.Call) and dotted(e.func) == "struct.pack" and e.args and isinstance(e.args[0], ast.Constant):
            fmt = e.args[0].value
            chars = [c for c in fmt if c not in "!<>=@"]
            if len(chars) != len(e.args) - 1 or any(c not in WIDTH for c in chars) or not fmt.startswith("!"):
                return [f"?:struct.pack({fmt!r})"]
            return [f"{WIDTH[c]}:{self.scalar(a)}" for c, a in zip(chars, e.args[1:])]
        if isinstance(e, ast.Call) and isinstance(e.func, ast.Attribute) and e.func.attr == "to_digestable" and not e.args:
            return [f"canon:{src(e.func.value)}"]
        if isinstance(e, ast.Name) and e.id in self.defs and len(self.defs[e.id]) == 1 and e.id not in ("wire", "request_mac"):
            return self.tokens(self.defs[e.id][0], depth + 1)
        return [f"bytes:{' '.join(src(e).split())}"]


def run(model, rep, tier):
    dg = pat.canon_func(model.func("dns.tsig._digest"), ["__first = not (ctx and multi)", "__upper_time = (time >> 32) & 65535", "__lower_time = time & 4294967295",
                                                          "__time_encoded = struct.pack('!HIH', __upper_time, __lower_time, rdata.fudge)", "__other_len = len(rdata.other)"])
    cfg = CFG(dg.node, implicit_exc=False)
    tk = Tokenizer(dg.node)
    # `first` must be defined as not (ctx and multi)
    fd = [" ".join(src(v).split()) for v in tk.defs.get("first", [])]
    rep.check(fd == ["not (ctx and multi)"], "R-14.1", dg.qualname, where(dg, dg.node), "first = not (ctx and multi)", f"`first` is computed as {fd}", stmt="first-def")
    n_val = 0
    for (first, have_mac), want in sorted(EXPECT.items(), reverse=True):
        val = {"first": first, "request_mac": have_mac, "other_len > 65535": False}
        paths = feasible_paths(cfg, val)
        if not paths:
            rep.blind("R-14.1", dg.qualname, where(dg, dg.node), f"no feasible path for first={first}, request_mac={'set' if have_mac else 'empty'}", stmt=f"first={first},mac={have_mac}")
            continue
        seqs = set()
        for p in paths:
            toks = []
            for (i, k) in p:
                n = cfg.nodes[i]
                if n.ast is None or n.kind != "stmt":
                    continue
                for e in own_nodes(n.ast):
                    if isinstance(e, ast.Call) and isinstance(e.func, ast.Attribute) and e.func.attr == "update" and src(e.func.value) == "ctx":
                        toks += tk.tokens(e.args[0])
            seqs.add(tuple(toks))
        n_val += 1
        label = f"first={first}, request_mac={'present' if have_mac else 'empty'}"
        if len(seqs) != 1:
            rep.bad("R-14.1", dg.qualname, where(dg, dg.node), f"{label}: digest input depends on something other than (first, request_mac): {sorted(seqs)[:2]}", stmt=label)
            continue
        got = list(seqs.pop())
        if got == want:
            rep.ok("R-14.1", dg.qualname, where(dg, dg.node), f"{label}: " + " | ".join(got), stmt=label)
        else:
            missing = [t for t in want if t not in got]
            extra = [t for t in got if t not in want]
            rep.bad("R-14.1", dg.qualname, where(dg, dg.node),
                    f"{label}: digest input is [{' | '.join(got)}] but RFC 8945 4.3 requires [{' | '.join(want)}]; missing {missing}, unexpected {extra}"
                    + ("" if missing or extra else " (order differs)"), stmt=label)
    rep.floor("R-14.1", n_val, 4)
    gc = dg
    rep.check("ctx = get_context(key)" in src(dg.node), "R-14.1", dg.qualname, where(dg, dg.node), "a fresh HMAC context keyed with the key for a first message", "first message does not start a fresh keyed context", stmt="fresh-ctx")
    ms = pat.canon_func(model.func("dns.tsig._maybe_start_digest"), ["__ctx = get_context(key)"])
    c2 = CFG(ms.node, implicit_exc=False)
    tk2 = Tokenizer(ms.node)
    p = feasible_paths(c2, {"multi": True})
    toks = []
    for (i, k) in (p[0] if p else []):
        n = c2.nodes[i]
        if n.ast is not None and n.kind == "stmt":
            for e in own_nodes(n.ast):
                if isinstance(e, ast.Call) and isinstance(e.func, ast.Attribute) and e.func.attr == "update" and src(e.func.value) == "ctx":
                    toks += tk2.tokens(e.args[0])
    rep.check(toks == ["u16:len(mac)", "bytes:mac"] and "ctx = get_context(key)" in src(ms.node), "R-14.1", ms.qualname, where(ms, ms.node),
              "next message's digest starts with u16 len(prior MAC) | prior MAC in a fresh keyed context", f"continuation digest starts with {toks}", stmt="continuation")
    pn = feasible_paths(c2, {"multi": False})
    rets = [src(c2.nodes[i].ast.value) for pp in pn for (i, k) in pp if isinstance(c2.nodes[i].ast, ast.Return)]
    rep.check(rets == ["None"], "R-14.1", ms.qualname, where(ms, ms.node), "no continuation context for single messages", f"single message returns {rets}", stmt="no-continuation")
    sg = pat.canon_func(model.func("dns.tsig.sign"), ["__mac = ctx.sign()", "__tsig = rdata.replace(...)"])
    t = " ".join(src(sg.node).split())
    rep.check("ctx = _digest(wire, key, rdata, time, request_mac, ctx, multi)" in t and "mac = ctx.sign()" in t and "rdata.replace(time_signed=time, mac=mac)" in t
              and "_maybe_start_digest(key, mac, multi)" in t, "R-14.1", sg.qualname, where(sg, sg.node), "sign = _digest -> ctx.sign() -> TSIG with that MAC and time; chains on the new MAC",
              "sign() no longer (digests, signs, stores mac/time, chains the continuation on the new MAC)", stmt="sign-shape")

    # ---------------------------------------------------------------- R-14.2
    va = pat.canon_func(model.func("dns.tsig.validate"), ["(__adcount,) = struct.unpack('!H', wire[10:12])", "__new_wire = wire[0:10] + struct.pack('!H', __adcount) + wire[12:tsig_start]"])
    cv = CFG(va.node, implicit_exc=False)
    tkv = Tokenizer(va.node)
    nw = tkv.defs.get("new_wire", [])
    toks = tkv.tokens(nw[0]) if len(nw) == 1 else []
    rep.check(toks == ["bytes:wire[0:10]", "u16:adcount", "bytes:wire[12:tsig_start]"], "R-14.2", va.qualname, where(va, va.node),
              "digested wire = header[0:10] | ARCOUNT | body up to the TSIG RR", f"the wire that is digested is {toks}", stmt="new-wire")
    body = [stmt_key(s) for s in va.node.body]
    okk = any(b.replace("(", "").replace(")", "").replace(" ", "") == "adcount,=struct.unpack'!H',wire[10:12]" for b in body) and "adcount -= 1" in body and body.index("adcount -= 1") < next((i for i, b in enumerate(body) if b.startswith("new_wire =")), -1)
    rep.check(okk, "R-14.2", va.qualname, where(va, va.node), "ARCOUNT read from wire[10:12] and decremented before use", "ARCOUNT is not (read from the header and decremented) before the digest", stmt="adcount")
    dcalls = [(n, c) for (n, c) in calls_with_nodes(cv) if src(c.func) == "_digest"]
    okk = len(dcalls) == 1 and [src(a) for a in dcalls[0][1].args] == ["new_wire", "key", "rdata", "None", "request_mac", "ctx", "multi"]
    rep.check(okk, "R-14.2", va.qualname, where(va, va.node), "_digest(new_wire, key, rdata, None, request_mac, ctx, multi)", "validate digests something other than the reconstructed wire / request MAC", stmt="digest-args")
    ver = [n for (n, c) in calls_with_nodes(cv) if src(c.func) == "ctx.verify" and [src(a) for a in c.args] == ["rdata.mac"]]
    rets = [n for n in cv.nodes if isinstance(n.ast, ast.Return)]
    rep.check(len(ver) == 1 and bool(rets) and all(cv.dominated_by_set(r.id, [ver[0].id]) for r in rets), "R-14.2", va.qualname, where(va, va.node),
              "every normal return passes ctx.verify(rdata.mac)", "validate can return without verifying the MAC", stmt="verify-dominates")
    checks = [
        ("rdata.error != 0", None, "peer-reported TSIG error"),
        ("abs(rdata.time_signed - now) > rdata.fudge", "BadTime", "time window"),
        ("key.name != owner", "BadKey", "key name"),
        ("key.algorithm != rdata.algorithm", "BadAlgorithm", "algorithm"),
    ]
    for test_s, exc, what in checks:
        ts = [t for t in cv.nodes if t.kind == "test" and " ".join(src(t.ast.test).split()) == test_s]
        okk = len(ts) == 1 and bool(ver) and cv.edge_dominated(ver[0].id, {(ts[0].id, "f")})
        if okk:
            # the true side never reaches a normal return
            start = [y for (y, k) in cv.succ[ts[0].id] if k == "t"]
            okk = cv.exit.id not in cv.reachable(start)
            if exc:
                okk = okk and any(isinstance(cv.nodes[i].ast, ast.Raise) and exc in src(cv.nodes[i].ast) for i in cv.reachable(start))
        rep.check(okk, "R-14.2", va.qualname, where(va, va.node), f"{what} check `{test_s}` precedes the MAC check and always raises",
                  f"{what} check is missing, weakened or can fall through (expected `{test_s}` -> raise before verify)", stmt=f"check {what}")
    hv = pat.canon_func(model.func("dns.tsig.HMACTSig.verify"), ["__mac = self.sign()"])
    t = " ".join(src(hv.node).split())
    rep.check("mac = self.sign()" in t and "if not hmac.compare_digest(mac, expected): raise BadSignature" in t, "R-14.2", hv.qualname, where(hv, hv.node),
              "constant-time comparison of the whole computed MAC, BadSignature otherwise", "HMAC verify is not `compare_digest(self.sign(), expected)` -> BadSignature", stmt="hmac-verify")
    hs = pat.canon_func(model.func("dns.tsig.HMACTSig.sign"), ["__digest = self.hmac_context.digest()"])
    t = " ".join(src(hs.node).split())
    rep.check("digest = self.hmac_context.digest()" in t and "digest = digest[:self.size // 8]" in t and t.endswith("return digest"), "R-14.2", hs.qualname, where(hs, hs.node),
              "MAC = HMAC digest, truncated to size/8 octets for the truncated variants", "HMAC sign/truncation changed", stmt="hmac-sign")

    # ---------------------------------------------------------------- R-14.3
    tm = model.module("dns.tsig")
    names = {}
    for k, v in tm.assigns.items():
        if isinstance(v, ast.Call) and src(v.func) == "dns.name.from_text" and v.args and isinstance(v.args[0], ast.Constant):
            names[k] = v.args[0].value.lower()
    ms_node = tm.assigns.get("mac_sizes")
    hcls = model.cls("dns.tsig.HMACTSig")
    hashes_node = hcls.assigns.get("_hashes")
    if not isinstance(ms_node, ast.Dict) or not isinstance(hashes_node, ast.Dict):
        raise AnalysisError("mac_sizes / HMACTSig._hashes are not dict displays")
    sizes = {src(k): model.const(tm, v) for k, v in zip(ms_node.keys, ms_node.values)}
    hashes = {}
    for k, v in zip(hashes_node.keys, hashes_node.values):
        if isinstance(v, ast.Tuple):
            hashes[src(k)] = (src(v.elts[0]), model.const(tm, v.elts[1]))
        else:
            hashes[src(k)] = (src(v), None)
    rep.check(set(hashes) == set(sizes) - {"GSS_TSIG"}, "R-14.3", "dns.tsig.mac_sizes", tm.relpath, "same algorithms in _hashes and mac_sizes",
              f"_hashes and mac_sizes disagree on the algorithm set: {sorted(set(hashes) ^ (set(sizes) - {'GSS_TSIG'}))}", stmt="key-sets")
    for alg, (fn, bits) in sorted(hashes.items()):
        hname = fn.replace("hashlib.", "")
        dsize = HASH_SIZES.get(hname)
        want = bits // 8 if bits else dsize
        text = names.get(alg, "")
        # algorithm name must say the same hash (and truncation)
        exp = ("hmac-md5.sig-alg.reg.int" if hname == "md5" else f"hmac-{hname}" + (f"-{bits}" if bits else ""))
        rep.check(dsize is not None and sizes.get(alg) == want and text == exp and (bits is None or bits % 8 == 0 and bits // 8 <= dsize), "R-14.3", f"dns.tsig.{alg}", tm.relpath,
                  f"{text}: {fn}{f' truncated to {bits} bits' if bits else ''} -> {want} octets", f"{alg} ('{text}'): hash {fn}, truncation {bits}, mac_sizes {sizes.get(alg)} – expected name {exp}, size {want}", stmt=alg)
    rep.floor("R-14.3", len(hashes), 9)

    # ---------------------------------------------------------------- R-14.4
    sp = model.func("dns.message.Message._parse_special_rr_header")
    cs = CFG(sp.node, implicit_exc=False)
    tt = [t for t in cs.nodes if t.kind == "test" and normalise_compare(t.ast.test)[0] == "or" and set(atoms(normalise_compare(t.ast.test))) ==
          {A("section", "!=", "MessageSection.ADDITIONAL"), A("rdclass", "!=", "dns.rdatatype.ANY"), A("position", "!=", "count - 1")}]
    rb = [n for n in cs.nodes if isinstance(n.ast, ast.Raise) and src(n.ast) == "raise BadTSIG"]
    ty = [t for t in cs.nodes if t.kind == "test" and atoms(normalise_compare(t.ast.test)) == [("rdtype", "==", "dns.rdatatype.TSIG")]]
    okk = len(tt) == 1 and len(rb) == 1 and cs.edge_dominated(rb[0].id, {(tt[0].id, "t")}) and len(ty) == 1 and cs.edge_dominated(tt[0].id, {(ty[0].id, "t")})
    rep.check(okk, "R-14.4", sp.qualname, where(sp, sp.node), "TSIG must be the last record, class ANY, in ADDITIONAL, else BadTSIG", "the TSIG position/class/section test changed", stmt="tsig-position")
    bt = model.cls("dns.message.BadTSIG")
    rep.check(model.is_subclass(bt, "dns.exception.FormError"), "R-14.4", bt.qualname, bt.file, "BadTSIG is a FormError", "BadTSIG is no longer a FormError", stmt="badtsig-base")
    gs = pat.canon_func(model.func("dns.message._WireReader._get_section"), roles.GET_SECTION)
    t = " ".join(src(gs.node).split())
    rep.check("self.message._parse_special_rr_header( section_number, count, i, name, rdclass, rdtype )".replace("( ", "(").replace(" )", ")") in t and "for i in range(count)" in t,
              "R-14.4", gs.qualname, where(gs, gs.node), "the reader passes (section, count, position) of every TSIG/OPT to the special-header check",
              "the reader no longer passes (section, count, position) to the special-header check", stmt="position-args")
    # the key is looked up, built and validated under the owner name as it is on the wire (absolute), never under the name relativized to the message origin
    uses = []
    for c in ast.walk(gs.node):
        if isinstance(c, ast.Call):
            fn = src(c.func)
            if fn == "self.keyring.get" and c.args:
                uses.append(("keyring.get", c.args[0], c))
            elif fn == "dns.tsig.Key" and c.args:
                uses.append(("dns.tsig.Key", c.args[0], c))
            elif fn == "self.keyring" and len(c.args) >= 2:
                uses.append(("keyring(message, name)", c.args[1], c))
    rep.floor("R-14.4-keyname-uses", len(uses), 3)
    for (what, a, c) in uses:
        rep.check(src(a) == "absolute_name", "R-14.4", gs.qualname, where(gs, c), f"{what} uses the absolute owner name", f"{what} is given `{src(a)}` instead of the absolute owner name read from the wire: with a message origin "
                  "(zone transfers) a key at or below the origin is looked up under its relativized name and genuine signed messages are rejected with UnknownTSIGKey", stmt="keyname " + what)
    vc = [c for c in ast.walk(gs.node) if isinstance(c, ast.Call) and src(c.func) == "dns.tsig.validate"]
    want_args = ["self.parser.wire", "key", "absolute_name", "rd", "int(time.time())", "self.message.request_mac", "rr_start", "self.message.tsig_ctx", "self.multi"]
    rep.check(len(vc) == 1 and [" ".join(src(a).split()) for a in vc[0].args] == want_args, "R-14.4", gs.qualname, where(gs, gs.node),
              "validate(wire, key, owner, rdata, now, request_mac, start of the TSIG RR, ctx, multi)", "the arguments handed to dns.tsig.validate changed", stmt="validate-args")
    tw = pat.canon_func(model.func("dns.message.Message.to_wire"), roles.MESSAGE_TO_WIRE)
    ct = CFG(tw.node, implicit_exc=False)
    sc = [(n, c) for (n, c) in calls_with_nodes(ct) if src(c.func) == "dns.tsig.sign"]
    wh = [n.id for (n, c) in calls_with_nodes(ct) if src(c.func) == "r.write_header"]
    adds = [n.id for (n, c) in calls_with_nodes(ct) if src(c.func) in ("r.add_rrset", "r.add_question", "r.add_opt")]
    okk = len(sc) == 1 and bool(wh) and ct.dominated_by_set(sc[0][0].id, wh) and src(sc[0][1].args[0]) == "r.get_wire()"
    if okk:
        # nothing is added between the last write_header and the signing
        last = [w for w in wh if sc[0][0].id in ct.reachable([w])]
        okk = all(not (a in ct.reachable([w]) and sc[0][0].id in ct.reachable([a])) for w in last for a in adds)
    rep.check(okk, "R-14.4", tw.qualname, where(tw, tw.node), "signs r.get_wire() after write_header() with nothing added in between", "the message is signed before its header/sections are final", stmt="sign-after-header")
    if sc:
        a = [" ".join(src(x).split()) for x in sc[0][1].args]
        rep.check(a == ["r.get_wire()", "self.keyring", "self.tsig[0]", "int(time.time())", "self.request_mac", "tsig_ctx", "multi"], "R-14.4", tw.qualname, where(tw, sc[0][1]),
                  "sign(wire, key, tsig template, now, request_mac, ctx, multi)", f"sign arguments are {a}", stmt="sign-args")
    rep.assume("hmac/hashlib implement HMAC and the named hash functions; rejection of every bit flip follows from HMAC and is not enumerated")
    # ---------------------------------------------------------------- R-14.5
    from rules.common import forwarded
    n_fw = 0
    for qn in ("dns.renderer.Renderer.add_tsig", "dns.renderer.Renderer.add_multi_tsig"):
        f5 = model.func(qn)
        for prm in ("request_mac", "ctx"):
            if prm in f5.params():
                n_fw += forwarded(model, rep, "R-14.5", f5, prm, lambda c, cal: cal.qualname == "dns.tsig.sign",
                                  "a response signed without the request MAC is not bound to its request (RFC 8945 4.3.1); a continuation signed without the running context breaks the MAC chain")
    rep.floor("R-14.5", n_fw, 3)
    rd5 = model.func("dns.message._WireReader.read")
    ups = [c for c in ast.walk(rd5.node) if isinstance(c, ast.Call) and src(c.func) == "self.message.tsig_ctx.update"]
    rep.check(len(ups) == 1 and [src(a) for a in ups[0].args] == ["self.parser.wire"], "R-14.5", rd5.qualname, where(rd5, ups[0] if ups else rd5.node),
              "an unsigned intermediate message is digested whole (self.parser.wire)", f"an unsigned intermediate message is digested as {[src(a) for c in ups for a in c.args]}, not as the whole message: "
              "a conforming signed/unsigned/signed sequence fails with BadSignature and part of the unsigned message is not authenticated", stmt="unsigned-intermediate-digest")
    # ---------------------------------------------------------------- R-14.6
    n_rm = 0
    for f6 in sorted(model.all_functions(), key=lambda g: g.qualname):
        if f6.module.name not in ("dns.query", "dns.asyncquery", "dns.nameserver", "dns.xfr"):
            continue
        for c in ast.walk(f6.node):
            if not isinstance(c, ast.Call):
                continue
            vals = [k.value for k in c.keywords if k.arg == "request_mac"]
            callee = model.functions.get(model.resolve_expr(f6, c.func))
            if callee is not None and "request_mac" in callee.params() and not vals:
                ps = [p_ for p_ in callee.params() if p_ not in ("self", "cls")]
                i_ = ps.index("request_mac")
                if len(c.args) > i_ and not any(isinstance(a, ast.Starred) for a in c.args):
                    vals = [c.args[i_]]
            for v in vals:
                n_rm += 1
                okk = (isinstance(v, ast.Name) and v.id == "request_mac" and "request_mac" in f6.params()) or (isinstance(v, ast.Attribute) and v.attr == "mac")
                rep.check(okk, "R-14.6", f6.qualname, where(f6, c), f"`{src(c.func)}` verifies against `{src(v)}`",
                          f"`{src(c.func)}` is given request_mac=`{src(v)}`: the response to a signed query is bound to the MAC computed when the query was rendered (`<query>.mac`); "
                          "`.request_mac` of a query is b'', so a genuine signed response fails with BadSignature (and one bound to no request would verify)", stmt=f"request-mac {src(c.func)}")
    rep.floor("R-14.6", n_rm, 12)
    for qn in ("dns.query._inbound_xfr", "dns.asyncquery._inbound_xfr"):
        fx = model.func(qn)
        ends = []
        for n in ast.walk(fx.node):
            if isinstance(n, ast.If) and any(isinstance(b, ast.Raise) for b in n.body):
                at = set(atoms(normalise_compare(n.test)))
                if any(a[0].endswith(".had_tsig") for a in at) or any(a[0].endswith(".tsig_ctx") for a in at) and any(a[0] == "query.keyring" for a in at):
                    ends.append((n, at))
        okk = len(ends) == 1 and any(a[0] == "query.keyring" and a[1] == "truthy" for a in ends[0][1]) and any(a[0].endswith(".had_tsig") and a[1] == "falsy" for a in ends[0][1])
        rep.check(okk, "R-14.6", fx.qualname, where(fx, ends[0][0] if ends else fx.node), "a keyed transfer whose last message carried no TSIG is refused (`query.keyring and not r.had_tsig`)",
                  "the end-of-transfer test is no longer `query.keyring and not <last>.had_tsig`: " + (f"it tests {sorted(ends[0][1])}" if ends else "not found") +
                  " - the running context is set on every message after the first signed one, so only had_tsig tells whether the LAST message was signed (an unsigned forged tail is accepted)", stmt="last-message-signed")
        fw = [c for c in ast.walk(fx.node) if isinstance(c, ast.Call) and src(c.func) == "dns.message.from_wire"]
        kw = {k.arg: src(k.value) for c in fw for k in c.keywords}
        chained = pat.has(fx.node, f"{kw.get('tsig_ctx', '__none')} = __r.tsig_ctx") if kw.get("tsig_ctx") else False
        rep.check(len(fw) == 1 and bool(chained) and "multi" in kw, "R-14.6", fx.qualname, where(fx, fw[0] if fw else fx.node), "each message is verified with the context left by the previous one",
                  f"the multi-message context is not chained through the receive loop (tsig_ctx={kw.get('tsig_ctx')}, multi={kw.get('multi')})", stmt="ctx-chained")
    # ---------------------------------------------------------------- R-14.7
    gs7 = model.func("dns.message._WireReader._get_section")
    c7 = CFG(gs7.node, implicit_exc=False)
    vals = [n for (n, c) in calls_with_nodes(c7) if src(c.func) == "dns.tsig.validate"]
    ttl_guards = [t for t in c7.nodes if t.kind == "test" and isinstance(t.ast, ast.If) and t.ast.body and isinstance(t.ast.body[-1], ast.Raise)
                  and any(a[0] == "ttl" and a[1] == "!=" and a[2] == "0" for a in atoms(normalise_compare(t.ast.test)))]
    const_ttl = pat.has_expr(dg.node, "struct.pack('!I', 0)")
    if not vals:
        rep.blind("R-14.7", gs7.qualname, where(gs7, gs7.node), "the dns.tsig.validate call of the wire reader was not found", stmt="tsig-ttl")
    else:
        okk = (not const_ttl) or (bool(ttl_guards) and all(c7.edge_dominated(v.id, {(g.id, "f") for g in ttl_guards}) for v in vals))
        rep.check(okk, "R-14.7", gs7.qualname, where(gs7, vals[0].ast), "a TSIG RR with a non-zero TTL is refused before validation (the digest assumes 0)",
                  "_digest packs a constant 0 for the TSIG TTL, and nothing refuses a TSIG RR whose wire TTL is not 0 before dns.tsig.validate: flipping any of the 32 TTL bits of a signed "
                  "message still validates", stmt="tsig-ttl")
    n_w10 = 0
    for f10 in sorted(model.all_functions(), key=lambda g: g.qualname):
        if not f10.module.name.startswith("dns."):
            continue
        for x in ast.walk(f10.node):
            if isinstance(x, (ast.Assign, ast.AugAssign)) and any(isinstance(t_, ast.Attribute) and t_.attr == "want_tsig_sign" for t_ in (x.targets if isinstance(x, ast.Assign) else [x.target])):
                n_w10 += 1
                rep.check(f10.qualname in ("dns.message.Message.__init__", "dns.message.Message.use_tsig"), "R-14.10", f10.qualname, where(f10, x), "want_tsig_sign set by the constructor / use_tsig only",
                          f"`{src(x)}` in {f10.name}: the signing request is changed outside the constructor and use_tsig() - e.g. cleared after the first render, so later renders of the same message carry a stale "
                          "signature (BadSignature / BadTime at the receiver)", stmt="want-sign-writers")
    rep.floor("R-14.10", n_w10, 2)
    mr14 = model.func("dns.message.make_response")
    st14 = [x for x in ast.walk(mr14.node) if isinstance(x, ast.Assign) and any(src(t_).endswith(".request_mac") for t_ in x.targets)]
    if len(st14) != 1:
        rep.blind("R-14.5", mr14.qualname, where(mr14, mr14.node), "the `response.request_mac = query.mac` store was not found", stmt="response-bound-to-request")
    else:
        encl = [n for n in ast.walk(mr14.node) if isinstance(n, ast.If) and any(y is st14[0] for b in n.body + n.orelse for y in ast.walk(b))]
        extra = [n for n in encl if not any(a[0].endswith(".had_tsig") or a[0].endswith(".keyring") for a in atoms(normalise_compare(n.test)))]
        rep.check(src(st14[0].value).endswith(".mac") and not extra, "R-14.5", mr14.qualname, where(mr14, st14[0]), "every response to a signed query is bound to the query's MAC",
                  f"`{src(st14[0])}` is conditional on `{src(extra[0].test)[:40]}`: some responses to a signed query (e.g. those carrying a TSIG error, which RFC 8945 5.2.3 still signs with the request MAC) "
                  "are signed as if bound to no request" if extra else "the response is not bound to `query.mac`", stmt="response-bound-to-request")
    for qn in ("dns.renderer.Renderer.add_tsig", "dns.renderer.Renderer.add_multi_tsig"):
        f9 = model.func(qn)
        mk9 = [c for c in ast.walk(f9.node) if isinstance(c, ast.Call) and src(c.func).endswith("_make_tsig") and len(c.args) >= 2]
        signs = [c for c in ast.walk(f9.node) if isinstance(c, ast.Call) and src(c.func) == "dns.tsig.sign" and len(c.args) >= 2]
        if len(mk9) != 1 or len(signs) != 1:
            rep.blind("R-14.9", qn, where(f9, f9.node), "the `_make_tsig(keyname, algorithm, ...)` / `dns.tsig.sign(wire, key, ...)` calls were not found", stmt="template-algorithm")
        else:
            keyvar = src(signs[0].args[1])
            rep.check(src(mk9[0].args[1]) == f"{keyvar}.algorithm", "R-14.9", qn, where(f9, mk9[0]), f"TSIG template algorithm = {keyvar}.algorithm",
                      f"the TSIG template is built with algorithm `{src(mk9[0].args[1])}` but the MAC is computed by `{keyvar}` (its own algorithm): with a Key of another algorithm the message is rejected by "
                      "that same key (BadAlgorithm)", stmt="template-algorithm")
    from rules.c04 import check_parser_reads
    check_parser_reads(model, rep, "R-14.8")
    rep.share(model, "C18", {"R-18.2"}, "R-14.11", "a TSIG response is bound to its request through request_mac=q.mac passed by udp/tcp/tls/https/quic to receive_*/from_wire; the async twin dropping it validates against an empty MAC")
    rep.meta["explanation"] = (
        "Ordered-effect projection of dns.tsig._digest: for each valuation of (first, request MAC present) the feasible CFG paths are walked and the arguments of ctx.update are "
        "flattened into typed tokens (struct formats expanded, concatenations split, locals substituted) and compared with the RFC 8945 4.3 table held in the checker - an independent "
        "oracle, which the symmetric sign/verify tests cannot be. Plus dominance rules for validate() and table agreement. MAC values themselves are NOT computed.")


WITNESSES = [
    {"id": "c14-render-clears-want-sign", "rule": "R-14.10", "file": "dns/message.py", "expect": "fires",
     "old": "                if multi:\n                    self.tsig_ctx = ctx\n            r._write_tsig(self.tsig[0], self.tsig.name)", "new": "                if multi:\n                    self.tsig_ctx = ctx\n                self.want_tsig_sign = False\n            r._write_tsig(self.tsig[0], self.tsig.name)"},
    {"id": "c14-error-response-not-bound", "rule": "R-14.5", "file": "dns/message.py", "expect": "fires",
     "old": "        response.request_mac = query.mac\n    return response", "new": "        if not tsig_error:\n            response.request_mac = query.mac\n    return response"},
    {"id": "c14-add-tsig-template-from-argument", "rule": "R-14.9", "file": "dns/renderer.py", "expect": "fires",
     "old": "            keyname, key.algorithm, 0, fudge, b\"\", id, tsig_error, other_data\n        )\n        tsig, _ = dns.tsig.sign(s, key, tsig[0], int(time.time()), request_mac)",
     "new": "            keyname, algorithm, 0, fudge, b\"\", id, tsig_error, other_data\n        )\n        tsig, _ = dns.tsig.sign(s, key, tsig[0], int(time.time()), request_mac)"},
    {"id": "c14-tsig-ttl-unchecked", "rule": "R-14.7", "file": "dns/message.py", "expect": "fires",
     "old": "                    if ttl != 0:\n                        # RFC 8945 section 4.2: the TTL MUST be 0 (it is digested as 0)\n                        raise BadTSIG\n", "new": ""},
    {"id": "c14-doh-verifies-against-request-mac", "rule": "R-14.6", "file": "dns/query.py", "expect": "fires",
     "old": "        keyring=q.keyring,\n        request_mac=q.mac,\n        one_rr_per_rrset=one_rr_per_rrset,\n        ignore_trailing=ignore_trailing,\n    )\n    r.time = response.elapsed.total_seconds()",
     "new": "        keyring=q.keyring,\n        request_mac=q.request_mac,\n        one_rr_per_rrset=one_rr_per_rrset,\n        ignore_trailing=ignore_trailing,\n    )\n    r.time = response.elapsed.total_seconds()"},
    {"id": "c14-xfr-last-message-test-on-context", "rule": "R-14.6", "file": "dns/query.py", "expect": "fires",
     "old": "        if query.keyring and r is not None and not r.had_tsig:", "new": "        if query.keyring and r is not None and r.tsig_ctx is None:"},
    {"id": "c14-add-tsig-drops-request-mac", "rule": "R-14.5", "file": "dns/renderer.py", "expect": "fires",
     "old": "        tsig, _ = dns.tsig.sign(s, key, tsig[0], int(time.time()), request_mac)", "new": "        tsig, _ = dns.tsig.sign(s, key, tsig[0], int(time.time()))"},
    {"id": "c14-unsigned-intermediate-without-id", "rule": "R-14.5", "file": "dns/message.py", "expect": "fires",
     "old": "                self.message.tsig_ctx.update(self.parser.wire)", "new": "                self.message.tsig_ctx.update(self.parser.wire[2:])"},
    {"id": "c14-key-lookup-by-relative-name", "rule": "R-14.4", "file": "dns/message.py", "expect": "fires",
     "old": "                        key = self.keyring.get(absolute_name)", "new": "                        key = self.keyring.get(name)"},
    {"id": "c14-no-request-mac-length", "rule": "R-14.1", "file": "dns/tsig.py", "expect": "fires",
     "old": "            ctx.update(struct.pack(\"!H\", len(request_mac)))\n            ctx.update(request_mac)\n    assert", "new": "            ctx.update(request_mac)\n    assert"},
    {"id": "c14-digest-current-id", "rule": "R-14.1", "file": "dns/tsig.py", "expect": "fires",
     "old": "    ctx.update(struct.pack(\"!H\", rdata.original_id))\n    ctx.update(wire[2:])", "new": "    ctx.update(wire)"},
    {"id": "c14-twin-split-updates", "rule": "R-14.1", "file": "dns/tsig.py", "expect": "silent",
     "old": "        ctx.update(key.algorithm.to_digestable() + time_encoded)", "new": "        ctx.update(key.algorithm.to_digestable())\n        ctx.update(time_encoded)"},
    {"id": "c14-fudge-exclusive", "rule": "R-14.2", "file": "dns/tsig.py", "expect": "fires",
     "old": "    if abs(rdata.time_signed - now) > rdata.fudge:", "new": "    if abs(rdata.time_signed - now) >= rdata.fudge:"},
    {"id": "c14-no-key-name-check", "rule": "R-14.2", "file": "dns/tsig.py", "expect": "fires",
     "old": "    if key.name != owner:\n        raise BadKey\n", "new": ""},
    {"id": "c14-verify-skipped-on-multi", "rule": "R-14.2", "file": "dns/tsig.py", "expect": "fires",
     "old": "    ctx.verify(rdata.mac)\n    return _maybe_start_digest", "new": "    if not multi:\n        ctx.verify(rdata.mac)\n    return _maybe_start_digest"},
    {"id": "c14-digest-full-wire", "rule": "R-14.2", "file": "dns/tsig.py", "expect": "fires",
     "old": "    ctx = _digest(new_wire, key, rdata, None, request_mac, ctx, multi)", "new": "    ctx = _digest(wire, key, rdata, None, request_mac, ctx, multi)"},
    {"id": "c14-wrong-hash", "rule": "R-14.3", "file": "dns/tsig.py", "expect": "fires",
     "old": "        HMAC_SHA384: hashlib.sha384,", "new": "        HMAC_SHA384: hashlib.sha512,"},
    {"id": "c14-truncation-bits", "rule": "R-14.3", "file": "dns/tsig.py", "expect": "fires",
     "old": "        HMAC_SHA256_128: (hashlib.sha256, 128),", "new": "        HMAC_SHA256_128: (hashlib.sha256, 120),"},
    {"id": "c14-tsig-anywhere", "rule": "R-14.4", "file": "dns/message.py", "expect": "fires",
     "old": "                or rdclass != dns.rdatatype.ANY\n                or position != count - 1\n", "new": "                or rdclass != dns.rdatatype.ANY\n"},
    {"id": "c14-timers-missing-fudge-subsequent", "rule": "R-14.1", "file": "dns/tsig.py", "expect": "fires",
     "old": "    else:\n        ctx.update(time_encoded)\n    return ctx", "new": "    else:\n        pass\n    return ctx"},
    {"id": "c14-compare-not-constant-time-twin", "rule": "R-14.2", "file": "dns/tsig.py", "expect": "fires",
     "old": "        if not hmac.compare_digest(mac, expected):", "new": "        if not mac.startswith(expected):"},
]
