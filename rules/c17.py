"""C17 resolver caches: lock discipline (=> linearizability), freshness test, counters, LRU structure."""
from __future__ import annotations

import ast

from engine.cfg import CFG, normalise_compare, atoms
from engine import pat
from engine.model import AnalysisError, src, dotted, stmt_key
from engine.util import attr_accesses, with_exprs, enumerate_paths, is_const_none, own_nodes, root_name, where, calls_with_nodes

RULES = {
    "R-17.7": "the expiration stored with an answer is the current time plus the minimum TTL of the whole chain: Answer.__init__ computes `time.time() + self.chaining_result.minimum_ttl` and nothing else feeds self.expiration (the final RRset's own TTL ignores a shorter CNAME in front of it)",
    "R-17.6": "TTLs with the top bit set are read as 0 (RFC 2181 8), so a hostile TTL cannot keep an answer cached for decades (C03 R-03.4 ttl-clamp adopted)",
    "R-17.5": "the expiration stored with a cached answer derives from the minimum TTL over the whole CNAME chain (C16 R-16.3 adopted: min-ttl accumulation and chain cursor of resolve_chaining)",
    "R-17.1": "every access to cache state happens inside the single `with self.lock` block of a public method (or in a helper only called under it)",
    "R-17.2": "a cached value is returned only on the not-expired side of an `expiration <= now` test on that same entry",
    "R-17.3": "exactly one of hits/misses is incremented on every path through get(); hits iff a value is returned",
    "R-17.4": "LRU: insert is dominated by the eviction loop `len(data) >= max_size`; victim is the tail; dict and ring move together; every path of put() that stores the answer leaves its node linked at the front (a put is a use)",
}

CACHE_CLASSES = ["dns.resolver.CacheBase", "dns.resolver.Cache", "dns.resolver.LRUCache"]
GUARDED = {"data", "statistics", "next_cleaning", "sentinel"}
# confirmed exception: one attribute store, no compound invariant involved
UNLOCKED_OK = {}
LOCK = "self.lock"


def _time_exprs(fi):
    """Names bound to time.time() in the function + the call text itself."""
    out = {"time.time()"}
    for n in ast.walk(fi.node):
        if isinstance(n, ast.Assign) and src(n.value) == "time.time()":
            for t in n.targets:
                if isinstance(t, ast.Name):
                    out.add(t.id)
    return out


def check_lru_pairs(model, rep, rule):
    """The dict and the recency ring of LRUCache change together (shared with C16: a resolver with an LRU cache raises KeyError / drops fresh answers otherwise)."""
    lru = model.cls("dns.resolver.LRUCache")
    # dict/ring pairing in put/get/flush
    n_pair = 0
    for qn in sorted(g.qualname for g in model.all_functions() if g.cls is lru and g.name != "__init__"):
        f2 = model.func(qn)
        for blk in _blocks(f2.node):
            dels = [(st, src(st.targets[0].slice)) for st in blk if isinstance(st, ast.Delete) and isinstance(st.targets[0], ast.Subscript) and src(st.targets[0].value) == "self.data"]
            unl = [src(st.value.func.value) for st in blk if isinstance(st, ast.Expr) and isinstance(st.value, ast.Call) and isinstance(st.value.func, ast.Attribute) and st.value.func.attr == "unlink"]
            for (st, k) in dels:
                n_pair += 1
                owner = k[:-4] if k.endswith(".key") else None
                okk = owner is not None and (owner in unl or _unlinked_before(f2, st, owner))
                rep.check(okk, rule, qn, where(f2, st), f"`del self.data[{k}]` paired with {owner}.unlink()",
                          f"`del self.data[{k}]` without {owner}.unlink() – the ring keeps a node the dict forgot", stmt=stmt_key(st))
            links = [st for st in blk if isinstance(st, ast.Expr) and isinstance(st.value, ast.Call) and isinstance(st.value.func, ast.Attribute) and st.value.func.attr == "link_after"]
            for st in links:
                n_pair += 1
                who = src(st.value.func.value)
                stored = any(isinstance(s, ast.Assign) and src(s.value) == who and any(isinstance(t, ast.Subscript) and src(t.value) == "self.data" for t in s.targets) for s in blk)
                from_dict = any(isinstance(s, ast.Assign) and src(s.targets[0]) == who and src(s.value).startswith("self.data.get(") for s in ast.walk(f2.node) if isinstance(s, ast.Assign))
                created_here = any(isinstance(s, ast.Assign) and src(s.targets[0]) == who and src(s.value).startswith("LRUCacheNode(") for s in blk)
                okk = stored if created_here else from_dict
                rep.check(okk, rule, qn, where(f2, st), f"`{who}.link_after(...)` paired with the dict entry",
                          f"`{who}.link_after(...)` links a node the dict does not hold", stmt=stmt_key(st))
        # any other way of dropping a dict entry (pop/popitem/clear without re-initialising the ring) leaves its node in the recency ring
        for c in ast.walk(f2.node):
            if isinstance(c, ast.Call) and isinstance(c.func, ast.Attribute) and src(c.func.value) == "self.data" and c.func.attr in ("pop", "popitem"):
                n_pair += 1
                rep.bad(rule, qn, where(f2, c), f"`{src(c)[:40]}` removes a dict entry without unlinking its node: the ring keeps a node the dict forgot, and when that node reaches the cold end "
                        "put() evicts the wrong key (or raises KeyError)", stmt="dict-entry-dropped-without-unlink")
    rep.floor(rule + "-pairs", n_pair, 5)


def run(model, rep, tier):
    classes = [model.cls(c) for c in CACHE_CLASSES]
    # ------------------------------------------------------------------ R-17.1
    n_acc = 0
    helpers_need_lock: dict[str, list] = {}
    per_method = {}
    for ci in classes:
        for name, fi in sorted(ci.methods.items()):
            cfg = CFG(fi.node)
            accs = [a for a in attr_accesses(fi, cfg, GUARDED | {"max_size"}) if a.receiver == "self"]
            per_method[fi.qualname] = (fi, cfg, accs)
    # helpers: private methods with accesses outside any lock -> must only be called under the lock
    for qn, (fi, cfg, accs) in per_method.items():
        if fi.name == "__init__":
            for a in accs:
                rep.ok("R-17.1", qn, a.where, "constructor: object not yet shared", stmt=f"self.{a.field}", nontrivial=False)
            continue
        lock_blocks = set()
        unlocked = []
        for a in accs:
            if a.field == "max_size" and not a.store:
                # reads of max_size must be under the lock too
                pass
            if LOCK in with_exprs(a.node):
                n_acc += 1
                w = [w for w in a.node.withs if src(w.context_expr) == LOCK][0]
                lock_blocks.add(id(w))
            else:
                unlocked.append(a)
        if fi.name.startswith("_"):
            if unlocked:
                helpers_need_lock[fi.name] = [fi, unlocked]
            continue
        n_helper_calls = 0
        for (cn, c) in calls_with_nodes(cfg):
            f = c.func
            if isinstance(f, ast.Attribute) and isinstance(f.value, ast.Name) and f.value.id == "self" and f.attr.startswith("_") \
                    and not f.attr.startswith("__") and any(f.attr in k.methods for k in classes):
                n_helper_calls += 1
                for w in cn.withs:
                    if src(w.context_expr) == LOCK:
                        lock_blocks.add(id(w))
        for a in unlocked:
            ex = UNLOCKED_OK.get((qn, a.field))
            if ex:
                rep.excepted("R-17.1", qn, a.where, ex, stmt=f"self.{a.field}")
            else:
                rep.bad("R-17.1", qn, a.where, f"self.{a.field} {'written' if a.store else 'read'} outside `with self.lock`", stmt=f"self.{a.field}")
        locked_public = {m_ for k in classes for m_, g in k.methods.items() if not m_.startswith("_") and "with self.lock" in src(g.node)}
        pub_calls = [c for (cn, c) in calls_with_nodes(cfg) if isinstance(c.func, ast.Attribute) and isinstance(c.func.value, ast.Name) and c.func.value.id == "self" and c.func.attr in locked_public]
        if pub_calls:
            rep.check(len(pub_calls) + len(lock_blocks) <= 1, "R-17.1", qn, where(fi, pub_calls[0]), f"delegates to one atomic operation (`{src(pub_calls[0].func)}`)",
                      f"the operation is composed of {len(pub_calls)} separately locked calls ({', '.join(sorted({src(c.func) for c in pub_calls}))})" + (f" and {len(lock_blocks)} own critical section(s)" if lock_blocks else "") +
                      ": another thread can run between them, so the result corresponds to no single moment (e.g. a statistics snapshot with misses from after and hits from before a lookup)", stmt="one-critical-section")
        if (accs or n_helper_calls) and not unlocked:
            rep.check(len(lock_blocks) == 1, "R-17.1", qn, where(fi, fi.node),
                      f"{len(accs)} accesses in one critical section",
                      f"state is touched in {len(lock_blocks)} separate critical sections (operation is not atomic)", stmt="one-critical-section")
    # helper call sites
    for hname, (hfi, unlocked) in helpers_need_lock.items():
        sites = 0
        for qn, (fi, cfg, accs) in per_method.items():
            for (n, c) in calls_with_nodes(cfg):
                if src(c.func) == f"self.{hname}":
                    sites += 1
                    okk = LOCK in with_exprs(n) or fi.name in helpers_need_lock
                    rep.check(okk, "R-17.1", qn, where(fi, c), f"helper {hname} called under the lock",
                              f"helper {hname} touches cache state without taking the lock and is called here outside `with self.lock`",
                              stmt=f"call self.{hname}()")
        # a helper nobody calls from inside the classes could be called from anywhere
        if sites == 0:
            rep.bad("R-17.1", hfi.qualname, where(hfi, hfi.node), "lock-free helper has no call site under the lock", stmt="no-callers")
        n_acc += len(unlocked)
    # any access to the guarded state from outside the classes (module-level functions, Resolver)
    for fi in model.functions_in("dns.resolver") + model.functions_in("dns.asyncresolver"):
        if fi.cls is not None and fi.cls.qualname in CACHE_CLASSES:
            continue
        for n in ast.walk(fi.node):
            if isinstance(n, ast.Attribute) and n.attr in ("sentinel", "next_cleaning") :
                rep.bad("R-17.1", fi.qualname, where(fi, n), f"cache internals .{n.attr} touched outside the cache classes", stmt=src(n))
            if isinstance(n, ast.Attribute) and n.attr == "data" and "cache" in src(n.value).lower():
                rep.bad("R-17.1", fi.qualname, where(fi, n), "cache.data touched outside the cache classes", stmt=src(n))
    rep.floor("R-17.1", n_acc, 30)

    # ------------------------------------------------------------------ R-17.2 / R-17.3
    getters = ["dns.resolver.Cache.get", "dns.resolver.LRUCache.get", "dns.resolver.LRUCache.get_hits_for_key"]
    n_ret = 0
    for qn in getters:
        fi = model.func(qn)
        cfg = CFG(fi.node, implicit_exc=False)
        times = _time_exprs(fi)
        fresh_edges = set()
        tests = []
        for n in cfg.nodes:
            if n.kind != "test" or not isinstance(n.ast, ast.If):
                continue
            norm = normalise_compare(n.ast.test)
            for (lhs, op, rhs) in atoms(norm):
                # canonical orientation: expiration on the left
                if rhs.endswith(".expiration") and lhs in times:
                    lhs, rhs = rhs, lhs
                    op = {"<": ">", "<=": ">=", ">": "<", ">=": "<=", "==": "==", "!=": "!="}.get(op, op)
                if not lhs.endswith(".expiration"):
                    continue
                if rhs not in times:
                    rep.bad("R-17.2", qn, where(fi, n.ast), f"expiration compared with `{rhs}`, which is not the current time read in this operation", stmt=stmt_key(n.ast))
                    continue
                entry = lhs[: -len(".expiration")]
                tests.append((n, entry, op, norm))
                top = norm[0]
                if op == "<=" and top in ("atom", "or"):
                    fresh_edges.add((n.id, "f", entry))
                elif op == ">" and top in ("atom", "and"):
                    fresh_edges.add((n.id, "t", entry))
                elif op in ("<", ">="):
                    rep.bad("R-17.2", qn, where(fi, n.ast),
                            f"test `{lhs} {op} now` treats an entry AT its expiration instant as fresh", stmt=stmt_key(n.ast))
                else:
                    rep.blind("R-17.2", qn, where(fi, n.ast), f"expiration test of unrecognised shape `{src(n.ast.test)}`", stmt=stmt_key(n.ast))
        for n in cfg.nodes:
            if n.kind == "stmt" and isinstance(n.ast, ast.Return):
                v = n.ast.value
                if is_const_none(v) or isinstance(v, ast.Constant):
                    continue
                n_ret += 1
                rn = root_name(v)
                edges = {(i, k) for (i, k, e) in fresh_edges if root_name(ast.parse(e, mode="eval").body) == rn}
                okk = bool(edges) and cfg.edge_dominated(n.id, edges)
                rep.check(okk, "R-17.2", qn, where(fi, n.ast),
                          f"`return {src(v)}` only reachable through the not-expired side of the expiration test on `{rn}`",
                          f"`return {src(v)}` is reachable without passing the not-expired side of an `expiration <= now` test on `{rn}`",
                          stmt=stmt_key(n.ast))
        # the time read must be under the lock
        for n in cfg.nodes:
            if n.ast is None:
                continue
            for e in own_nodes(n.ast):
                if isinstance(e, ast.Call) and src(e) == "time.time()":
                    rep.check(LOCK in with_exprs(n), "R-17.2", qn, where(fi, e), "clock read inside the critical section",
                              "clock read outside the critical section (a stale `now` can outlive an expiry)", stmt="time.time()")
    rep.floor("R-17.2", n_ret, 3)
    # every other comparison of an entry's expiration (the periodic sweep): against the current time read in the same operation, expired iff `expiration <= now`
    n_sweep = 0
    for ci in classes:
        for name, fs in sorted(ci.methods.items()):
            if fs.qualname in getters:
                continue
            times = _time_exprs(fs)
            for n in ast.walk(fs.node):
                if not isinstance(n, (ast.If, ast.While, ast.IfExp)):
                    continue
                for (lhs, op, rhs) in atoms(normalise_compare(n.test)):
                    if rhs.endswith(".expiration") and not lhs.endswith(".expiration"):
                        lhs, rhs = rhs, lhs
                        op = {"<": ">", "<=": ">=", ">": "<", ">=": "<="}.get(op, op)
                    if not lhs.endswith(".expiration"):
                        continue
                    n_sweep += 1
                    rep.check(rhs in times and op in ("<=", ">"), "R-17.2", fs.qualname, where(fs, n), f"`{lhs} {op} {rhs}`: an entry is swept exactly when it has expired",
                              f"the sweep compares `{lhs} {op} {rhs}`" + ("" if rhs in times else f": `{rhs}` is not the current time read in this operation, so entries that are still valid are deleted (a spurious miss) or expired ones kept"),
                              stmt="sweep-expiration")
    rep.floor("R-17.2-sweep", n_sweep, 1)

    for qn in ["dns.resolver.Cache.get", "dns.resolver.LRUCache.get"]:
        fi = model.func(qn)
        cfg = CFG(fi.node, implicit_exc=False)
        try:
            paths = enumerate_paths(cfg, cfg.entry.id, {cfg.exit.id})
        except OverflowError:
            rep.blind("R-17.3", qn, where(fi, fi.node), "too many paths")
            continue
        for p in paths:
            hits = misses = 0
            ret = None
            for (i, k) in p:
                a = cfg.nodes[i].ast
                if isinstance(a, ast.AugAssign) and isinstance(a.op, ast.Add) and src(a.value) == "1":
                    if src(a.target) == "self.statistics.hits":
                        hits += 1
                    elif src(a.target) == "self.statistics.misses":
                        misses += 1
                if isinstance(a, ast.Return) and cfg.nodes[i].kind == "stmt":
                    ret = a
            returns_value = ret is not None and not is_const_none(ret.value)
            desc = "path " + cfg.fmt_path([i for (i, _k) in p])
            pkey = " & ".join(f"[{stmt_key(cfg.nodes[i].ast)}]={k}" for (i, k) in p if cfg.nodes[i].kind == "test")
            okk = (hits + misses == 1) and (hits == 1) == returns_value
            rep.check(okk, "R-17.3", qn, where(fi, ret or fi.node), f"{desc}: hits+={hits} misses+={misses} returns_value={returns_value}",
                      f"{desc}: hits+={hits} misses+={misses} returns_value={returns_value} (must be exactly one counter, hits iff a value is returned)",
                      stmt=pkey)
    # ------------------------------------------------------------------ R-17.4 (resize)
    n_resize = 0
    lru = model.cls("dns.resolver.LRUCache")
    for m in sorted((g for g in model.all_functions() if g.cls is lru and g.name != "__init__"), key=lambda g: g.qualname):
        stores = [n for n in ast.walk(m.node) if isinstance(n, (ast.Assign, ast.AugAssign)) and any(src(t) == "self.max_size" for t in (n.targets if isinstance(n, ast.Assign) else [n.target]))]
        if not stores:
            continue
        cm = CFG(m.node, implicit_exc=False)
        shrink = []
        for n in cm.nodes:
            if n.kind == "test" and isinstance(n.ast, ast.While):
                for (lhs, op, rhs) in atoms(normalise_compare(n.ast.test)):
                    if (lhs, rhs) == ("len(self.data)", "self.max_size") and op in (">", ">="):
                        shrink.append(n)
        for st in stores:
            n_resize += 1
            sn = [n.id for n in cm.stmts() if n.ast is st]
            r = cm.reachable(sn, blocked_edges={(l_.id, "f") for l_ in shrink})
            okk = bool(shrink) and cm.exit.id not in r
            tail = all(any(isinstance(b, ast.Assign) and src(b.value) == "self.sentinel.prev" for b in l_.ast.body) for l_ in shrink)
            rep.check(okk and tail, "R-17.4", m.qualname, where(m, st), "a new limit is enforced at once: the store is followed by `while len(data) > max_size` evicting from the cold end",
                      "the limit is changed without evicting down to it: after a shrink the cache holds more entries than its limit until some later put()" if not okk else
                      "the shrink loop does not take its victims from the cold end (self.sentinel.prev)", stmt="resize-evicts")
    rep.floor("R-17.4-resize", n_resize, 1)
    # ------------------------------------------------------------------ R-17.4
    fi = model.func("dns.resolver.LRUCache.put")
    cfg = CFG(fi.node, implicit_exc=False)
    inserts = [n for n in cfg.nodes if isinstance(n.ast, ast.Assign) and any(
        isinstance(t, ast.Subscript) and src(t.value) == "self.data" for t in n.ast.targets)]
    rep.floor("R-17.4", len(inserts), 1)
    loops = []
    for n in cfg.nodes:
        if n.kind == "test" and isinstance(n.ast, ast.While):
            at = atoms(normalise_compare(n.ast.test))
            for (lhs, op, rhs) in at:
                if lhs == "len(self.data)" and rhs == "self.max_size":
                    loops.append((n, op))
                elif rhs == "len(self.data)" and lhs == "self.max_size":
                    loops.append((n, {"<=": ">=", "<": ">", ">": "<", ">=": "<="}.get(op, op)))
    if not loops:
        rep.bad("R-17.4", fi.qualname, where(fi, fi.node), "no eviction loop comparing len(self.data) with self.max_size", stmt="eviction-loop")
    for (ln, op) in loops:
        rep.check(op == ">=", "R-17.4", fi.qualname, where(fi, ln.ast), "eviction loop runs while len(data) >= max_size",
                  f"eviction loop condition is `len(data) {op} max_size`: the cache can exceed its bound", stmt=stmt_key(ln.ast))
        for ins in inserts:
            okk = cfg.edge_dominated(ins.id, {(ln.id, "f")})
            rep.check(okk, "R-17.4", fi.qualname, where(fi, ins.ast), "insert only after the eviction loop has exited",
                      "insert reachable without passing the exit of the eviction loop", stmt=stmt_key(ins.ast))
        # victim selection in the loop body
        body = ln.ast.body
        victim = None
        for st in body:
            if isinstance(st, ast.Assign) and src(st.value) in ("self.sentinel.prev", "self.sentinel.next"):
                victim = (src(st.targets[0]), src(st.value))
        if victim is None:
            rep.blind("R-17.4", fi.qualname, where(fi, ln.ast), "victim selection of unrecognised shape", stmt="victim")
        else:
            # the end of the ring where new/used nodes are linked
            mru_side = None
            for f2 in ("dns.resolver.LRUCache.put", "dns.resolver.LRUCache.get"):
                for c in ast.walk(model.func(f2).node):
                    if isinstance(c, ast.Call) and isinstance(c.func, ast.Attribute) and c.func.attr == "link_after" and c.args and src(c.args[0]) == "self.sentinel":
                        mru_side = "self.sentinel.next"
            la = model.func("dns.resolver.LRUCacheNode.link_after")
            la_ok = {stmt_key(s) for s in la.node.body if not isinstance(s, ast.Expr)} == {
                "self.prev = node", "self.next = node.next", "node.next.prev = self", "node.next = self"}
            order = [stmt_key(s) for s in la.node.body if not isinstance(s, ast.Expr)]
            la_ok = la_ok and order.index("node.next = self") > order.index("self.next = node.next") and order.index("node.next = self") > order.index("node.next.prev = self")
            rep.check(la_ok, "R-17.4", la.qualname, where(la, la.node), "link_after inserts self directly after node (4 pointer stores, node.next last)",
                      "link_after does not insert self directly after node", stmt="link_after-shape")
            ul = model.func("dns.resolver.LRUCacheNode.unlink")
            ul_ok = {stmt_key(s) for s in ul.node.body if not isinstance(s, ast.Expr)} == {"self.next.prev = self.prev", "self.prev.next = self.next"}
            rep.check(ul_ok, "R-17.4", ul.qualname, where(ul, ul.node), "unlink splices self out", "unlink does not splice self out of the ring", stmt="unlink-shape")
            rep.check(mru_side == "self.sentinel.next" and victim[1] == "self.sentinel.prev", "R-17.4", fi.qualname, where(fi, ln.ast),
                      "victim is sentinel.prev, the end opposite to link_after(sentinel)",
                      f"victim is {victim[1]} but used nodes are linked at {mru_side}: not least-recently-used", stmt="victim-end")
    check_lru_pairs(model, rep, "R-17.4")
    # get moves a hit to the front
    g = model.func("dns.resolver.LRUCache.get")
    cfgg = CFG(g.node, implicit_exc=False)
    for n in cfgg.nodes:
        if isinstance(n.ast, ast.Return) and not is_const_none(n.ast.value) and n.kind == "stmt":
            gate = [m.id for m in cfgg.nodes if isinstance(m.ast, ast.Expr) and src(m.ast).endswith(".link_after(self.sentinel)")]
            rep.check(cfgg.dominated_by_set(n.id, gate), "R-17.4", g.qualname, where(g, n.ast), "a hit re-links the node at the front",
                      "a hit is returned without moving the node to the front (recency lost)", stmt="hit-moves-to-front")
    # put is a use: whatever path stores the caller's answer leaves that node at the front of the ring
    vparam = fi.node.args.args[2].arg if len(fi.node.args.args) >= 3 else None
    if vparam is None:
        rep.blind("R-17.4", fi.qualname, where(fi, fi.node), "put() no longer takes (key, value)", stmt="put-moves-to-front")
    else:
        stores = [n for n in cfg.nodes if n.kind == "stmt" and n.ast is not None and any(
            isinstance(x, ast.Name) and x.id == vparam and isinstance(x.ctx, ast.Load) for x in ast.walk(n.ast))]
        rep.floor("R-17.4-put-front", len(stores), 1)
        pgate = [m.id for m in cfg.nodes if isinstance(m.ast, ast.Expr) and src(m.ast).endswith(".link_after(self.sentinel)")]
        seen_exit = set()
        for st_ in stores:
            r = cfg.reachable([st_.id], blocked=pgate)
            if cfg.exit.id in r and not cfg.dominated_by_set(st_.id, pgate) and st_.id not in seen_exit:
                seen_exit.add(st_.id)
                rep.bad("R-17.4", fi.qualname, where(fi, st_.ast),
                        f"`{src(st_.ast)}` stores the caller's answer on a path that returns without `link_after(self.sentinel)`: "
                        "the refreshed entry keeps its old place in the ring and is evicted before entries used less recently", stmt="put-moves-to-front")
        if not seen_exit:
            rep.ok("R-17.4", fi.qualname, where(fi, fi.node), "every path of put() that stores the answer links its node at the front", stmt="put-moves-to-front")
    # flush(None) resets both
    fl = model.func("dns.resolver.LRUCache.flush")
    txt = src(fl.node)
    rep.check("self.data = {}" in txt, "R-17.4", fl.qualname, where(fl, fl.node), "flush() clears the dict", "flush() does not clear the dict", stmt="flush-all")
    rep.assume("threading.Lock provides mutual exclusion; a single critical section per operation makes each operation atomic")
    rep.share(model, "C07", {"R-07.6"}, "R-17.6", "the expiration of an answer comes from RRset TTLs minimised in Rdataset.add: a TTL of 0 on a later record must lower it")
    rep.share(model, "C16", {"R-16.1", "R-16.3", "R-16.4"}, "R-17.5", "Answer.expiration = time + ChainingResult.minimum_ttl; an overwritten minimum keeps an answer cached after a CNAME in its chain expired")
    rep.share(model, "C03", {"R-03.4"}, "R-17.6", "Answer.expiration is computed from the TTLs the wire reader stored", only=lambda o: o.stmt == "ttl-clamp")
    # ------------------------------------------------------------------ R-17.7
    ai = model.func("dns.resolver.Answer.__init__")
    stores = [x for x in ast.walk(ai.node) if isinstance(x, (ast.Assign, ast.AugAssign)) and any(src(t_) == "self.expiration" for t_ in (x.targets if isinstance(x, ast.Assign) else [x.target]))]
    if not stores:
        rep.blind("R-17.7", ai.qualname, where(ai, ai.node), "no store to self.expiration", stmt="expiration-source")
    for st in stores:
        okk = isinstance(st, ast.Assign) and isinstance(st.value, ast.BinOp) and isinstance(st.value.op, ast.Add) and {src(st.value.left), src(st.value.right)} == {"time.time()", "self.chaining_result.minimum_ttl"}
        rep.check(bool(okk), "R-17.7", ai.qualname, where(ai, st), "expiration = now + minimum TTL over the chain",
                  f"`{src(st)[:70]}`: the expiration is not `time.time() + self.chaining_result.minimum_ttl` - e.g. taken from the final RRset's TTL, so `www 5 CNAME host` / `host 3600 A` stays cached "
                  "for an hour after the alias expired", stmt="expiration-source")
    rep.meta["explanation"] = (
        "Lock-discipline (guarded-by) analysis of the three cache classes plus CFG dominance rules for the freshness "
        "test, path enumeration for the hit/miss counters, and structural pairing rules for the LRU ring. Decides the "
        "structural preconditions of linearizability/freshness/LRU; does not execute histories.")


def _blocks(fn):
    out = []
    for n in ast.walk(fn):
        for fld in ("body", "orelse", "finalbody"):
            b = getattr(n, fld, None)
            if isinstance(b, list) and b and isinstance(b[0], ast.stmt):
                out.append(b)
    return out


def _unlinked_before(fi, del_stmt, owner):
    """owner.unlink() executed on every path before the delete (dominance), for the get() shape
    where unlink precedes the expiry test."""
    cfg = CFG(fi.node, implicit_exc=False)
    tgt = cfg.node_for(del_stmt)
    gate = [m.id for m in cfg.nodes if isinstance(m.ast, ast.Expr) and src(m.ast) == f"{owner}.unlink()"]
    return bool(gate) and tgt is not None and cfg.dominated_by_set(tgt.id, gate)


WITNESSES = [
    {"id": "c17-hits-for-key-purges-without-unlink", "rule": "R-17.4", "file": "dns/resolver.py", "expect": "fires",
     "old": "            if node is None or node.value.expiration <= time.time():\n                return 0\n            else:\n                return node.hits",
     "new": "            if node is None:\n                return 0\n            if node.value.expiration <= time.time():\n                del self.data[node.key]\n                return 0\n            return node.hits"},
    {"id": "c17-expiration-from-final-rrset-ttl", "rule": "R-17.7", "file": "dns/resolver.py", "expect": "fires",
     "old": "        self.expiration = time.time() + self.chaining_result.minimum_ttl", "new": "        self.expiration = time.time() + (self.rrset.ttl if self.rrset is not None else self.chaining_result.minimum_ttl)"},
    {"id": "c17-twin-expiration-commuted", "rule": "R-17.7", "file": "dns/resolver.py", "expect": "silent",
     "old": "        self.expiration = time.time() + self.chaining_result.minimum_ttl", "new": "        self.expiration = self.chaining_result.minimum_ttl + time.time()"},
    {"id": "c17-resize-without-eviction", "rule": "R-17.4", "file": "dns/resolver.py", "expect": "fires",
     "old": "            self.max_size = max_size\n            while len(self.data) > self.max_size:\n                gnode = self.sentinel.prev\n                gnode.unlink()\n                del self.data[gnode.key]\n",
     "new": "            self.max_size = max_size\n"},
    {"id": "c17-snapshot-two-lock-holds", "rule": "R-17.1", "file": "dns/resolver.py", "expect": "fires",
     "old": "        with self.lock:\n            return self.statistics.clone()", "new": "        return CacheStatistics(self.hits(), self.misses())"},
    {"id": "c17-sweep-against-next-cleaning", "rule": "R-17.2", "file": "dns/resolver.py", "expect": "fires",
     "old": "                if v.expiration <= now:\n                    keys_to_delete.append(k)", "new": "                if v.expiration <= self.next_cleaning:\n                    keys_to_delete.append(k)"},
    {"id": "c17-min-ttl-overwritten", "rule": "R-17.5", "file": "dns/message.py", "expect": "fires",
     "old": "                min_ttl = min(min_ttl, answer.ttl)", "new": "                min_ttl = answer.ttl"},
    {"id": "c17-flush-key-without-unlink", "rule": "R-17.4", "file": "dns/resolver.py", "expect": "fires",
     "old": "                node = self.data.get(key)\n                if node is not None:\n                    node.unlink()\n                    del self.data[node.key]\n            else:\n                gnode = self.sentinel.next",
     "new": "                self.data.pop(key, None)\n            else:\n                gnode = self.sentinel.next"},
    {"id": "c17-lru-serve-at-expiry", "rule": "R-17.2", "file": "dns/resolver.py", "expect": "fires",
     "old": "            if node.value.expiration <= time.time():\n                del self.data[node.key]",
     "new": "            if node.value.expiration < time.time():\n                del self.data[node.key]"},
    {"id": "c17-cache-serve-at-expiry", "rule": "R-17.2", "file": "dns/resolver.py", "expect": "fires",
     "old": "if v is None or v.expiration <= time.time():", "new": "if v is None or v.expiration < time.time():"},
    {"id": "c17-cache-get-no-expiry-test", "rule": "R-17.2", "file": "dns/resolver.py", "expect": "fires",
     "old": "if v is None or v.expiration <= time.time():", "new": "if v is None:"},
    {"id": "c17-twin-now-local", "rule": "R-17.2", "file": "dns/resolver.py", "expect": "silent",
     "old": "            v = self.data.get(key)\n            if v is None or v.expiration <= time.time():",
     "new": "            v = self.data.get(key)\n            now = time.time()\n            if v is None or now >= v.expiration:"},
    {"id": "c17-put-without-lock", "rule": "R-17.1", "file": "dns/resolver.py", "expect": "fires",
     "old": "        with self.lock:\n            self._maybe_clean()\n            self.data[key] = value",
     "new": "        self._maybe_clean()\n        self.data[key] = value"},
    {"id": "c17-two-critical-sections", "rule": "R-17.1", "file": "dns/resolver.py", "expect": "fires",
     "old": "        with self.lock:\n            self._maybe_clean()\n            self.data[key] = value",
     "new": "        with self.lock:\n            self._maybe_clean()\n        with self.lock:\n            self.data[key] = value"},
    {"id": "c17-miss-not-counted", "rule": "R-17.3", "file": "dns/resolver.py", "expect": "fires",
     "old": "                del self.data[node.key]\n                self.statistics.misses += 1\n                return None",
     "new": "                del self.data[node.key]\n                return None"},
    {"id": "c17-lru-bound-off-by-one", "rule": "R-17.4", "file": "dns/resolver.py", "expect": "fires",
     "old": "while len(self.data) >= self.max_size:", "new": "while len(self.data) > self.max_size:"},
    {"id": "c17-evict-mru", "rule": "R-17.4", "file": "dns/resolver.py", "expect": "fires",
     "old": "                gnode = self.sentinel.prev\n                gnode.unlink()", "new": "                gnode = self.sentinel.next\n                gnode.unlink()"},
    {"id": "c17-hit-not-moved", "rule": "R-17.4", "file": "dns/resolver.py", "expect": "fires",
     "old": "            node.link_after(self.sentinel)\n            self.statistics.hits += 1",
     "new": "            node.link_after(self.sentinel.prev)\n            self.statistics.hits += 1"},
    {"id": "c17-del-without-unlink", "rule": "R-17.4", "file": "dns/resolver.py", "expect": "fires",
     "old": "            if node is not None:\n                node.unlink()\n                del self.data[node.key]\n            while",
     "new": "            if node is not None:\n                del self.data[node.key]\n            while"},
    {"id": "c17-put-refresh-in-place", "rule": "R-17.4", "file": "dns/resolver.py", "expect": "fires",
     "old": "            if node is not None:\n                node.unlink()\n                del self.data[node.key]\n            while",
     "new": "            if node is not None:\n                node.value = value\n                node.hits = 0\n                return\n            while"},
    {"id": "c17-twin-put-refresh-relinked", "rule": "R-17.4", "file": "dns/resolver.py", "expect": "silent",
     "old": "            if node is not None:\n                node.unlink()\n                del self.data[node.key]\n            while",
     "new": "            if node is not None:\n                node.unlink()\n                node.value = value\n                node.hits = 0\n                node.link_after(self.sentinel)\n                return\n            while"},
    {"id": "c17-twin-flush-reorder", "rule": "R-17.1", "file": "dns/resolver.py", "expect": "silent",
     "old": "                self.data = {}\n                self.next_cleaning = time.time() + self.cleaning_interval",
     "new": "                self.next_cleaning = time.time() + self.cleaning_interval\n                self.data = {}"},
]
