"""C19 copy-on-write B-tree: node ownership typestate, freeze protocol, mutation surface of dict/set wrappers."""
from __future__ import annotations

import ast

from engine.cfg import CFG, normalise_compare, atoms
from engine.dataflow import ReachingDefs
from engine.effects import CONTAINER_MUTATORS
from engine import pat
from engine.model import src, stmt_key, dotted, walk_no_nested
from engine.util import own_nodes, calls_with_nodes, where

RULES = {
    "R-19.14": "a node is never false: copy-on-write results are tested by truth value (`cloned = node.maybe_cow(creator)` / `if cloned:`), so dns.btree._Node defines neither __len__ nor __bool__ - with a __len__ a cloned node holding no keys (the root of an empty tree) is falsy, its private copy is thrown away and the insert goes into the node shared with the frozen original",
    "R-19.13": "a frozen tree rejects every mutation, also one that would change nothing: every BTree / BTreeDict / BTreeSet method that (transitively) calls a tree-changing method reaches _check_mutable_and_park() - directly or through that call - on every path to a normal return; no early return (a miss, an empty tree) comes first",
    "R-19.12": "the cursor descends to a LEAF: every step `self.current_node = self.current_node.children[...]` sits in a `while` loop (one `if` would stop one level down, which only shows on trees of three or more levels)",
    "R-19.11": "balance() merges only when no steal happened: the boolean result of every try_left_steal / try_right_steal call decides control flow (tested directly, or bound to a name that is tested) - a steal whose result is discarded is followed by a merge that overfills the node; and __copy__ of a tree always builds a new copy-on-write clone (`self.__class__(original=self)`), it never hands back the tree itself",
    "R-19.10": "keys and elements are arbitrary values (0, the empty name, an empty tuple are keys): in dns/btree.py a local or parameter whose 'absent' marker is None (initialised or defaulted to None) is never tested by truth value",
    "R-19.9": "absolute positioning leaves no residue of the previous position: seek(), seek_first() and seek_last() each assign every cursor state field that any of them assigns (node, index, recurse, increasing, parents, parked, parking key); and a cursor that lives across a `yield` (the consumer may mutate the tree between two steps) is registered with the tree by `with`, so mutations park it",
    "R-19.8": "the root is collapsed whenever a delete left it without keys - whether or not the key was found: the descent merges children on the way down before it knows, so an unsuccessful delete can empty the root too (an internal root with 0 keys and 1 child breaks the occupancy bound and adds a level)",
    "R-19.7": "a clone is the same tree: in BTree.__init__ every structural attribute of the copy (t, root, size) is taken from the original's attribute of the same name, so node capacity and the nodes it governs stay consistent",
    "R-19.6": "cursor direction: next() records `increasing = True` (prev(): False) on every trip before it reads an element, whether or not it had to descend first - the flag decides the descent after the next internal key and the side a parked cursor re-seeks on",
    "R-19.1": "every in-place write to a B-tree node (elts/children) and every call of a node-mutating method has an OWNED receiver (self of a mutating method, result of maybe_cow_child/_get_node/clone/constructor); values read from X.children[...] are shared",
    "R-19.2": "every BTree method that changes the tree first passes _check_mutable_and_park() and cows the root; _check_mutable_and_park raises when frozen; freezing is one-way; cloning requires a frozen original",
    "R-19.5": "insert_nonfull: after a full child was split (its median moved up into this node) the search of this node restarts before descending - the key being inserted may now be this node's own element",
    "R-19.4": "cursor parking protocol: every mutation parks every registered cursor; next()/prev() pass _maybe_unpark() before reading their position; a parked cursor with a remembered key re-seeks it, the key's presence being tested by identity with None (keys may be falsy), never by truthiness",
    "R-19.3": "BTreeDict/BTreeSet change the tree only through insert_element / delete_key / delete_exact",
}

NODE = "dns.btree._Node"
FIELDS = {"elts", "children"}
# one confirmed exception, keyed by construct + statement
EXCEPTIONS = {
    ("dns.btree._Node.delete", "call child.delete"): "child is re-fetched from self.children[i] after child.balance(self, i); every candidate at that index (the cowed child itself, or the left sibling cowed inside balance before merging) is already owned",
}


def _node_writes(st):
    """(receiver expr, description) of in-place writes to .elts/.children in the statement's own expressions."""
    out = []
    for e in own_nodes(st):
        if isinstance(e, ast.Attribute) and e.attr in FIELDS and isinstance(e.ctx, (ast.Store, ast.Del)):
            out.append((e.value, f"{src(e)} = ..."))
        if isinstance(e, ast.Subscript) and isinstance(e.ctx, (ast.Store, ast.Del)) and isinstance(e.value, ast.Attribute) and e.value.attr in FIELDS:
            out.append((e.value.value, f"{src(e.value)}[...] = ..."))
        if isinstance(e, ast.Call) and isinstance(e.func, ast.Attribute) and e.func.attr in CONTAINER_MUTATORS and isinstance(e.func.value, ast.Attribute) \
                and e.func.value.attr in FIELDS:
            out.append((e.func.value.value, f"{src(e.func.value)}.{e.func.attr}()"))
    return out


def run(model, rep, tier):
    node = model.cls(NODE)
    meths = node.methods
    # ------------------------------------------------------------ fixpoint: which methods/params need ownership
    req_self: set[str] = set()
    req_param: set[tuple[str, str]] = set()
    changed = True
    while changed:
        changed = False
        for name, f in meths.items():
            if name == "__init__":
                continue
            params = [p for p in f.params() if p != "self"]
            for st in ast.walk(f.node):
                if not isinstance(st, ast.stmt):
                    continue
                for (recv, what) in _node_writes(st):
                    if isinstance(recv, ast.Name):
                        if recv.id == "self" and name not in req_self:
                            req_self.add(name); changed = True
                        elif recv.id in params and (name, recv.id) not in req_param and _param_never_rebound(f, recv.id):
                            req_param.add((name, recv.id)); changed = True
            for c in ast.walk(f.node):
                if isinstance(c, ast.Call) and isinstance(c.func, ast.Attribute) and c.func.attr in meths:
                    callee = c.func.attr
                    r = c.func.value
                    if callee in req_self and isinstance(r, ast.Name):
                        if r.id == "self" and name not in req_self:
                            req_self.add(name); changed = True
                        elif r.id in params and (name, r.id) not in req_param and _param_never_rebound(f, r.id):
                            req_param.add((name, r.id)); changed = True
                    cparams = [p for p in meths[callee].params() if p != "self"]
                    for i, a in enumerate(c.args):
                        if isinstance(a, ast.Name) and i < len(cparams) and (callee, cparams[i]) in req_param:
                            if a.id == "self" and name not in req_self:
                                req_self.add(name); changed = True
                            elif a.id in params and (name, a.id) not in req_param and _param_never_rebound(f, a.id):
                                req_param.add((name, a.id)); changed = True
    rep.meta["requires_owned_self"] = sorted(req_self)
    rep.meta["requires_owned_param"] = sorted(f"{m}({p})" for (m, p) in req_param)
    rep.floor("R-19.1-mutating-methods", len(req_self), 10)

    # returns-owned summaries
    owned_returns = {}
    for name in ("_get_node", "split", "maybe_cow_child", "clone", "maybe_cow"):
        f = meths.get(name)
        if f is None:
            rep.blind("R-19.1", f"{NODE}.{name}", node.file, "summary method missing")
            continue
        owned_returns[name] = _return_summary(f, req_self)
    # maybe_cow_child: result is the cow or the child created by us
    mc = meths["maybe_cow_child"]
    t = src(mc.node)
    okk = "cloned = child.maybe_cow(self.creator)" in t and "self.children[index] = cloned" in t and "child = self.children[index]" in t
    rets = [src(r.value) for r in ast.walk(mc.node) if isinstance(r, ast.Return)]
    rep.check(okk and sorted(rets) == ["child", "cloned"], "R-19.1", mc.qualname, where(mc, mc.node), "maybe_cow_child returns the clone (stored back) or the child this tree already owns",
              "maybe_cow_child no longer (clones a foreign child, stores it back, returns an owned node)", stmt="summary")
    mcw = meths["maybe_cow"]
    cfgm = CFG(mcw.node, implicit_exc=False)
    tests = [n for n in cfgm.nodes if n.kind == "test"]
    okk = len(tests) == 1 and atoms(normalise_compare(tests[0].ast.test)) in ([("self.creator", "is not", "creator")], [("self.creator", "!=", "creator")])
    rets = [n for n in cfgm.nodes if isinstance(n.ast, ast.Return)]
    for r in rets:
        if src(r.ast.value) == "self.clone(creator)":
            okk = okk and cfgm.edge_dominated(r.id, {(tests[0].id, "t")})
        elif src(r.ast.value) == "None":
            okk = okk and cfgm.edge_dominated(r.id, {(tests[0].id, "f")})
        else:
            okk = False
    rep.check(okk and len(rets) == 2, "R-19.1", mcw.qualname, where(mcw, mcw.node), "maybe_cow clones iff the node was created by another tree",
              "maybe_cow does not (clone exactly when self.creator is not the asking creator)", stmt="summary")
    cl = meths["clone"]
    t = src(cl.node)
    rep.check("cloned = self.__class__(self.t, creator, self.is_leaf)" in t and "cloned.elts.extend(self.elts)" in t and "cloned.children.extend(self.children)" in t
              and not any(isinstance(n, ast.Assign) and src(n.value) in ("self.elts", "self.children") for n in ast.walk(cl.node)),
              "R-19.1", cl.qualname, where(cl, cl.node), "clone builds new lists tagged with the new creator", "clone aliases the original's lists or keeps the old creator", stmt="summary")
    for nm in ("_get_node", "split"):
        okk, why = owned_returns.get(nm, (False, "missing"))
        f = meths[nm]
        rep.check(okk, "R-19.1", f.qualname, where(f, f.node), f"returns owned nodes ({why})", f"may return a node that is not owned: {why}", stmt="summary")

    # ------------------------------------------------------------ R-19.1 obligations in every function of the module
    n_ob = 0
    for f in model.functions_in("dns.btree"):
        in_node = f.cls is not None and f.cls.qualname == NODE
        has = any(isinstance(n, ast.Attribute) and (n.attr in FIELDS or n.attr in req_self) for n in ast.walk(f.node))
        if not has or f.name == "__init__" and in_node:
            continue
        cfg = CFG(f.node)
        rd = ReachingDefs(cfg, f.params())
        for n in cfg.stmts():
            if n.copy_of_finally:
                continue
            for (recv, what) in _node_writes(n.ast):
                n_ob += 1
                okk, why = _owned(model, f, cfg, rd, recv, n, req_self, req_param, in_node)
                _emit(rep, f, recv, what, okk, why)
            for e in own_nodes(n.ast):
                if isinstance(e, ast.Call) and isinstance(e.func, ast.Attribute) and e.func.attr in meths and not src(e.func.value).startswith("super"):
                    callee = e.func.attr
                    # skip calls on objects that are clearly not nodes (cursor.seek etc. share no names with req_self)
                    if callee in req_self:
                        n_ob += 1
                        okk, why = _owned(model, f, cfg, rd, e.func.value, n, req_self, req_param, in_node)
                        _emit(rep, f, e.func.value, f"call {src(e.func.value)}.{callee}", okk, why)
                    cparams = [p for p in meths[callee].params() if p != "self"]
                    for i, a in enumerate(e.args):
                        if i < len(cparams) and (callee, cparams[i]) in req_param and not (isinstance(a, ast.Constant) and a.value is None):
                            n_ob += 1
                            okk, why = _owned(model, f, cfg, rd, a, n, req_self, req_param, in_node)
                            _emit(rep, f, a, f"arg {cparams[i]} of {callee}: {src(a)}", okk, why)
    rep.floor("R-19.1", n_ob, 45)
    # who may write node internals: only _Node methods
    for f in model.all_functions():
        if f.cls is not None and f.cls.qualname == NODE:
            continue
        if f.module.name != "dns.btree":
            for n in ast.walk(f.node):
                if isinstance(n, ast.Attribute) and n.attr in ("elts", "children") and isinstance(n.ctx, ast.Store):
                    rep.bad("R-19.1", f.qualname, where(f, n), "B-tree node internals written outside dns.btree", stmt=src(n))
            continue
        for st in ast.walk(f.node):
            if isinstance(st, ast.stmt):
                for (recv, what) in _node_writes(st):
                    rep.bad("R-19.1", f.qualname, where(f, st), f"`{what}` outside _Node: node internals are written by {f.qualname}", stmt=what)

    # ------------------------------------------------------------ R-19.2
    bt = model.cls("dns.btree.BTree")
    tree_mutators = []
    for name, f in bt.methods.items():
        if name == "__init__":
            continue
        direct = any(isinstance(n, ast.Attribute) and n.attr in ("root", "size") and isinstance(n.ctx, ast.Store) and src(n.value) == "self" for n in ast.walk(f.node))
        callsmut = any(isinstance(c, ast.Call) and isinstance(c.func, ast.Attribute) and c.func.attr in req_self and src(c.func.value).startswith("self.root") for c in ast.walk(f.node))
        if direct or callsmut:
            tree_mutators.append(f)
    rep.floor("R-19.2", len(tree_mutators), 2)
    for f in tree_mutators:
        cfg = CFG(f.node, implicit_exc=False)
        gate = [n.id for (n, c) in calls_with_nodes(cfg) if src(c.func) == "self._check_mutable_and_park"]
        targets = [n for n in cfg.stmts() if any(
            (isinstance(e, ast.Attribute) and e.attr in ("root", "size") and isinstance(e.ctx, ast.Store)) or
            (isinstance(e, ast.Call) and isinstance(e.func, ast.Attribute) and e.func.attr in (req_self | {"maybe_cow"}) and src(e.func.value).startswith(("self.root", "old_root")))
            for e in own_nodes(n.ast))]
        for tnode in targets:
            rep.check(bool(gate) and cfg.dominated_by_set(tnode.id, gate), "R-19.2", f.qualname, where(f, tnode.ast), "tree change dominated by _check_mutable_and_park()",
                      "the tree is changed without passing _check_mutable_and_park(): a frozen tree can be mutated (and open cursors are not parked)", stmt=stmt_key(tnode.ast))
    cm = model.func("dns.btree.BTree._check_mutable_and_park")
    cfg = CFG(cm.node, implicit_exc=False)
    tests = [n for n in cfg.nodes if n.kind == "test" and isinstance(n.ast, ast.If)]
    raises = [n for n in cfg.nodes if isinstance(n.ast, ast.Raise)]
    okk = bool(tests) and atoms(normalise_compare(tests[0].ast.test)) == [("self._immutable", "truthy", "")] and bool(raises) and cfg.edge_dominated(raises[0].id, {(tests[0].id, "t")}) \
        and cfg.dominated_by_set(cfg.exit.id, [tests[0].id])
    parks = "cursor.park()" in src(cm.node) and "for cursor in self.cursors" in src(cm.node)
    rep.check(okk, "R-19.2", cm.qualname, where(cm, cm.node), "raises Immutable when the tree is frozen", "_check_mutable_and_park no longer raises for a frozen tree", stmt="raises-when-frozen")
    rep.check(parks, "R-19.2", cm.qualname, where(cm, cm.node), "parks every registered cursor before a mutation", "cursors are not parked before a mutation", stmt="parks")
    stores = []
    for f in model.functions_in("dns.btree") + model.functions_in("dns.btreezone"):
        for n in ast.walk(f.node):
            if isinstance(n, ast.Assign):
                for t in n.targets:
                    if isinstance(t, ast.Attribute) and t.attr == "_immutable":
                        stores.append((f, n))
    okk = all((f.name == "__init__" and src(n.value) == "False") or (f.name == "make_immutable" and src(n.value) == "True") for (f, n) in stores) and len(stores) >= 2
    rep.check(okk, "R-19.2", "dns.btree.BTree._immutable", bt.file, "set False at construction and True in make_immutable only (one-way)",
              "a frozen tree can be thawed: " + "; ".join(f"{f.qualname}: {stmt_key(n)}" for (f, n) in stores), stmt="one-way-freeze")
    init = bt.methods["__init__"]
    cfg = CFG(init.node, implicit_exc=False)
    share = [n for n in cfg.nodes if isinstance(n.ast, ast.Assign) and src(n.ast) == "self.root = original.root"]
    tests = [n for n in cfg.nodes if n.kind == "test" and atoms(normalise_compare(n.ast.test)) == [("original._immutable", "falsy", "")]]
    raises = [n for n in cfg.nodes if isinstance(n.ast, ast.Raise)]
    okk = len(share) == 1 and len(tests) == 1 and cfg.edge_dominated(share[0].id, {(tests[0].id, "f")}) and any(cfg.edge_dominated(r.id, {(tests[0].id, "t")}) for r in raises)
    rep.check(okk, "R-19.2", init.qualname, where(init, init.node), "sharing the original's root requires a frozen original", "a mutable tree can be cloned: later writes to the original leak into the clone", stmt="clone-requires-frozen")
    fresh = "self.creator = _Creator()" in src(init.node)
    rep.check(fresh, "R-19.2", init.qualname, where(init, init.node), "every tree has its own creator token", "trees share a creator token: copy-on-write cannot tell owners apart", stmt="fresh-creator")

    # ------------------------------------------------------------ R-19.3
    for cq in ("dns.btree.BTreeDict", "dns.btree.BTreeSet"):
        ci = model.cls(cq)
        for name, f in ci.methods.items():
            if name == "__init__":
                continue
            for n in ast.walk(f.node):
                if isinstance(n, ast.Attribute) and n.attr in ("root", "size", "creator", "_immutable") and isinstance(n.ctx, ast.Store):
                    rep.bad("R-19.3", f.qualname, where(f, n), f"wrapper writes BTree.{n.attr} directly", stmt=src(n))
                if isinstance(n, ast.Call) and isinstance(n.func, ast.Attribute) and src(n.func.value) == "self.root" and n.func.attr in req_self:
                    rep.bad("R-19.3", f.qualname, where(f, n), f"wrapper calls the node mutator root.{n.func.attr} directly, bypassing the freeze check", stmt=src(n.func))
            rep.ok("R-19.3", f.qualname, where(f, f.node), "touches the tree only through BTree's public operations", stmt="wrapper", nontrivial=False)
    # ------------------------------------------------------------ R-19.4
    cur = model.cls("dns.btree.Cursor")
    init = cur.methods["__init__"]
    optional = sorted({n.target.attr for n in ast.walk(init.node) if isinstance(n, ast.AnnAssign) and isinstance(n.target, ast.Attribute) and "None" in src(n.annotation)})
    rep.floor("R-19.4-optional", len(optional), 2)
    n_tests = 0
    for name, f in sorted(cur.methods.items()):
        for n in ast.walk(f.node):
            tests = []
            if isinstance(n, (ast.If, ast.While, ast.IfExp, ast.Assert)):
                tests.append(n.test)
            for t in tests:
                for a in atoms(normalise_compare(t)):
                    if a[0].startswith("self.") and a[0][5:] in optional:
                        n_tests += 1
                        rep.check(a[1] in ("is", "is not") and a[2] == "None", "R-19.4", f.qualname, where(f, n), f"`{src(t)[:50]}` tests presence by identity",
                                  f"`{src(t)[:50]}` tests the Optional `{a[0]}` by {a[1]}: a legitimate falsy value (key 0, empty name, empty string) is taken for 'absent', so a cursor parked on it is not re-sought after a mutation",
                                  stmt=f"presence {a[0]} in {name}")
    rep.floor("R-19.4-presence", n_tests, 8)
    mu = cur.methods["_maybe_unpark"]
    cfg = CFG(mu.node, implicit_exc=False)
    seeks = [(n, c) for (n, c) in calls_with_nodes(cfg) if src(c.func) == "self.seek"]
    if len(seeks) != 1:
        rep.blind("R-19.4", mu.qualname, where(mu, mu.node), f"{len(seeks)} re-seek calls in _maybe_unpark", stmt="reseek")
    else:
        sn, sc = seeks[0]
        doms = []
        for t in cfg.nodes:
            if t.kind == "test" and isinstance(t.ast, ast.If):
                if cfg.edge_dominated(sn.id, {(t.id, "t")}):
                    doms += atoms(normalise_compare(t.ast.test))
        rep.check(sorted(doms) == sorted([("self.parked", "truthy", ""), ("self.parking_key", "is not", "None")]) and src(sc.args[0]) == "self.parking_key", "R-19.4", mu.qualname, where(mu, sc),
                  "re-seeks the remembered key exactly when parked and a key is remembered", f"the re-seek is conditioned on {doms} (expected: parked, parking_key is not None) or seeks something other than the remembered key", stmt="reseek")
        resets = [n for n in cfg.nodes if isinstance(n.ast, ast.Assign) and src(n.ast) == "self.parked = False"]
        rep.check(bool(resets), "R-19.4", mu.qualname, where(mu, mu.node), "unparks", "never clears self.parked", stmt="unpark-clears")
    for name in ("next", "prev"):
        f = cur.methods[name]
        cfg = CFG(f.node, implicit_exc=False)
        unp = [n.id for (n, c) in calls_with_nodes(cfg) if src(c.func) == "self._maybe_unpark"]
        reads = [n for n in cfg.stmts() if n.id not in unp and any(isinstance(e, ast.Attribute) and src(e.value) == "self" and e.attr in ("current_node", "current_index", "parents") for e in own_nodes(n.ast))]
        rep.check(bool(unp) and bool(reads) and all(cfg.dominated_by_set(r.id, unp) for r in reads), "R-19.4", f.qualname, where(f, f.node), f"all {len(reads)} position reads come after _maybe_unpark()",
                  "the cursor position is read without passing _maybe_unpark(): after a mutation the stale node/index is used", stmt="unpark-first")
    cp = model.func("dns.btree.BTree._check_mutable_and_park")
    loops = [n for n in ast.walk(cp.node) if isinstance(n, ast.For) and src(n.iter) == "self.cursors" and any(isinstance(c, ast.Call) and src(c.func) == f"{src(n.target)}.park" for c in ast.walk(n))]
    rep.check(len(loops) == 1, "R-19.4", cp.qualname, where(cp, cp.node), "parks every registered cursor", "no longer parks every registered cursor before a mutation", stmt="park-all")
    pk = cur.methods["park"]
    rep.check(any(isinstance(n, ast.Assign) and src(n) == "self.parked = True" for n in ast.walk(pk.node)), "R-19.4", pk.qualname, where(pk, pk.node), "park() sets parked", "park() does not set parked", stmt="park-sets")
    # ------------------------------------------------------------ R-19.5
    inf = meths["insert_nonfull"]
    cfg = CFG(inf.node, implicit_exc=False)
    splits = [n for (n, c) in calls_with_nodes(cfg) if isinstance(c.func, ast.Attribute) and c.func.attr == "split"]
    searches = [n.id for (n, c) in calls_with_nodes(cfg) if isinstance(c.func, ast.Attribute) and c.func.attr == "search_in_node"]
    descents = [n for (n, c) in calls_with_nodes(cfg) if isinstance(c.func, ast.Attribute) and c.func.attr == "insert_nonfull"]
    if len(splits) != 1 or not searches or not descents:
        rep.blind("R-19.5", inf.qualname, where(inf, inf.node), f"split/search/descent sites not recognised ({len(splits)}/{len(searches)}/{len(descents)})", stmt="research-after-split")
    else:
        r = cfg.reachable([y for (y, k) in cfg.succ[splits[0].id] if k not in ("exc", "raise")], blocked=searches)
        rep.check(not any(d.id in r for d in descents) and not any(isinstance(cfg.nodes[i].ast, ast.Return) for i in r if cfg.nodes[i].ast is not None), "R-19.5", inf.qualname, where(inf, splits[0].ast),
                  "after child.split() the node is searched again before any descent or return",
                  "after splitting a full child the code descends without searching this node again: when the key equals the median that just moved up, it is inserted a second time below "
                  "(duplicate key, len() off by one, lookup returns the old value)", stmt="research-after-split")
    # ---------------------------------------------------------------- R-19.6
    def _none_resets(fn_):
        return {src(t_) for st in fn_.node.body if isinstance(st, ast.Assign) and isinstance(st.value, ast.Constant) and st.value.value is None for t_ in st.targets}
    nx, pv = model.func("dns.btree.Cursor.next"), model.func("dns.btree.Cursor.prev")
    rn, rp = _none_resets(nx), _none_resets(pv)
    rep.check(rn == rp and bool(rn), "R-19.6", "dns.btree.Cursor.next ~ prev", where(pv, pv.node), f"next() and prev() clear the same state ({sorted(rn)}) before they move",
              f"next() clears {sorted(rn)} before moving but prev() clears {sorted(rp)}: a cursor that reached a boundary through the other one keeps a stale parking key and, after a mutation, re-seeks to it "
              "(elements skipped or returned after None)", stmt="step-resets-agree")
    for (qn, val) in (("dns.btree.Cursor.next", True), ("dns.btree.Cursor.prev", False)):
        fc = model.func(qn)
        cc = CFG(fc.node, implicit_exc=False)
        stores = [n.id for n in cc.stmts() if isinstance(n.ast, ast.Assign) and src(n.ast.targets[0]) == "self.increasing" and isinstance(n.ast.value, ast.Constant) and n.ast.value.value is val]
        reads = [n for n in cc.stmts() if isinstance(n.ast, ast.Assign) and isinstance(n.ast.value, ast.Subscript) and src(n.ast.value.value) == "self.current_node.elts"]
        if not reads:
            rep.blind("R-19.6", qn, where(fc, fc.node), "the element read `self.current_node.elts[...]` was not found", stmt="direction-flag")
        for r_ in reads:
            rep.check(bool(stores) and cc.dominated_by_set(r_.id, stores), "R-19.6", qn, where(fc, r_.ast), f"`self.increasing = {val}` precedes the element read on every path",
                      f"an element is read on a path that never passed `self.increasing = {val}` (the store is missing or conditional): after a seek/step in the other direction the flag stays stale, "
                      "so the cursor skips the descent into a subtree (elements silently omitted) and a parked cursor re-seeks on the wrong side of its key", stmt="direction-flag")
    # ---------------------------------------------------------------- R-19.7
    bi = model.func("dns.btree.BTree.__init__")
    arm = [n for n in ast.walk(bi.node) if isinstance(n, ast.If) and any(a[0] == "original" and a[1] == "is not" for a in atoms(normalise_compare(n.test)))]
    if len(arm) != 1:
        rep.blind("R-19.7", bi.qualname, where(bi, bi.node), "the `original is not None` arm was not found", stmt="clone-attrs")
    else:
        n_cl = 0
        for st in arm[0].body:
            if isinstance(st, ast.Assign) and isinstance(st.targets[0], ast.Attribute) and src(st.targets[0].value) == "self":
                n_cl += 1
                attr = st.targets[0].attr
                rep.check(src(st.value) == f"original.{attr}", "R-19.7", bi.qualname, where(bi, st), f"self.{attr} = original.{attr}",
                          f"the clone's `{attr}` is `{src(st.value)}`, not `original.{attr}`: the copy shares the original's nodes but disagrees with them about {attr} "
                          "(e.g. a default t = 127 on top of nodes built for t = 3: nodes never split or overfill, lookups degrade and in-order insertion asserts)", stmt=f"clone-attr {attr}")
        rep.floor("R-19.7", n_cl, 3)
    # ---------------------------------------------------------------- R-19.8
    bd = model.func("dns.btree.BTree._delete")
    cd8 = CFG(bd.node, implicit_exc=False)
    tests8 = [n for n in cd8.nodes if n.kind == "test" and isinstance(n.ast, ast.If) and any(a[0] == "len(self.root.elts)" and a[1] == "==" and a[2] == "0" for a in atoms(normalise_compare(n.ast.test)))
              and all("self.root" in a[0] for a in atoms(normalise_compare(n.ast.test)))]
    descents = [n.id for (n, c) in calls_with_nodes(cd8) if src(c.func) == "self.root.delete"]
    okk = bool(tests8) and bool(descents) and cd8.dominated_by_set(cd8.exit.id, [t_.id for t_ in tests8]) and all(cd8.dominated_by_set(t_.id, descents) for t_ in tests8)
    # the descent raises ValueError for a non-matching `exact` element AFTER it may have merged nodes: the collapse must sit in a `finally` around it
    callee_raises = any(isinstance(x, ast.Raise) for x in ast.walk(model.func("dns.btree._Node.delete").node))
    if okk and callee_raises:
        trys = [t_ for t_ in ast.walk(bd.node) if isinstance(t_, ast.Try) and any(isinstance(c, ast.Call) and src(c.func) == "self.root.delete" for b in t_.body for c in ast.walk(b))]
        in_finally = any(any(x is tn.ast for b in t_.finalbody for x in ast.walk(b)) for t_ in trys for tn in tests8)
        rep.check(in_finally, "R-19.8", bd.qualname, where(bd, tests8[0].ast), "the collapse also runs when the descent raises (it is in a `finally` around self.root.delete())",
                  "self.root.delete() can raise (`exact delete did not match`) after it merged the root's last two children, and the empty-root test is not in a `finally` around it: "
                  "the tree keeps an internal root with 0 keys and 1 child, and a later delete raises IndexError from merge()", stmt="root-collapse-on-raise")
    rep.check(okk, "R-19.8", bd.qualname, where(bd, tests8[0].ast if tests8 else bd.node), "the empty-root test follows the descent on every path",
              "the `len(self.root.elts) == 0` collapse runs only on some paths after self.root.delete() (e.g. only when an element was removed): deleting an absent key can still merge the root's last two "
              "children on the way down, leaving an internal root with 0 keys and 1 child", stmt="root-collapse")
    # ---------------------------------------------------------------- R-19.9
    cur = model.cls("dns.btree.Cursor")
    pos = {n_: cur.methods.get(n_) for n_ in ("seek", "seek_first", "seek_last")}
    if any(v is None for v in pos.values()):
        rep.blind("R-19.9", "dns.btree.Cursor", cur.file, "seek / seek_first / seek_last not all found", stmt="positioning-state")
    else:
        def _fields(fn_):
            out = set()
            for x in walk_no_nested(fn_.node):
                if isinstance(x, (ast.Assign, ast.AnnAssign, ast.AugAssign)):
                    for t_ in (x.targets if isinstance(x, ast.Assign) else [x.target]):
                        for y in ([t_] if not isinstance(t_, ast.Tuple) else t_.elts):
                            if isinstance(y, ast.Attribute) and src(y.value) == "self":
                                out.add(y.attr)
            # fields set through a helper called on self (e.g. _adjust_for_before sets current_index)
            for c in walk_no_nested(fn_.node):
                if isinstance(c, ast.Call) and isinstance(c.func, ast.Attribute) and src(c.func.value) == "self" and c.func.attr in cur.methods and c.func.attr.startswith("_"):
                    out |= _fields(cur.methods[c.func.attr])
            return out
        fields = {k: _fields(v) for k, v in pos.items()}
        union = set().union(*fields.values()) - {"parking_key_read"}
        for k, v in sorted(pos.items()):
            missing = sorted(union - fields[k])
            rep.check(not missing, "R-19.9", v.qualname, where(v, v.node), f"assigns all {len(union)} position fields",
                      f"{k}() does not assign {missing}, which the other positioning methods reset: the cursor keeps that part of its previous position (e.g. stale `parents` make prev()/next() "
                      "climb into ancestors of the old position and return keys again)", stmt="positioning-state")
        rep.floor("R-19.9-fields", len(union), 6)
    n_gen = 0
    for fg in sorted(model.all_functions(), key=lambda g: g.qualname):
        if fg.module.name not in ("dns.btree", "dns.btreezone"):
            continue
        if not any(isinstance(x, (ast.Yield, ast.YieldFrom)) for x in walk_no_nested(fg.node)):
            continue
        for c in walk_no_nested(fg.node):
            if isinstance(c, ast.Call) and isinstance(c.func, ast.Attribute) and c.func.attr == "cursor" and not c.args:
                n_gen += 1
                registered = any(isinstance(w, (ast.With, ast.AsyncWith)) and any(i.context_expr is c for i in w.items) for w in walk_no_nested(fg.node))
                rep.check(registered, "R-19.9", fg.qualname, where(fg, c), "the generator's cursor is a `with` item (registered for parking)",
                          f"`{src(c)}` in a generator is not entered by `with`: it is never registered, so a mutation made by the consumer between two steps does not park it and the iteration "
                          "skips or repeats keys", stmt="generator-cursor")
    rep.floor("R-19.9-generators", n_gen, 1)
    # ---------------------------------------------------------------- R-19.11
    n_st11 = 0
    for f11 in sorted(model.all_functions(), key=lambda g: g.qualname):
        if f11.module.name != "dns.btree":
            continue
        for st in ast.walk(f11.node):
            calls11 = [c for c in ast.walk(st) if isinstance(c, ast.Call) and isinstance(c.func, ast.Attribute) and c.func.attr in ("try_left_steal", "try_right_steal")] if isinstance(st, ast.stmt) else []
            if not calls11 or any(isinstance(ch, ast.stmt) and any(c in list(ast.walk(ch)) for c in calls11) for ch in ast.iter_child_nodes(st) if isinstance(ch, ast.stmt)):
                continue
            n_st11 += 1
            used = isinstance(st, (ast.If, ast.While, ast.Return, ast.Assert))
            if isinstance(st, ast.Assign) and isinstance(st.targets[0], ast.Name):
                nm11 = st.targets[0].id
                tested = {a[0] for n in ast.walk(f11.node) if isinstance(n, (ast.If, ast.While)) for a in atoms(normalise_compare(n.test))}
                all_assigned_used = all(isinstance(a2.value, ast.Call) or True for a2 in ast.walk(f11.node) if isinstance(a2, ast.Assign))
                used = nm11 in tested and not any(isinstance(e2, ast.Expr) and any(c is c2 for c2 in ast.walk(e2) for c in calls11) for e2 in ast.walk(f11.node))
            rep.check(used, "R-19.11", f11.qualname, where(f11, st), f"`{src(calls11[0].func)}` decides whether to go on",
                      f"the result of `{src(calls11[0])[:50]}` is discarded: after a successful steal the code goes on to merge, producing a node above the maximum occupancy (a later insert asserts; lookups still look fine)",
                      stmt=f"steal-result {calls11[0].func.attr}")
        # statements that call a steal as a bare expression anywhere in the function
    rep.floor("R-19.11", n_st11, 2)
    for cq in ("dns.btree.BTree.__copy__",):
        fc11 = model.func(cq)
        rets11 = [r for r in ast.walk(fc11.node) if isinstance(r, ast.Return) and r.value is not None]
        good11 = [r for r in rets11 if pat.match(pat.parse_expr("self.__class__(original=self)"), r.value, pat.Env())]
        rep.check(bool(rets11) and len(good11) == len(rets11), "R-19.11", cq, where(fc11, next((r for r in rets11 if r not in good11), fc11.node)), "__copy__ always returns a fresh clone",
                  f"`{src(next((r for r in rets11 if r not in good11), fc11.node))[:40]}`: copy.copy() of a tree can return the tree itself - two 'copies' are one object (not isolated), and a copy of a frozen tree refuses every mutation",
                  stmt="copy-is-a-clone")
    # ---------------------------------------------------------------- R-19.14
    truth14 = 0
    for f14 in model.all_functions():
        if f14.module.name != "dns.btree":
            continue
        cow14 = {t_.id for x in ast.walk(f14.node) if isinstance(x, ast.Assign) and isinstance(x.value, ast.Call) and isinstance(x.value.func, ast.Attribute) and x.value.func.attr in ("maybe_cow", "maybe_cow_child")
                 for t_ in x.targets if isinstance(t_, ast.Name)}
        for nd in ast.walk(f14.node):
            if isinstance(nd, (ast.If, ast.While)) and any(a_[0] in cow14 and a_[1] in ("truthy", "falsy") for a_ in atoms(normalise_compare(nd.test))):
                truth14 += 1
    falsy14 = [mn for mn in ("__len__", "__bool__") if mn in node.methods]
    rep.check(not (truth14 and falsy14), "R-19.14", NODE, node.file, f"{truth14} truth tests of copy-on-write results; _Node has no __len__/__bool__",
              f"_Node defines {falsy14} while {truth14} sites test a maybe_cow() result by truth value: a cloned node with no keys is falsy, so the clone is discarded and the shared node is written (an insert into a clone of a frozen empty tree shows up in the original)",
              stmt="node-truthiness")
    rep.floor("R-19.14", truth14, 2)
    # ---------------------------------------------------------------- R-19.12
    n_desc = 0
    for f12 in sorted(model.all_functions(), key=lambda g: g.qualname):
        if f12.module.name != "dns.btree":
            continue
        parents12 = {id(ch): par for par in ast.walk(f12.node) for ch in ast.iter_child_nodes(par)}
        for st in ast.walk(f12.node):
            if not (isinstance(st, ast.Assign) and len(st.targets) == 1 and isinstance(st.value, ast.Subscript) and isinstance(st.value.value, ast.Attribute) and st.value.value.attr == "children"):
                continue
            tgt = src(st.targets[0])
            if src(st.value.value.value) != tgt or not tgt.endswith("current_node"):
                continue
            n_desc += 1
            anc, in_while = parents12.get(id(st)), False
            while anc is not None and anc is not f12.node:
                if isinstance(anc, ast.While):
                    in_while = True
                    break
                anc = parents12.get(id(anc))
            rep.check(in_while, "R-19.12", f12.qualname, where(f12, st), "the descent step is repeated by a `while` loop",
                      f"`{src(st)[:70]}` is not inside a `while`: the cursor goes down ONE level and treats that node as the leaf - on a tree of height >= 3 next()/prev() then return separator keys and skip whole subtrees",
                      stmt="descent-loop " + tgt)
    rep.floor("R-19.12", n_desc, 3)
    # ---------------------------------------------------------------- R-19.13
    closure13 = {f.node.name for f in tree_mutators}
    fam13 = [model.cls(q) for q in ("dns.btree.BTree", "dns.btree.BTreeDict", "dns.btree.BTreeSet")]
    changed13 = True
    while changed13:
        changed13 = False
        for c13 in fam13:
            for nm13, f13 in c13.methods.items():
                if nm13 in closure13 or nm13 == "__init__":
                    continue
                if any(isinstance(c, ast.Call) and isinstance(c.func, ast.Attribute) and src(c.func.value) == "self" and c.func.attr in closure13 for c in ast.walk(f13.node)):
                    closure13.add(nm13)
                    changed13 = True
    n13 = 0
    for c13 in fam13:
        for nm13, f13 in sorted(c13.methods.items()):
            if nm13 not in closure13:
                continue
            n13 += 1
            cfg13 = CFG(f13.node, implicit_exc=False)
            gate13 = [n.id for (n, c) in calls_with_nodes(cfg13) if isinstance(c.func, ast.Attribute) and src(c.func.value) == "self" and (c.func.attr == "_check_mutable_and_park" or (c.func.attr in closure13 and c.func.attr != nm13))]
            okk13 = bool(gate13) and cfg13.postdominated_by_set(cfg13.entry.id, gate13)
            rep.check(okk13, "R-19.13", f13.qualname, where(f13, f13.node), "every normal return passes the freeze check",
                      "a path returns normally without passing _check_mutable_and_park() (or a method that does): on a frozen tree that call succeeds silently instead of raising Immutable",
                      stmt="all-paths-check")
    rep.floor("R-19.13", n13, 8)
    cx13 = model.func("dns.btree.Cursor.__exit__")
    rets13 = [r for r in ast.walk(cx13.node) if isinstance(r, ast.Return) and r.value is not None]
    sup13 = [r for r in rets13 if not (isinstance(r.value, ast.Constant) and r.value.value in (False, None))]
    rep.check(not sup13, "R-19.13", cx13.qualname, where(cx13, sup13[0] if sup13 else cx13.node), "leaving `with cursor` never suppresses an exception",
              f"`{src(sup13[0])[:40]}`: Cursor.__exit__ can return a true value, which suppresses whatever was raised inside `with tree.cursor()` - the Immutable of a refused mutation included" if sup13 else "", stmt="exit-propagates")
    # ---------------------------------------------------------------- R-19.10
    from engine.util import truthiness_uses
    n_sent = 0
    for fs in sorted(model.all_functions(), key=lambda g: g.qualname):
        if fs.module.name != "dns.btree":
            continue
        names = {t_.id for x in ast.walk(fs.node) if isinstance(x, (ast.Assign, ast.AnnAssign)) and x.value is not None and isinstance(x.value, ast.Constant) and x.value.value is None
                 for t_ in (x.targets if isinstance(x, ast.Assign) else [x.target]) if isinstance(t_, ast.Name)}
        a_ = fs.node.args
        allp = list(a_.posonlyargs) + list(a_.args)
        for p_, d_ in zip(allp[len(allp) - len(a_.defaults):], a_.defaults):
            if isinstance(d_, ast.Constant) and d_.value is None:
                names.add(p_.arg)
        for p_, d_ in zip(a_.kwonlyargs, a_.kw_defaults):
            if d_ is not None and isinstance(d_, ast.Constant) and d_.value is None:
                names.add(p_.arg)
        n_sent += len(names)
        for (n_, nm_, how) in truthiness_uses(fs.node, names):
            rep.bad("R-19.10", fs.qualname, where(fs, n_), f"`{nm_}` uses None for 'absent' but is {how}: a falsy key or element (0, an empty name) is taken for 'absent' - e.g. deleting key 0 from an internal node "
                    "removes its successor instead", stmt=f"none-sentinel {nm_}")
    rep.floor("R-19.10", n_sent, 4)
    rep.ok("R-19.10", "dns.btree", "dns/btree.py", f"{n_sent} None-marked locals/parameters are tested by identity only", stmt="none-sentinels")
    rep.meta["explanation"] = (
        "Ownership typestate for B-tree nodes: a fixpoint computes which _Node methods/parameters require an owned receiver (they write elts/children "
        "directly or transitively); every write and every such call in dns/btree.py is then checked with reaching definitions to have an owned receiver "
        "(copy-on-write result, fresh node, or precondition of a mutating method). Plus freeze-protocol shape rules. Sorted-map conformance, occupancy "
        "bounds and cursor results are NOT decided (only the park/unpark protocol shape, R-19.4).")


def _param_never_rebound(f, p):
    for n in ast.walk(f.node):
        if isinstance(n, ast.Name) and n.id == p and isinstance(n.ctx, ast.Store):
            return False
    return True


def _emit(rep, f, recv, what, okk, why):
    key = (f.qualname, what.split("(")[0] if what.startswith("call ") else what)
    stmt = what if not what.startswith("call ") else what
    if okk:
        rep.ok("R-19.1", f.qualname, where(f, recv), f"`{what}`: receiver owned ({why})", stmt=stmt)
    elif (f.qualname, what) in EXCEPTIONS:
        rep.excepted("R-19.1", f.qualname, where(f, recv), EXCEPTIONS[(f.qualname, what)], stmt=stmt)
    else:
        rep.bad("R-19.1", f.qualname, where(f, recv), f"`{what}`: receiver may be SHARED with another tree ({why}); the write would be visible through the original/other clones", stmt=stmt)


def _return_summary(f, req_self):
    rets = [r for r in ast.walk(f.node) if isinstance(r, ast.Return) and r.value is not None]
    if f.name == "_get_node":
        okk = True
        why = []
        for r in rets:
            v = r.value
            if isinstance(v, ast.Tuple):
                first = src(v.elts[0])
                okk = okk and first in ("self", "None")
                why.append(first)
            elif isinstance(v, ast.Call) and src(v.func) == "child._get_node":
                # child must come from maybe_cow_child
                defs = [src(n.value) for n in ast.walk(f.node) if isinstance(n, ast.Assign) and src(n.targets[0]) == "child"]
                okk = okk and defs == ["self.maybe_cow_child(i)"]
                why.append("recursion on a cowed child")
            else:
                okk = False
                why.append(src(v))
        return okk, ", ".join(why)
    if f.name == "split":
        defs = [src(n.value) for n in ast.walk(f.node) if isinstance(n, ast.Assign) and src(n.targets[0]) == "right"]
        okk = defs == ["self.__class__(self.t, self.creator, self.is_leaf)"] and [src(r.value) for r in rets] == ["(self, middle, right)"]
        lists = [src(n.value) for n in ast.walk(f.node) if isinstance(n, ast.Assign) and src(n.targets[0]) in ("right.elts", "self.elts", "right.children", "self.children")]
        okk = okk and all(v.startswith("list(") for v in lists) and len(lists) == 4
        return okk, "self and a freshly constructed right sibling with copied lists"
    return True, ""


def _owned(model, f, cfg, rd, expr, at, req_self, req_param, in_node, depth=0):
    if depth > 6:
        return False, "alias chain too deep"
    if isinstance(expr, ast.Name):
        if expr.id == "self" and in_node:
            if f.name in req_self:
                return True, "self of a mutating method (callers are checked)"
            return False, f"self of {f.name}, which is not in the mutating set"
        kinds = []
        all_ok = True
        for d in rd.reaching(expr.id, at):
            if d.kind == "param":
                if in_node and (f.name, d.var) in req_param:
                    kinds.append("owned parameter (callers are checked)")
                else:
                    all_ok = False
                    kinds.append(f"parameter {d.var} without ownership precondition")
                continue
            v = d.rhs
            okk, why = _owned_rhs(model, f, cfg, rd, v, d, req_self, req_param, in_node, depth)
            all_ok = all_ok and okk
            kinds.append(why)
        if not kinds:
            return False, "no reaching definition"
        return all_ok, "; ".join(sorted(set(kinds)))
    if isinstance(expr, ast.Attribute) and src(expr) == "self.root" and not in_node:
        return _root_owned(cfg, at)
    return False, f"`{src(expr)[:40]}` is not a tracked owned value"


def _owned_rhs(model, f, cfg, rd, v, d, req_self, req_param, in_node, depth):
    if v is None:
        return False, f"{d.kind} binding"
    if isinstance(v, ast.Call) and isinstance(v.func, ast.Attribute):
        a = v.func.attr
        if a == "maybe_cow_child":
            okk, why = _owned(model, f, cfg, rd, v.func.value, d.node, req_self, req_param, in_node, depth + 1)
            return okk, "maybe_cow_child of an owned node" if okk else f"maybe_cow_child of a node that is not owned ({why})"
        if a == "clone":
            return True, "clone"
        if a == "_get_node" and d.index == 0:
            okk, why = _owned(model, f, cfg, rd, v.func.value, d.node, req_self, req_param, in_node, depth + 1)
            return okk, "_get_node (cows while descending)" if okk else f"_get_node on a node that is not owned ({why})"
        if a == "__class__":
            return True, "fresh node"
        if a == "split":
            return _owned(model, f, cfg, rd, v.func.value, d.node, req_self, req_param, in_node, depth + 1)
        if a in ("pop", "get") or a == "maybe_cow":
            if a == "maybe_cow":
                return True, "maybe_cow result (a clone or None)"
            return False, f"taken from a container: {src(v)[:40]}"
    if isinstance(v, ast.Call) and (src(v.func) in ("_Node", "self.__class__") or src(v.func).endswith(".__class__")):
        return True, "fresh node"
    if isinstance(v, ast.Subscript):
        return False, f"read from {src(v.value)}[...] (shared)"
    if isinstance(v, ast.Name):
        return _owned(model, f, cfg, rd, v, d.node, req_self, req_param, in_node, depth + 1)
    if isinstance(v, ast.Attribute) and src(v) == "self.root":
        return _root_owned(cfg, d.node)
    return False, f"unknown origin `{src(v)[:40]}`"


def _root_owned(cfg, at):
    """self.root is owned at `at` iff every path passes the root-cow idiom or a fresh-root assignment."""
    gates = []
    for n in cfg.nodes:
        if n.kind == "test" and isinstance(n.ast, ast.If) and atoms(normalise_compare(n.ast.test)) == [("cloned", "truthy", "")]:
            body = [stmt_key(s) for s in n.ast.body]
            if body == ["self.root = cloned"]:
                # cloned must be the root's own cow
                gates.append(n.id)
        if isinstance(n.ast, ast.Assign) and src(n.ast.targets[0]) == "self.root" and src(n.ast.value).startswith("_Node("):
            gates.append(n.id)
    cows = [n.id for n in cfg.nodes if isinstance(n.ast, ast.Assign) and src(n.ast) == "cloned = self.root.maybe_cow(self.creator)"]
    if not gates or not cows:
        return False, "no root copy-on-write idiom in this method"
    okk = cfg.dominated_by_set(at.id, gates) and cfg.dominated_by_set(at.id, cows)
    return okk, "root cowed (`cloned = self.root.maybe_cow(self.creator); if cloned: self.root = cloned`)" if okk else "a path reaches this point without the root copy-on-write"


WITNESSES = [
    {"id": "c19-twin-node-repr", "rule": "R-19.14", "file": "dns/btree.py", "expect": "silent",
     "old": "    def is_maximal(self) -> bool:", "new": "    def __repr__(self) -> str:\n        return f\"<node {len(self.elts)} elts>\"\n\n    def is_maximal(self) -> bool:"},
    {"id": "c19-node-len-makes-empty-clone-falsy", "rule": "R-19.14", "file": "dns/btree.py", "expect": "fires",
     "old": "    def is_maximal(self) -> bool:", "new": "    def __len__(self) -> int:\n        return len(self.elts)\n\n    def is_maximal(self) -> bool:"},
    {"id": "c19-cursor-exit-swallows", "rule": "R-19.13", "file": "dns/btree.py", "expect": "fires",
     "old": "        self.btree.deregister_cursor(self)\n        return False", "new": "        self.btree.deregister_cursor(self)\n        return True"},
    {"id": "c19-seek-descends-one-level", "rule": "R-19.12", "file": "dns/btree.py", "expect": "fires",
     "old": "        while not self.current_node.is_leaf:\n            i, equal = self.current_node.search_in_node(key)", "new": "        if not self.current_node.is_leaf:\n            i, equal = self.current_node.search_in_node(key)"},
    {"id": "c19-twin-seek-loop-while-true", "rule": "R-19.12", "file": "dns/btree.py", "expect": "silent",
     "old": "        while not self.current_node.is_leaf:\n            i, equal = self.current_node.search_in_node(key)", "new": "        while True:\n            if self.current_node.is_leaf:\n                break\n            i, equal = self.current_node.search_in_node(key)"},
    {"id": "c19-delete-key-miss-shortcut", "rule": "R-19.13", "file": "dns/btree.py", "expect": "fires",
     "old": "        return self._delete(key, None)", "new": "        if self.root.get(key) is None:\n            return None\n        return self._delete(key, None)"},
    {"id": "c19-discard-empty-shortcut", "rule": "R-19.13", "file": "dns/btree.py", "expect": "fires",
     "old": "    def discard(self, value: KT) -> None:\n        self.delete_key(value)", "new": "    def discard(self, value: KT) -> None:\n        if len(self) == 0:\n            return\n        self.delete_key(value)"},
    {"id": "c19-twin-delete-key-check-first", "rule": "R-19.13", "file": "dns/btree.py", "expect": "silent",
     "old": "        return self._delete(key, None)", "new": "        self._check_mutable_and_park()\n        if self.root.get(key) is None:\n            return None\n        return self._delete(key, None)"},
    {"id": "c19-balance-ignores-right-steal", "rule": "R-19.11", "file": "dns/btree.py", "expect": "fires",
     "old": "        if self.try_left_steal(parent, index):\n            return\n        if self.try_right_steal(parent, index):\n            return", "new": "        stolen = self.try_left_steal(parent, index)\n        if not stolen:\n            self.try_right_steal(parent, index)\n        if stolen:\n            return"},
    {"id": "c19-copy-returns-self-when-frozen", "rule": "R-19.11", "file": "dns/btree.py", "expect": "fires",
     "old": "    def __copy__(self):\n        return self.__class__(original=self)", "new": "    def __copy__(self):\n        if self._immutable:\n            return self\n        return self.__class__(original=self)"},
    {"id": "c19-prev-keeps-parking-key", "rule": "R-19.6", "file": "dns/btree.py", "expect": "fires",
     "old": "        \"\"\"Get the previous element, or return None if on the left boundary.\"\"\"\n        self._maybe_unpark()\n        self.parking_key = None\n", "new": "        \"\"\"Get the previous element, or return None if on the left boundary.\"\"\"\n        self._maybe_unpark()\n"},
    {"id": "c19-original-key-truth-tested", "rule": "R-19.10", "file": "dns/btree.py", "expect": "fires",
     "old": "        if original_key is not None:\n            node, i = self._get_node(original_key)", "new": "        if original_key:\n            node, i = self._get_node(original_key)"},
    {"id": "c19-seek-last-keeps-parents", "rule": "R-19.9", "file": "dns/btree.py", "expect": "fires",
     "old": "        self.current_index = 1\n        self.recurse = False\n        self.increasing = False\n        self.parents = []\n", "new": "        self.current_index = 1\n        self.recurse = False\n        self.increasing = False\n"},
    {"id": "c19-iter-cursor-unregistered", "rule": "R-19.9", "file": "dns/btree.py", "expect": "fires",
     "old": "        with self.cursor() as cursor:\n            while True:\n                elt = cursor.next()\n                if elt is None:\n                    break\n                yield elt.key()",
     "new": "        cursor = self.cursor()\n        while True:\n            elt = cursor.next()\n            if elt is None:\n                break\n            yield elt.key()"},
    {"id": "c19-root-collapse-only-after-successful-delete", "rule": "R-19.8", "file": "dns/btree.py", "expect": "fires",
     "old": "        if elt is not None:\n            # We deleted something\n            self.size -= 1\n        if len(self.root.elts) == 0:",
     "new": "        if elt is not None:\n            # We deleted something\n            self.size -= 1\n        if elt is not None and len(self.root.elts) == 0:"},
    {"id": "c19-next-direction-flag-conditional", "rule": "R-19.6", "file": "dns/btree.py", "expect": "fires",
     "old": "                self.recurse = False\n            self.increasing = True\n", "new": "                self.recurse = False\n                self.increasing = True\n"},
    {"id": "c19-clone-takes-default-t", "rule": "R-19.7", "file": "dns/btree.py", "expect": "fires",
     "old": "            self.t = original.t\n", "new": "            self.t = t\n"},
    {"id": "c19-no-research-after-split", "rule": "R-19.5", "file": "dns/btree.py", "expect": "fires",
     "old": "                    self.adopt(*child.split())\n                    # Splitting might result in our target moving to us, so\n                    # search again.\n                    continue\n",
     "new": "                    left, middle, right = child.split()\n                    self.adopt(left, middle, right)\n                    if key > middle.key():\n                        i += 1\n                        child = right\n"},
    {"id": "c19-parking-key-truthiness", "rule": "R-19.4", "file": "dns/btree.py", "expect": "fires",
     "old": "            if self.parking_key is not None:", "new": "            if self.parking_key:"},
    {"id": "c19-next-without-unpark", "rule": "R-19.4", "file": "dns/btree.py", "expect": "fires",
     "old": "        \"\"\"Get the next element, or return None if on the right boundary.\"\"\"\n        self._maybe_unpark()\n", "new": "        \"\"\"Get the next element, or return None if on the right boundary.\"\"\"\n"},
    {"id": "c19-mutation-does-not-park", "rule": "R-19.4", "file": "dns/btree.py", "expect": "fires",
     "old": "        for cursor in self.cursors:\n            cursor.park()\n", "new": ""},
    {"id": "c19-steal-shared-left", "rule": "R-19.1", "file": "dns/btree.py", "expect": "fires",
     "old": "            if not left.is_minimal():\n                left = parent.maybe_cow_child(index - 1)\n", "new": "            if not left.is_minimal():\n"},
    {"id": "c19-steal-shared-right", "rule": "R-19.1", "file": "dns/btree.py", "expect": "fires",
     "old": "            if not right.is_minimal():\n                right = parent.maybe_cow_child(index + 1)\n", "new": "            if not right.is_minimal():\n"},
    {"id": "c19-merge-shared-left", "rule": "R-19.1", "file": "dns/btree.py", "expect": "fires",
     "old": "            left = parent.maybe_cow_child(index - 1)\n            left.merge(parent, index - 1)", "new": "            left = parent.children[index - 1]\n            left.merge(parent, index - 1)"},
    {"id": "c19-insert-no-cow", "rule": "R-19.1", "file": "dns/btree.py", "expect": "fires",
     "old": "                child = self.maybe_cow_child(i)\n                if child.is_maximal():", "new": "                child = self.children[i]\n                if child.is_maximal():"},
    {"id": "c19-root-not-cowed", "rule": "R-19.1", "file": "dns/btree.py", "expect": "fires",
     "old": "        self._check_mutable_and_park()\n        cloned = self.root.maybe_cow(self.creator)\n        if cloned:\n            self.root = cloned\n        elt = self.root.delete(key, None, exact)",
     "new": "        self._check_mutable_and_park()\n        elt = self.root.delete(key, None, exact)"},
    {"id": "c19-clone-aliases-lists", "rule": "R-19.1", "file": "dns/btree.py", "expect": "fires",
     "old": "        cloned.elts.extend(self.elts)\n", "new": "        cloned.elts = self.elts\n"},
    {"id": "c19-delete-no-freeze-check", "rule": "R-19.2", "file": "dns/btree.py", "expect": "fires",
     "old": "    def _delete(self, key: KT, exact: ET | None) -> ET | None:\n        self._check_mutable_and_park()\n", "new": "    def _delete(self, key: KT, exact: ET | None) -> ET | None:\n"},
    {"id": "c19-clone-mutable-original", "rule": "R-19.2", "file": "dns/btree.py", "expect": "fires",
     "old": "            if not original._immutable:\n                raise ValueError(\"original BTree is not immutable\")\n", "new": ""},
    {"id": "c19-getnode-no-cow", "rule": "R-19.1", "file": "dns/btree.py", "expect": "fires",
     "old": "            child = self.maybe_cow_child(i)\n            return child._get_node(key)", "new": "            child = self.children[i]\n            return child._get_node(key)"},
    {"id": "c19-twin-rename-local", "rule": "R-19.1", "file": "dns/btree.py", "expect": "silent",
     "old": "            left = parent.maybe_cow_child(index - 1)\n            left.merge(parent, index - 1)", "new": "            sibling = parent.maybe_cow_child(index - 1)\n            sibling.merge(parent, index - 1)"},
    {"id": "c19-maybe-cow-inverted", "rule": "R-19.1", "file": "dns/btree.py", "expect": "fires",
     "old": "        if self.creator is not creator:\n            return self.clone(creator)", "new": "        if self.creator is creator:\n            return self.clone(creator)"},
]
