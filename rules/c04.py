"""C04 untrusted input raises only library errors: interprocedural exception-escape analysis of every parser entry
point, wrapper integrity, exception hierarchy, bounded reads, loop termination, continue-on-error bookkeeping."""
from __future__ import annotations

import ast
import re
import fnmatch

from engine.callgraph import Resolver
from engine.cfg import CFG, normalise_compare, atoms
from engine.escape import Escape
from engine.guards import make_guard
from engine import pat
from engine.model import src, stmt_key, dotted, AnalysisError, walk_no_nested
from engine.util import own_nodes, calls_with_nodes, where, with_exprs

RULES = {
    "R-04.1": "every exception class that can escape a wire entry point (message/name/rdata/option from_wire) is in the FormError family or the documented TSIG / truncation set",
    "R-04.2": "every exception class that can escape a text entry point is in the dns.exception.SyntaxError family (zone entries additionally: explicit ValueError/KeyError of dns.transaction / dns.zone and the zone-check exceptions)",
    "R-04.3": "the two ExceptionWrapper sites wrap the whole per-type call with the right class and the wrapper converts every foreign exception",
    "R-04.4": "every exception class raised explicitly on a wire path derives from FormError, on a text path from dns.exception.SyntaxError (hierarchy table)",
    "R-04.5": "Parser reads are bounded: get_bytes/seek raise FormError out of bounds and every get_uintN/get_struct unpacks exactly calcsize(format) octets",
    "R-04.6": "every `while` loop on a parse path consumes input (or strictly decreases a measure) on every trip",
    "R-04.8": "values returned by the parsers can be rendered: the constructor validators that back every encoder-side `assert l < N` / struct width bound the value they return (shared with C05 R-05.5; the per-encoder interval check is C05 R-05.1)",
    "R-04.12": "what is parsed can be printed: in the to_text of an EDNS option, `.decode()` of raw option octets runs only under an `all(<printable test> for c in <those octets>)` guard (hexlify output excepted); and dns.grange.from_text returns a step >= 1 on every path (the zone reader hands it to range(), outside its SyntaxError wrapper)",
    "R-04.11": "a wire reader decodes text strictly: a lenient error handler (surrogateescape / ignore / replace) on `.decode()` in a from_wire_parser accepts octets that the class's strict `.encode()` cannot write back, so hashing, comparing or re-rendering the parsed value raises UnicodeEncodeError outside every wrapper",
    "R-04.10": "what the wire parser accepts can be printed: integer fields printed through an enum's to_text were bounded to that enum's range by the constructor (C05 R-05.11 adopted) - otherwise from_wire succeeds and to_text of the result raises a bare ValueError",
    "R-04.9": "a failed record leaves the parser usable: Parser.restrict_to restores the previous end in a `finally` (C02 R-02.2 restrict-shape adopted), otherwise every record after a damaged one is reported as malformed under continue_on_error",
    "R-04.7": "continue_on_error: failures after the header are recorded with the parser offset and the reader resynchronises; Truncated is raised only on request",
}

ZONE = {"dns.name", "dns.wirebase", "dns.wire", "dns.tokenizer", "dns.zonefile", "dns.ttl", "dns.grange", "dns.enum", "dns.rdatatype", "dns.rdataclass", "dns.opcode",
        "dns.rcode", "dns.flags", "dns.message", "dns.update", "dns.rdata", "dns.edns", "dns.tsig"}
WIRE = ["dns.message.from_wire", "dns.name.from_wire", "dns.rdata.from_wire", "dns.rdata.from_wire_parser", "dns.edns.option_from_wire"]
TEXT = ["dns.name.from_text", "dns.name.from_unicode", "dns.ttl.from_text", "dns.rdata.from_text", "dns.rdataset.from_text_list", "dns.rrset.from_text_list", "dns.zone.from_text",
        "dns.zonefile.read_rrsets", "dns.message.from_text"]
ZONE_ENTRIES = {"dns.zone.from_text", "dns.zonefile.read_rrsets"}
WIRE_DOCUMENTED = ["dns.tsig.Bad*", "dns.tsig.Peer*", "dns.message.UnknownTSIGKey"]
TEXT_ZONE_DOCUMENTED = ["dns.zone.NoSOA", "dns.zone.NoNS", "dns.zone.UnknownOrigin", "dns.zonefile.UnknownOrigin"]

FIELD_HINTS = {
    ("dns.message._WireReader", "message"): {"dns.message.Message"},
    ("dns.message._TextReader", "message"): {"dns.message.Message"},
    ("dns.zonefile.Reader", "txn"): {"dns.transaction.Transaction"},
    ("dns.tsig.Key", "name"): {"dns.name.Name"},
    ("dns.tsig.Key", "algorithm"): {"dns.name.Name"},
}
TSIG_T = {"dns.rdtypes.ANY.TSIG.TSIG"}
CTX_T = {"dns.tsig.HMACTSig", "dns.tsig.GSSTSig"}
PARAM_HINTS = {}
for fn in ("_digest", "validate", "sign", "_maybe_start_digest", "get_context"):
    PARAM_HINTS[(f"dns.tsig.{fn}", "key")] = {"dns.tsig.Key"}
    PARAM_HINTS[(f"dns.tsig.{fn}", "rdata")] = TSIG_T
    PARAM_HINTS[(f"dns.tsig.{fn}", "ctx")] = CTX_T

# call sites inside the zone that the resolver cannot type; each is argued separately
UNRESOLVED_OK = {
    ("dns.rdata.Rdata._as_tuple", "as_value"): "validator callback handed in by rdata constructors (always another Rdata._as_* helper or a lambda over them); rdata construction on parse paths runs under ExceptionWrapper",
    ("dns.tsig.GSSTSig.sign", "self.gssapi_context.get_signature"): "user-supplied GSSAPI context (outside the analysed program)",
    ("dns.tsig.GSSTSig.verify", "self.gssapi_context.verify_signature"): "user-supplied GSSAPI context; verify() converts any exception to BadSignature",
}
CHA_OK = {
    ("dns.rdata.from_text", "object.__setattr__"): "builtin object.__setattr__",
    ("dns.rdata.Rdata.replace", "object.__setattr__"): "builtin object.__setattr__",
    ("dns.rdata.Rdata.__setstate__", "object.__setattr__"): "builtin object.__setattr__",
    ("dns.message.Message._compute_opt_reserve", "option.to_wire"): "EDNS option encoders (render path, not a parse path)",
    ("dns.message._TextReader._make_message", "message.use_edns"): "resolved by name to Message.use_edns (single implementation in dns.message)",
    ("dns.message._TextReader._make_message", "message.set_rcode"): "resolved by name to Message.set_rcode",
}

# Triage of escape candidates that are infeasible / environment-only.  One pattern = one argued class of sites.
# (kind, exception glob, origin function glob, statement glob) -> reason
T = []


def infeasible(kind, exc, func, reason, stmt="*", entry="*"):
    T.append((kind, exc, func, stmt, reason, entry))


# Genuine escapes that are recorded as known findings: matched candidates are reported under one canonical
# (construct, statement) per exception class so that known_findings.json lists them once.
K = []


def known(entry, exc, func, construct, what):
    K.append((entry, exc, func, construct, what))


known("dns.edns.option_from_wire", "*", "*", "dns.edns.option_from_wire", "option parsing is not wrapped")
known("dns.message.from_text", "dns.*.Unknown*", "dns.enum.IntEnum.from_text", "dns.message.from_text", "unknown mnemonic in a header/question line")
known("dns.message.from_text", "ValueError", "dns.enum.IntEnum.*", "dns.message.from_text", "out-of-range number where a mnemonic is expected")
known("dns.message.from_text", "dns.message.UnknownHeaderField", "*", "dns.message.from_text", "unknown header field")
known("dns.message.from_text", "dns.exception.FormError", "dns.update.UpdateMessage._parse_rr_header", "dns.message.from_text", "update-section rules raise FormError from the text reader")
known("dns.message.from_text", "ValueError", "dns.rcode.to_flags", "dns.message.from_text", "rcode out of range")
known("dns.message.from_text", "ValueError", "dns.message.Message.use_edns", "dns.message.from_text", "negative pad")
known("dns.message.from_text", "LookupError", "dns.flags._from_text", "dns.message.from_text", "unknown flag mnemonic -> KeyError")
known("*", "dns.name.NameTooLong", "dns.name._validate_labels", "dns.name._validate_labels", "NameTooLong derives from FormError but is raised on text paths")
known("*", "dns.name.IDNAException", "dns.name.IDNA2008Codec.encode", "dns.name.IDNA2008Codec.encode", "IDNAException is a DNSException outside the syntax-error family")
known("dns.message.from_wire", "NotImplementedError", "dns.tsig.HMACTSig.__init__", "dns.tsig.HMACTSig.__init__", "unsupported TSIG algorithm with a raw-bytes keyring entry")


# ---- wire side
infeasible("wire", "*", "dns.enum.IntEnum.from_text", "wire paths hand IntEnum.make() integers decoded from fixed-width fields; the text branch (from_text) is dead")
infeasible("wire", "*", "dns.rdatatype.RdataType._extra_from_text", "only reached through IntEnum.from_text (text branch), dead on wire paths")
infeasible("wire", "*", "dns.enum.IntEnum._check_value", "make() receives ints from !B/!H fields (or opcode/rcode extracted by masks); each enum's _maximum() covers that width, and the value is an int")
infeasible("wire", "*", "dns.name.from_text", "wire paths construct Key/RRset/Rdata objects from Name instances; the isinstance(..., str) conversion arms that call dns.name.from_text are dead")
infeasible("wire", "*", "dns.name.from_unicode", "reached only through dns.name.from_text (dead on wire paths)")
infeasible("wire", "*", "dns.name.IDNA*Codec.*", "reached only through dns.name.from_unicode (dead on wire paths)")
infeasible("wire", "*", "dns.ttl.from_text", "TTL comes from a !I field; the str arm of dns.ttl.make is dead")
infeasible("wire", "ValueError", "dns.ttl.make", "TTL is an int from a !I field clamped to 31 bits by the reader")
infeasible("wire", "UnicodeError?", "dns.name._maybe_convert_to_binary", "from_wire_parser builds the label list from parser.get_bytes(): every label is bytes, the str arm is dead")
infeasible("wire", "UnicodeError?", "dns.tsig.Key.__init__", "the reader builds a Key only from a bytes keyring entry (isinstance(key, bytes) guard)")
infeasible("wire", "UnicodeError?", "dns.rdata.Rdata._as_bytes", "wire parsers pass bytes; the str->encode arm needs encode=True with a str argument")
infeasible("wire", "LookupError", "dns.name.Name.fullcompare", "label indices run from len-1 down while l > 0 with l = min(len): always in range")
infeasible("wire", "LookupError", "dns.message._WireReader._get_*", "section_number is one of the four MessageSection constants and Message.sections has four entries", "self.message.sections[section_number]")
infeasible("wire", "LookupError", "dns.tsig.HMACTSig.__init__", "hashinfo is a (hash, bits) pair from the _hashes table; the table lookup itself is inside try/except KeyError")
infeasible("wire", "LookupError", "dns.edns.EDEOption.from_wire_parser", "text[-1] is evaluated under `if text:`", "text[-1]")
infeasible("wire", "AssertionError", "dns.wirebase.Parser.*", "sizes come from unsigned wire fields, struct.calcsize or remaining(); never negative", "assert size >= 0")
infeasible("wire", "AssertionError", "dns.rdata.from_wire_parser", "get_rdata_class(use_generic=True) always returns a class", "assert cls is not None")
infeasible("wire", "AssertionError", "dns.message._WireReader._get_*", "self.message is assigned in read() before any section is parsed", "assert self.message is not None")
infeasible("wire", "AssertionError", "dns.tsig.*", "internal invariants of the TSIG context (ctx is created when first; size is an int for truncated algorithms)")
infeasible("wire", "AssertionError", "dns.name.Name.to_digestable", "to_wire(file=None) always returns bytes")
infeasible("wire", "struct.error", "dns.wirebase.Parser.*", "discharged by R-04.5: exactly calcsize(format) octets are unpacked")
infeasible("wire", "struct.error", "dns.tsig.*", "all packed values are validated TSIG fields (uint16/uint48), lengths of fields read with 16-bit counts, or constants")
infeasible("wire", "struct.error", "dns.name.Name.to_wire", "label lengths are <= 63 and compression offsets <= 0x3FFF (C01 R-01.2/R-01.4)")
infeasible("wire", "ValueError", "dns.tsig._digest", "rdata.other was read with a 16-bit count", "raise ValueError('TSIG Other Data is > 65535 bytes')")
infeasible("wire", "dns.name.NeedAbsoluteNameOrOrigin", "dns.name.Name.to_wire", "names decoded from the wire are absolute; key names are validated absolute names")
infeasible("wire", "dns.rdataset.*", "dns.rdataset.Rdataset.add", "the record is added to the RRset found or created under its own (class, type, covers) key")
infeasible("wire", "TypeError", "dns.rdataset.ImmutableRdataset.*", "message sections hold plain RRsets, never ImmutableRdataset (virtual-dispatch over-approximation)")
infeasible("wire", "ValueError", "dns.rrset.from_rdata_list", "called with exactly one rdata", "raise ValueError('rdata list must not be empty')")
infeasible("wire", "ValueError", "dns.rdataset.from_rdata_list", "called with exactly one rdata", "raise ValueError('rdata list must not be empty')")
infeasible("wire", "KeyError", "dns.message.Message.find_rrset", "called with create=True", "raise KeyError")
infeasible("wire", "ValueError", "dns.message.Message.section_number", "the section argument is one of the message's own section lists")
infeasible("wire", "dns.name.LabelTooLong", "dns.name._validate_labels", "wire labels are at most 63 octets (C01 R-01.3)")
infeasible("wire", "dns.name.EmptyLabel", "dns.name._validate_labels", "from_wire_parser stops at the zero-length label and appends it last")
infeasible("wire", "dns.name.AbsoluteConcatenation", "dns.name.Name.concatenate", "relativize/derelativize only concatenate relative names")
infeasible("wire", "dns.exception.TooBig", "*", "render path (TSIG digest of a name), not size-limited")
# ---- text side
infeasible("text", "TypeError", "dns.enum.IntEnum._check_value", "reached from from_text() with the int() of a decimal string")
infeasible("text", "LookupError", "dns.name.Name.fullcompare", "label indices run from len-1 down while l > 0 with l = min(len): always in range")
infeasible("text", "LookupError", "dns.message._TextReader.*", "section_number is one of the four MessageSection constants", "self.message.sections[section_number]")
infeasible("text", "LookupError", "dns.zonefile.Reader.read", "sys.exc_info() returns a 3-tuple", "sys.exc_info()[2]")
infeasible("text", "LookupError", "dns.name.IDNA2008Codec.encode", "idna.IDNAError is always raised with a message argument (third-party convention)", "e.args[0]")
infeasible("text", "UnicodeError?", "dns.name._maybe_convert_to_binary", "from_text/from_unicode build bytes labels (struct.pack / idna encode); the str arm is only for API callers")
infeasible("text", "UnicodeError?", "dns.name.from_text", "encode('ascii') is reached only after is_all_ascii(text)", "text.encode('ascii')")
infeasible("text", "UnicodeError?", "dns.name.IDNA2008Codec.encode", "encode('ascii') runs under is_all_ascii(label)", "label.encode('ascii')")
infeasible("text", "ValueError", "dns.name.from_unicode", "total is at most 999 (three decimal digits): chr() cannot fail", "chr(total)")
infeasible("text", "ValueError", "dns.tokenizer.Token.unescape*", "codepoint is tested <= 255 before chr()", "chr(codepoint)")
infeasible("text", "AssertionError", "dns.rdata.from_text", "get_rdata_class(use_generic=True) always returns a class (GenericRdata fallback)", "assert cls is not None")
infeasible("text", "AssertionError", "dns.message._TextReader.*", "self.message is assigned before any line is processed", "assert self.message is not None")
infeasible("text", "AssertionError", "dns.tokenizer.Tokenizer.__init__", "filename defaults are assigned on every branch above", "assert filename is not None")
infeasible("text", "AssertionError", "dns.zonefile.RRSetsReaderManager.writer", "read_rrsets always opens its manager with replacement=True", "assert replacement is True")
infeasible("text", "AssertionError", "dns.zonefile.RRsetsReaderTransaction.__init__", "constructed by RRSetsReaderManager.writer with read_only=False", "assert not read_only")
infeasible("text", "AssertionError", "dns.zonefile.Reader.*", "zone_origin is tested for None and UnknownOrigin raised just above", "assert self.zone_origin is not None")
infeasible("text", "ValueError", "dns.zonefile.Reader._parse_modify", "offset/width are regex groups (\\\\d+) or the literal '0'")
infeasible("text", "NotImplementedError", "dns.query.*", "DummyTransactionManager is only used by dns.query.xfr (virtual-dispatch over-approximation)")
infeasible("text", "TypeError", "dns.*Immutable*.*", "a write transaction only touches nodes/rdatasets it copied (C10 R-10.3); immutable variants are a virtual-dispatch over-approximation")
infeasible("text", "TypeError", "dns.transaction.Transaction.*", "argument-shape errors of the public add/replace API; the zone reader always calls txn.add(name, ttl, rdata)")
infeasible("text", "dns.btree.Immutable", "dns.btree.BTree._check_mutable_and_park", "the version being loaded is a fresh WritableVersion (mutable tree)")
infeasible("text", "ValueError", "dns.btree._Node.delete", "both raises sit under `exact is not None`; the zone reader reaches _Node.delete only through BTreeSet.discard -> delete_key, which passes exact=None "
           "(btreezone.put_rdataset un-delegating a name whose NS rdataset was evicted)")
infeasible("text", "dns.versioned.UseTransaction", "dns.versioned.Zone.*", "legacy mutators of versioned.Zone are not called by transactions (virtual-dispatch over-approximation)")
infeasible("text", "dns.transaction.AlreadyEnded", "*", "the reader uses its transaction before committing it")
infeasible("text", "dns.transaction.ReadOnly", "*", "the reader is given a write transaction")
infeasible("text", "dns.rdataset.*", "dns.rdataset.Rdataset.add", "records are added to a set created for their own (class, type, covers)")
infeasible("text", "ValueError", "dns.set.Set.union_update", "both operands are Rdatasets")
infeasible("text", "ValueError", "dns.rdataset.from_rdata_list", "called with at least one rdata")
infeasible("text", "ValueError", "dns.rrset.from_rdata_list", "called with at least one rdata")
infeasible("text", "ValueError", "dns.rdata.from_text", "callers on parse paths pass a Tokenizer or str", "raise ValueError('tok must be a string or a Tokenizer')")
infeasible("text", "UnicodeError?", "dns.tokenizer.Tokenizer.__init__", "bytes input is an API choice of the caller, not part of the text being parsed", "f.decode()")
infeasible("text", "KeyError", "dns.message.Message.find_rrset", "called with create=True", "raise KeyError")
infeasible("text", "ValueError", "dns.message.Message.section_number", "the section argument is one of the message's own section lists")
infeasible("text", "dns.name.AbsoluteConcatenation", "dns.name.Name.concatenate", "derelativize only concatenates relative names")
infeasible("text", "ValueError", "dns.ttl.make", "TTL values come from dns.ttl.from_text (ints)")
for _e in ("dns.rdata.from_text", "dns.rdataset.from_text_list", "dns.rrset.from_text_list", "dns.zone.from_text", "dns.zonefile.read_rrsets", "dns.ttl.from_text", "dns.name.from_text", "dns.name.from_unicode"):
    infeasible("text", "*", "dns.rdatatype.RdataType._extra_from_text", "reached only through IntEnum.from_text on API arguments", entry=_e)
infeasible("*", "dns.name.NoIDNA2008", "*", "environment: raised only when the optional idna package is missing and IDNA 2008 was requested")
infeasible("text", "dns.tokenizer.UngetBufferFull", "*", "the tokenizer ungets at most one token/character between gets (internal protocol)")


def _match(kind, exc, func, stmt, entry):
    for (k, e, f, s, reason, en) in T:
        if k in (kind, "*") and fnmatch.fnmatchcase(exc, e) and fnmatch.fnmatchcase(func, f) and (s == "*" or fnmatch.fnmatchcase(stmt, s) or stmt.startswith(s)) and fnmatch.fnmatchcase(entry, en):
            return reason
    return None


def _known(entry, exc, func):
    for (en, e, f, construct, what) in K:
        if fnmatch.fnmatchcase(entry, en) and fnmatch.fnmatchcase(exc, e) and fnmatch.fnmatchcase(func, f):
            return construct, what
    return None


# call sites whose argument is already a validated enum member on every parse path (one line of reason each)
TRUSTED_SITES = {
    ("dns.rdata.get_rdata_class", "dns.rdataclass.to_text"): "rdclass was produced by RdataClass.make()/from_text() in every caller (dns.rdata.from_text, from_wire_parser); to_text of a member cannot fail its range check",
    ("dns.rdata.get_rdata_class", "dns.rdatatype.to_text"): "rdtype was produced by RdataType.make()/from_text() in every caller",
}


def build(model):
    R = Resolver(model)
    R.hints_field.update(FIELD_HINTS)
    R.hints_param.update(PARAM_HINTS)
    rd = model.cls("dns.rdata.Rdata")
    opt = model.cls("dns.edns.Option")
    msg = model.cls("dns.message.Message")
    dyn = {
        ("dns.rdata.from_wire_parser", "cls.from_wire_parser"): [c.qualname + ".from_wire_parser" for c in model.subclasses(rd) if "from_wire_parser" in c.methods],
        ("dns.rdata.from_text", "cls.from_text"): [c.qualname + ".from_text" for c in model.subclasses(rd) if "from_text" in c.methods],
        ("dns.edns.option_from_wire_parser", "cls.from_wire_parser"): [c.qualname + ".from_wire_parser" for c in model.subclasses(opt) if "from_wire_parser" in c.methods],
        ("dns.message._WireReader.read", "factory"): [c.qualname + ".__init__" for c in [msg] + model.subclasses(msg) if "__init__" in c.methods],
        ("dns.message._TextReader._make_message", "factory"): [c.qualname + ".__init__" for c in [msg] + model.subclasses(msg) if "__init__" in c.methods],
    }
    E = Escape(model, R, ZONE, dyn)
    E.guard = make_guard(model)

    def _api_arg_normalisation(f, call):
        """`<Enum>.make(p)` with p a parameter of the enclosing function normalises an argument the CALLER of the API supplied (rdclass=, rdtype=, ...):
        what it raises for a bad argument is the documented API contract, not the outcome of parsing untrusted input."""
        if (f.qualname, src(call.func)) in TRUSTED_SITES:
            return True
        return isinstance(call.func, ast.Attribute) and call.func.attr == "make" and len(call.args) == 1 and not call.keywords \
            and isinstance(call.args[0], ast.Name) and call.args[0].id in f.params()
    E.trusted_call = _api_arg_normalisation
    return R, E


def check_parser_reads(model, rep, rule):
    """Parser reads are bounded and exact (shared with C14: the 48-bit TSIG time is read through get_uint48)."""
    P = "dns.wirebase.Parser"
    gb = model.func(f"{P}.get_bytes")
    cfg = CFG(gb.node, implicit_exc=False)
    tests = [n for n in cfg.nodes if n.kind == "test" and atoms(normalise_compare(n.ast.test)) == [("size", ">", "self.remaining()")]]
    sl = [n for n in cfg.nodes if n.ast is not None and n.kind == "stmt" and "self.wire[self.current:self.current + size]" in src(n.ast)]
    okk = len(tests) == 1 and len(sl) == 1 and cfg.edge_dominated(sl[0].id, {(tests[0].id, "f")}) and any(isinstance(s, ast.Raise) and "FormError" in src(s) for s in tests[0].ast.body)
    rep.check(okk, rule, gb.qualname, where(gb, gb.node), "the slice is taken only when size <= remaining(), else FormError", "Parser.get_bytes can slice past the end (short reads become struct.error/IndexError further on)", stmt="bounded-slice")
    # the generator context managers of the parser restore what they changed on EVERY exit (the body of a `with` raises for every malformed rdata)
    n_cm = 0
    for mn, fcm in sorted(model.cls(P).methods.items()):
        if not any(dotted(d if not isinstance(d, ast.Call) else d.func) in ("contextlib.contextmanager", "contextmanager") for d in fcm.node.decorator_list):
            continue
        ylds = [y for y in ast.walk(fcm.node) if isinstance(y, (ast.Yield, ast.YieldFrom))]
        if len(ylds) != 1:
            rep.blind(rule, fcm.qualname, where(fcm, fcm.node), f"{len(ylds)} yields in a context manager", stmt="cm-restores")
            continue
        n_cm += 1
        par_cm = {id(ch): pr for pr in ast.walk(fcm.node) for ch in ast.iter_child_nodes(pr)}
        enclosing, cur = [], par_cm.get(id(ylds[0]))
        child = ylds[0]
        while cur is not None:
            if isinstance(cur, ast.Try) and any(child is b or child in list(ast.walk(b)) for b in cur.body):
                enclosing.append(cur)
            child, cur = cur, par_cm.get(id(cur))
        restored = {src(t_) for tr in enclosing for fs in tr.finalbody for x in ast.walk(fs) if isinstance(x, ast.Assign) for t_ in x.targets if isinstance(t_, ast.Attribute) and src(t_.value) == "self"}
        yline = ylds[0].lineno
        changed = {src(t_) for x in ast.walk(fcm.node) if isinstance(x, (ast.Assign, ast.AugAssign)) and x.lineno < yline
                   for t_ in (x.targets if isinstance(x, ast.Assign) else [x.target]) if isinstance(t_, ast.Attribute) and src(t_.value) == "self"}
        rep.check(bool(restored) and changed <= restored, rule, fcm.qualname, where(fcm, ylds[0]), f"{sorted(restored)} restored in a `finally` around the yield",
                  (f"{sorted(changed - restored) or 'parser state'} set for the body of the `with` is not restored in a `finally` that covers the yield: when the body raises (a malformed rdata under continue_on_error) the parser "
                   "stays restricted / misplaced and every later name or record of the buffer fails to decode"), stmt="cm-restores")
    rep.floor(rule + "-context-managers", n_cm, 2)
    import struct as _st
    for name, fmt, n in (("get_uint8", "!B", 1), ("get_uint16", "!H", 2), ("get_uint32", "!I", 4)):
        f = model.func(f"{P}.{name}")
        t = " ".join(src(f.node).split())
        rep.check(f"struct.unpack('{fmt}', self.get_bytes({n}))[0]" in t and _st.calcsize(fmt) == n, rule, f.qualname, where(f, f.node), f"unpacks '{fmt}' from exactly {n} octets",
                  f"{name} unpacks a format whose size is not the number of octets read", stmt="exact-size")
    f = model.func(f"{P}.get_uint48")
    whole = "int.from_bytes(self.get_bytes(6), 'big')" in src(f.node)
    split = pat.has_expr(f.node, "struct.unpack('!HI', self.get_bytes(6))") and (pat.has_expr(f.node, "(__h << 32) | __l") or pat.has_expr(f.node, "__l | (__h << 32)") or pat.has_expr(f.node, "(__h << 32) + __l"))
    rep.check(whole or bool(split), rule, f.qualname, where(f, f.node), "48-bit big-endian from exactly 6 octets",
              "get_uint48 does not assemble a 48-bit big-endian integer from exactly 6 octets (e.g. the high 16 bits shifted by 16 instead of 32): TSIG times at or above 2**32 are misread, "
              "so a genuine message is rejected with BadTime", stmt="exact-size")
    f = model.func(f"{P}.get_struct")
    rep.check("struct.unpack(format, self.get_bytes(struct.calcsize(format)))" in src(f.node), rule, f.qualname, where(f, f.node), "unpacks from exactly calcsize(format) octets", "get_struct reads a different number of octets than the format needs", stmt="exact-size")
    f = model.func(f"{P}.get_counted_bytes")
    t = " ".join(src(f.node).split())
    rep.check("length = int.from_bytes(self.get_bytes(length_size), 'big')" in t and "return self.get_bytes(length)" in t, rule, f.qualname, where(f, f.node), "counted bytes go through the bounded get_bytes", "get_counted_bytes bypasses get_bytes", stmt="counted")
    # a Parser starts inside its buffer: __init__ positions through the bounded seek(), never by storing the caller's offset directly
    pi = model.func(f"{P}.__init__")
    direct = [x for x in ast.walk(pi.node) if isinstance(x, ast.Assign) and any(src(t_) == "self.current" for t_ in x.targets) and isinstance(x.value, ast.Name) and x.value.id in pi.params()]
    seeks = [c for c in ast.walk(pi.node) if isinstance(c, ast.Call) and src(c.func) == "self.seek"]
    rep.check(not direct and bool(seeks), rule, pi.qualname, where(pi, direct[0] if direct else pi.node), "the start offset goes through seek() (bounds-checked)",
              "Parser.__init__ stores the caller's start offset without the bounds check of seek(): a negative offset reads from the tail of the buffer (names are 'decoded' from unrelated octets) or raises "
              "struct.error instead of FormError", stmt="init-seeks")
    # a Parser is built over the WHOLE message (compression pointers are message offsets), never over a slice of it
    n_pc = 0
    for g in model.all_functions():
        for c in ast.walk(g.node):
            if isinstance(c, ast.Call) and src(c.func).split(".")[-1] == "Parser" and "wire" in src(c.func).lower() + "wire" and c.args and (dotted(c.func) or "").endswith(("wire.Parser", "wirebase.Parser")):
                n_pc += 1
                rep.check(not isinstance(c.args[0], ast.Subscript), rule, g.qualname, where(g, c), f"`{src(c)[:50]}` parses in the whole buffer",
                          f"`{src(c)[:70]}` builds the parser over a slice: compression pointers inside the data are offsets into the whole message, so they resolve to the wrong octets (BadPointer, or silently "
                          "another name)", stmt=f"parser-whole-buffer {g.name}")
    # who touches Parser.wire directly
    for g in model.all_functions():
        if g.cls is not None and g.cls.qualname == P:
            continue
        for n in ast.walk(g.node):
            if isinstance(n, ast.Subscript) and isinstance(n.value, ast.Attribute) and n.value.attr == "wire" and "parser" in src(n.value.value):
                rep.bad(rule, g.qualname, where(g, n), f"`{src(n)[:40]}` slices the parser's buffer directly, bypassing the bounds checks", stmt="direct-slice")


def check_wrappers(model, rep, rule):
    """The two ExceptionWrapper sites and the wrapper itself (shared with C02: a malformed RDATA must surface as FormError)."""
    sites = []
    for f in model.all_functions():
        for n in ast.walk(f.node):
            if isinstance(n, (ast.With,)):
                for i in n.items:
                    ce = i.context_expr
                    if isinstance(ce, ast.Call) and (dotted(ce.func) or "").endswith("ExceptionWrapper"):
                        sites.append((f, n, ce))
    rep.floor(rule, len(sites), 2)
    want = {"dns.rdata.from_text": ("dns.exception.SyntaxError", "cls.from_text"), "dns.rdata.from_wire_parser": ("dns.exception.FormError", "cls.from_wire_parser")}
    for fq, (cls_, call) in want.items():
        f = model.func(fq)
        mine = [(w, ce) for (g, w, ce) in sites if g.qualname == fq]
        okk = False
        if mine:
            w, ce = mine[0]
            okk = src(ce.args[0]) == cls_ and any(isinstance(c, ast.Call) and src(c.func) == call for c in ast.walk(w))
            # no per-type call outside the wrapper
            outside = [c for c in ast.walk(f.node) if isinstance(c, ast.Call) and src(c.func) in (call, "GenericRdata.from_text", "cls.from_text") and not any(c is x for x in ast.walk(w))]
            okk = okk and not outside
        rep.check(okk, rule, fq, where(f, f.node), f"the per-type call {call} runs inside `with ExceptionWrapper({cls_})`",
                  f"{call} is not (entirely) inside `with dns.exception.ExceptionWrapper({cls_})`: any exception of a record type's parser escapes unconverted", stmt="wrapper-site")
    ew = model.func("dns.exception.ExceptionWrapper.__exit__")
    t = " ".join(src(ew.node).split())
    okk = "if exc_type is not None and (not isinstance(exc_val, self.exception_class)): raise self.exception_class(str(exc_val)) from exc_val return False" in t
    rep.check(okk, rule, ew.qualname, where(ew, ew.node), "__exit__ re-raises every foreign exception as exception_class(str(exc_val)) and swallows nothing",
              "ExceptionWrapper.__exit__ no longer converts every foreign exception (or swallows)", stmt="wrapper-exit")


def run(model, rep, tier):
    R, E = build(model)
    H = E.h
    FORM, SYN = "dns.exception.FormError", "dns.exception.SyntaxError"
    groups = {}
    n_entry = 0
    for kind, ents in (("wire", WIRE), ("text", TEXT)):
        for ent in ents:
            f = model.func(ent)
            n_entry += 1
            r = E.raises(f)
            for (exc, ofunc, oline), o in r.items():
                groups.setdefault((kind, exc, ofunc, o.stmt, o.kind), []).append((ent, o))
    rep.meta["entries"] = n_entry
    rep.meta["functions_summarised"] = len(E.summ)
    n_lib = 0
    emitted_known = set()
    for (kind, exc, ofunc, st, okind), hits in sorted(groups.items()):
        rule = "R-04.1" if kind == "wire" else "R-04.2"
        fam = FORM if kind == "wire" else SYN
        ents = sorted({e for (e, _o) in hits})
        o = hits[0][1]
        key_stmt = f"{exc} <- {st}"
        wh = o.where(model)
        via = " > ".join(v.split(".")[-1] for v in o.via[:7])
        detail = f"[{kind}] {exc} from `{st}` escapes {', '.join(e.replace('dns.', '') for e in ents)}" + (f" (via {via})" if via else "")
        if okind.startswith("wrapped:"):
            rep.ok(rule, ofunc, wh, f"{okind[8:]} converted to {exc} by ExceptionWrapper", stmt=f"{exc} <- wrapped {okind[8:]} {st}", nontrivial=False)
            n_lib += 1
            continue
        if H.is_sub(exc, fam):
            rep.ok(rule, ofunc, wh, f"{exc} is in the {fam.split('.')[-1]} family", stmt=key_stmt)
            n_lib += 1
            continue
        if kind == "wire" and any(fnmatch.fnmatchcase(exc, p) for p in WIRE_DOCUMENTED):
            rep.ok(rule, ofunc, wh, f"{exc}: documented TSIG validation outcome", stmt=key_stmt)
            continue
        if kind == "wire" and exc == "dns.message.Truncated" and ofunc == "dns.message.from_wire":
            rep.ok(rule, ofunc, wh, "Truncated: the requested truncation signal", stmt=key_stmt)
            continue
        if kind == "text" and set(ents) <= ZONE_ENTRIES | {"dns.zone.from_text"}:
            if any(fnmatch.fnmatchcase(exc, p) for p in TEXT_ZONE_DOCUMENTED):
                rep.ok(rule, ofunc, wh, f"{exc}: documented zone check", stmt=key_stmt)
                continue
            if exc in ("ValueError", "KeyError") and okind == "raise" and ofunc.startswith(("dns.transaction.", "dns.zone.")):
                rep.ok(rule, ofunc, wh, f"{exc}: documented zone-semantic error raised explicitly by {ofunc.rsplit('.', 1)[0]}", stmt=key_stmt)
                continue
        bad_entries, reasons, knowns = [], set(), {}
        for e in ents:
            r1 = _match(kind, exc, ofunc, st, e)
            if r1:
                reasons.add(r1)
                continue
            kn = _known(e, exc, ofunc)
            if kn:
                knowns.setdefault(kn, []).append(e)
                continue
            bad_entries.append(e)
        for (construct, what), es in knowns.items():
            cst = f"{exc} escapes: {what}"
            if (construct, cst) not in emitted_known:
                emitted_known.add((construct, cst))
                rep.bad(rule, construct, wh, f"[{kind}] {exc} escapes {', '.join(x.replace('dns.', '') for x in es)}: {what} (e.g. `{st}` in {ofunc})", stmt=cst)
        if bad_entries:
            rep.bad(rule, ofunc, wh, f"[{kind}] {exc} from `{st}` escapes {', '.join(e.replace('dns.', '') for e in bad_entries)}" + (f" (via {via})" if via else ""), stmt=key_stmt)
        elif reasons:
            rep.excepted(rule, ofunc, wh, f"{exc} from `{st}`: {'; '.join(sorted(reasons))}", stmt=key_stmt)
    rep.floor("R-04-library-raises", n_lib, 40)
    # call sites the analysis could not follow inside the zone
    seen = set()
    for (fq, line, text) in E.unresolved:
        if model.functions[fq].module.name not in ZONE or (fq, text) in seen:
            continue
        seen.add((fq, text))
        if (fq, text) in UNRESOLVED_OK:
            rep.excepted("R-04.1", fq, f"{model.functions[fq].file}:{line}", f"call `{text}` not followed: {UNRESOLVED_OK[(fq, text)]}", stmt=f"unresolved {text}")
        else:
            rep.blind("R-04.1", fq, f"{model.functions[fq].file}:{line}", f"call `{text}` on a parse path cannot be resolved: its exceptions are unknown", stmt=f"unresolved {text}")
    for (fq, line, text, n) in E.cha_sites:
        if model.functions[fq].module.name not in ZONE or (fq, text) in seen:
            continue
        seen.add((fq, text))
        if (fq, text) in CHA_OK:
            rep.excepted("R-04.1", fq, f"{model.functions[fq].file}:{line}", f"call `{text}` resolved by method name only ({n} candidates): {CHA_OK[(fq, text)]}", stmt=f"cha {text}")
        elif n <= 3:
            rep.ok("R-04.1", fq, f"{model.functions[fq].file}:{line}", f"call `{text}` resolved by method name ({n} candidates, all followed)", stmt=f"cha {text}", nontrivial=False)
        else:
            rep.blind("R-04.1", fq, f"{model.functions[fq].file}:{line}", f"receiver of `{text}` is untyped and {n} methods share the name: add a type hint to the checker", stmt=f"cha {text}")

    # ---------------------------------------------------------------- R-04.3
    check_wrappers(model, rep, "R-04.3")

    # ---------------------------------------------------------------- R-04.4
    wire_classes = ["dns.name.BadPointer", "dns.name.BadLabelType", "dns.name.NameTooLong", "dns.message.ShortHeader", "dns.message.TrailingJunk", "dns.message.BadEDNS", "dns.message.BadTSIG",
                    "dns.query.BadResponse", "dns.xfr.SerialWentBackwards"]
    text_classes = ["dns.name.BadEscape", "dns.name.EmptyLabel", "dns.name.LabelTooLong", "dns.ttl.BadTTL", "dns.exception.UnexpectedEnd", "dns.message.NoPreviousName"]
    for q in wire_classes:
        ci = model.cls(q)
        rep.check(model.is_subclass(ci, FORM), "R-04.4", q, f"{ci.file}:{ci.node.lineno}", "derives from FormError", f"{q} no longer derives from dns.exception.FormError: wire parsing raises outside the format-error family", stmt="base")
    for q in text_classes:
        ci = model.cls(q)
        rep.check(model.is_subclass(ci, SYN), "R-04.4", q, f"{ci.file}:{ci.node.lineno}", "derives from dns.exception.SyntaxError", f"{q} no longer derives from dns.exception.SyntaxError", stmt="base")
    for q in (FORM, SYN):
        ci = model.cls(q)
        rep.check(model.is_subclass(ci, "dns.exception.DNSException"), "R-04.4", q, f"{ci.file}:{ci.node.lineno}", "derives from DNSException", f"{q} left the DNSException hierarchy", stmt="base")

    # ---------------------------------------------------------------- R-04.5
    check_parser_reads(model, rep, "R-04.5")

    # ---------------------------------------------------------------- R-04.6
    CONSUMERS = ("get_uint8", "get_uint16", "get_uint32", "get_uint48", "get_bytes", "get_struct", "get_name", "get_counted_bytes", "get_remaining", "_get_char", "get", "get_eol", "get_eol_as_token",
                 "get_string", "get_int", "get_identifier", "readline", "read", "from_wire_parser", "option_from_wire_parser", "popleft", "pop", "skip_whitespace", "parent")
    n_loops = 0
    n_seeks = 0
    reach = set()
    for key in E.summ:
        reach.add(key.split("@")[0].split("#")[0])
    for fq in sorted(reach):
        f = model.functions.get(fq)
        if f is None or f.module.name not in ZONE | {"dns.rdtypes.util", "dns.rdtypes.svcbbase", "dns.rdtypes.txtbase", "dns.rdtypes.ANY.OPT", "dns.rdtypes.ANY.HIP", "dns.rdtypes.IN.APL", "dns.rdtypes.ANY.LOC"}:
            continue
        loops = [n for n in walk_no_nested(f.node) if isinstance(n, ast.While)]
        if not loops:
            continue
        cfg = CFG(f.node, implicit_exc=False)
        for lp in loops:
            n_loops += 1
            head = cfg.node_for(lp)
            progress = []
            for n in cfg.stmts():
                ok_here = False
                for e in own_nodes(n.ast):
                    if isinstance(e, ast.Call) and isinstance(e.func, ast.Attribute) and e.func.attr in CONSUMERS:
                        ok_here = True
                # strictly monotone counters compared in the loop test
                if isinstance(n.ast, ast.AugAssign) and isinstance(n.ast.op, (ast.Add, ast.Sub, ast.RShift, ast.FloorDiv)) and isinstance(n.ast.target, ast.Name) and n.ast.target.id in {x.id for x in ast.walk(lp.test) if isinstance(x, ast.Name)}:
                    ok_here = True
                if isinstance(n.ast, ast.Assign) and any(isinstance(t, ast.Name) and t.id in {x.id for x in ast.walk(lp.test) if isinstance(x, ast.Name)} for t in n.ast.targets):
                    ok_here = True
                if ok_here:
                    progress.append(n.id)
            starts = [y for (y, k) in cfg.succ[head.id] if k == "t" and y not in progress]
            r = cfg.reachable(starts, blocked=progress)
            rep.check(head.id not in r, "R-04.6", fq, where(f, lp), f"every trip round `while {src(lp.test)[:40]}` consumes input or advances its counter",
                      f"`while {src(lp.test)[:40]}` can iterate without consuming input or changing its condition: a crafted input makes parsing hang", stmt=stmt_key(lp))
            # a rewinding seek inside the loop undoes consumption: it needs its own strictly decreasing bound
            for (sn, sc) in [(n, c) for (n, c) in calls_with_nodes(cfg) if isinstance(c.func, ast.Attribute) and c.func.attr == "seek" and "parser" in src(c.func.value) and c.args
                             and any(x is c for st_ in lp.body for x in ast.walk(st_))]:
                n_seeks += 1
                tgt = src(sc.args[0])
                bounds = []
                for t_ in cfg.nodes:
                    if t_.kind == "test" and isinstance(t_.ast, ast.If):
                        at = atoms(normalise_compare(t_.ast.test))
                        if len(at) == 1 and at[0][0] == tgt and at[0][1] == ">=" and at[0][2].isidentifier() and any(isinstance(b_, ast.Raise) for b_ in t_.ast.body):
                            bounds.append((t_, at[0][2]))
                okk = False
                why = f"parser.seek({tgt}) inside `while {src(lp.test)[:30]}` is not preceded by `if {tgt} >= <bound>: raise`"
                for (t_, bname) in bounds:
                    if not cfg.edge_dominated(sn.id, {(t_.id, "f")}):
                        continue
                    upd = [m.id for m in cfg.nodes if isinstance(m.ast, ast.Assign) and " ".join(src(m.ast).split()) == f"{bname} = {tgt}"]
                    r2 = cfg.reachable([sn.id], blocked=upd)
                    if upd and (cfg.dominated_by_set(sn.id, upd) or head.id not in r2):
                        okk = True
                        why = f"seek target `{tgt}` must be below `{bname}`, which is lowered to it on every trip: the rewind measure strictly decreases"
                    else:
                        why = f"the bound `{bname}` that the rewinding parser.seek({tgt}) is tested against is not lowered to `{tgt}` before the next trip: a pointer cycle makes the loop run forever"
                rep.check(okk, "R-04.6", fq, where(f, sc), why, why, stmt="rewind-bound")
    from rules.common import token_loops_end_at_eof
    token_loops_end_at_eof(model, rep, "R-04.6")
    rep.floor("R-04.6", n_loops, 12)
    rep.floor("R-04.6-rewinds", n_seeks, 1)

    # ---------------------------------------------------------------- R-04.7
    wr = model.cls("dns.message._WireReader")
    for mname in ("_get_section", "read"):
        f = wr.methods[mname]
        hs = [h for h in ast.walk(f.node) if isinstance(h, ast.ExceptHandler) and h.type is not None and src(h.type) == "Exception"]
        rep.check(len(hs) == 1, "R-04.7", f.qualname, where(f, f.node), "one catch-all handler", f"{len(hs)} catch-all handlers", stmt="handler-count")
        for h in hs:
            t = " ".join(src(h).split())
            want = "if self.continue_on_error: self._add_error(e)" + (" self.parser.seek(rdata_start + rdlen)" if mname == "_get_section" else "") + " else: raise"
            rep.check(t.endswith(want), "R-04.7", f.qualname, where(f, h), "on error: record it (and resynchronise to the next RR) when continue_on_error, otherwise re-raise",
                      "the catch-all handler no longer (records + resynchronises when continue_on_error, else re-raises): errors are swallowed or parsing continues at the wrong offset", stmt="handler-shape")
    # everything after the header is parsed inside the try whose handler records the error (continue_on_error)
    rdf = model.func("dns.message._WireReader.read")
    tries = [t_ for t_ in ast.walk(rdf.node) if isinstance(t_, ast.Try) and any("_add_error" in src(h_) for h_ in t_.handlers)]
    sect_calls = [c for c in ast.walk(rdf.node) if isinstance(c, ast.Call) and src(c.func) in ("self._get_question", "self._get_section")]
    rep.floor("R-04.7-section-calls", len(sect_calls), 4)
    for c in sect_calls:
        inside = any(any(x is c for s_ in t_.body for x in ast.walk(s_)) for t_ in tries)
        rep.check(inside, "R-04.7", rdf.qualname, where(rdf, c), f"`{src(c)[:50]}` runs inside the try whose handler records the failure",
                  f"`{src(c)[:50]}` runs outside the try that records failures: with continue_on_error a malformed {'question' if 'question' in src(c.func) else 'section'} raises out of from_wire "
                  "instead of being recorded with its offset", stmt="recorded " + src(c)[:40])
    ae = model.func("dns.message._WireReader._add_error")
    rep.check("self.errors.append(MessageError(e, self.parser.current))" in src(ae.node), "R-04.7", ae.qualname, where(ae, ae.node), "errors are recorded with the parser offset", "errors are recorded without the offset", stmt="error-offset")
    fw = model.func("dns.message.from_wire")
    cfg = CFG(fw.node, implicit_exc=False)
    trs = [n for n in cfg.nodes if isinstance(n.ast, ast.Raise) and "Truncated" in src(n.ast)]
    tt = [t for t in cfg.nodes if t.kind == "test" and any(a[0] == "raise_on_truncation" and a[1] == "truthy" for a in atoms(normalise_compare(t.ast.test))) and normalise_compare(t.ast.test)[0] in ("atom", "and")]
    okk = bool(trs) and bool(tt) and all(cfg.edge_dominated(r.id, {(t.id, "t") for t in tt}) for r in trs)
    rep.check(okk, "R-04.7", fw.qualname, where(fw, fw.node), "Truncated is raised only under raise_on_truncation", "Truncated can be raised without raise_on_truncation", stmt="truncated-on-request")
    # a reader that failed before the header was complete has message None: every `reader.message.<attr>` in from_wire's error arm must come after a
    # presence test of reader.message in the same condition (short-circuit) or in a dominating test
    hs_ = [h for h in ast.walk(fw.node) if isinstance(h, ast.ExceptHandler)]
    n_deref = 0
    for h in hs_:
        for tnode in [x for x in ast.walk(h) if isinstance(x, (ast.If, ast.IfExp, ast.While))]:
            test = tnode.test
            operands = test.values if isinstance(test, ast.BoolOp) and isinstance(test.op, ast.And) else [test]
            seen_guard = False
            for opnd in operands:
                derefs = [x for x in ast.walk(opnd) if isinstance(x, ast.Attribute) and src(x.value) == "reader.message"]
                if src(opnd) in ("reader.message", "reader.message is not None"):
                    seen_guard = True
                    continue
                for d in derefs:
                    n_deref += 1
                    rep.check(seen_guard, "R-04.7", fw.qualname, where(fw, d), f"`{src(d)}` is read only after `reader.message` was tested in the same condition",
                              f"`{src(d)}` is evaluated without a preceding test of reader.message: for input shorter than the 12-octet header the reader has no message yet and this raises AttributeError instead of ShortHeader",
                              stmt="message-present " + d.attr)
    rep.floor("R-04.7-derefs", n_deref, 1)
    t = " ".join(src(fw.node).split())
    rep.check("m.errors = reader.errors" in t or "errors" in t, "R-04.7", fw.qualname, where(fw, fw.node), "recorded errors are attached to the returned message", "recorded errors are dropped", stmt="errors-returned")
    from rules.c05 import check_validators
    check_validators(model, rep, "R-04.8")
    rep.assume("AttributeError/TypeError from None-dereference or wrong attribute are outside the implicit-raise table (pyright on the pinned tree reports none in the parse zone)")
    rep.assume("decimal tokens are shorter than sys.get_int_max_str_digits() (4300): int(x) under x.isdecimal() is discharged on that assumption; likewise str.zfill widths fit the interpreter's size type")
    rep.assume("third-party idna / hashlib / hmac behave as documented; user callbacks (callable keyring, GSSAPI context) are outside the analysed program")
    n_ot = 0
    for ft_ in sorted(model.all_functions(), key=lambda g: g.qualname):
        if ft_.module.name != "dns.edns" or ft_.name != "to_text":
            continue
        cft = CFG(ft_.node, implicit_exc=False)
        for (nd, c) in calls_with_nodes(cft):
            if not (isinstance(c.func, ast.Attribute) and c.func.attr == "decode" and isinstance(c.func.value, ast.Attribute) and src(c.func.value.value) == "self"):
                continue
            n_ot += 1
            subj = src(c.func.value)
            gates = set()
            for t in cft.nodes:
                if t.kind == "test" and isinstance(t.ast, ast.If):
                    tt = t.ast.test
                    if isinstance(tt, ast.Call) and src(tt.func) == "all" and tt.args and isinstance(tt.args[0], ast.GeneratorExp) and src(tt.args[0].generators[0].iter) == subj:
                        gates.add((t.id, "t"))
            rep.check(bool(gates) and cft.edge_dominated(nd.id, gates), "R-04.12", ft_.qualname, where(ft_, c), f"`{src(c)}` only when every octet passed the printable test",
                      f"`{src(c)}` decodes raw option octets without an `all(... for c in {subj})` guard on every path (e.g. `any` instead of `all`): an option parsed from the wire makes str(option) / "
                      "Message.to_text() raise UnicodeDecodeError", stmt=f"guarded-decode {subj}")
    rep.floor("R-04.12", n_ot, 1)
    gr = model.func("dns.grange.from_text")
    cgr = CFG(gr.node, implicit_exc=False)
    rets_g = [n for n in cgr.nodes if isinstance(n.ast, ast.Return) and n.ast.value is not None]
    stepv = next((src(r.ast.value.elts[2]) for r in rets_g if isinstance(r.ast.value, ast.Tuple) and len(r.ast.value.elts) == 3), "step")
    ok_edges = set()
    for t in cgr.nodes:
        if isinstance(t.ast, ast.Assert):
            if any(a[0] == stepv and ((a[1] == ">=" and a[2] == "1") or (a[1] == ">" and a[2] == "0")) for a in atoms(normalise_compare(t.ast.test))):
                ok_edges.add(t.id)
        elif t.kind == "test" and isinstance(t.ast, ast.If) and t.ast.body and isinstance(t.ast.body[-1], ast.Raise) and normalise_compare(t.ast.test)[0] in ("atom", "or"):
            if any(a[0] == stepv and ((a[1] == "<" and a[2] == "1") or (a[1] == "<=" and a[2] == "0")) for a in atoms(normalise_compare(t.ast.test))):
                ok_edges.add(t.id)
    rep.check(bool(rets_g) and bool(ok_edges) and all(cgr.dominated_by_set(r.id, ok_edges) for r in rets_g), "R-04.12", gr.qualname, where(gr, rets_g[0].ast if rets_g else gr.node),
              "every returned step passed `step >= 1`",
              "dns.grange.from_text can return a step below 1: `$GENERATE 1-5/0 ...` reaches range(start, stop + 1, 0) in the zone reader, outside its SyntaxError wrapper - a bare ValueError without file:line", stmt="grange-step")
    n_dec = 0
    for fd in sorted(model.all_functions(), key=lambda g: g.qualname):
        if fd.name not in ("from_wire_parser", "from_wire") or not (fd.module.name.startswith("dns.rdtypes") or fd.module.name in ("dns.edns", "dns.rdata")):
            continue
        for c in ast.walk(fd.node):
            if isinstance(c, ast.Call) and isinstance(c.func, ast.Attribute) and c.func.attr == "decode" and not (isinstance(c.func.value, ast.Name) and c.func.value.id in ("codecs", "base64", "binascii")):
                n_dec += 1
                handler = c.args[1] if len(c.args) > 1 else next((k.value for k in c.keywords if k.arg == "errors"), None)
                lenient = handler is not None and not (isinstance(handler, ast.Constant) and handler.value == "strict")
                rep.check(not lenient, "R-04.11", fd.qualname, where(fd, c), f"`{src(c)[:40]}` decodes strictly",
                          f"`{src(c)[:60]}` decodes wire octets with a lenient handler: the value is accepted, but the strict encode in to_wire()/__hash__ raises UnicodeEncodeError later, outside the "
                          "FormError wrapper", stmt=f"strict-decode {src(c.func.value)[:30]}")
    rep.floor("R-04.11", n_dec, 3)
    rep.share(model, "C05", {"R-05.1", "R-05.1t", "R-05.11"}, "R-04.10", "every rdata constructor runs inside the FormError wrapper of from_wire; text production of the parsed value does not")
    rep.share(model, "C02", {"R-02.2"}, "R-04.9", "rdata and EDNS options are parsed inside `with parser.restrict_to(rdlen)`; continue_on_error keeps using the same parser after a failure", only=lambda o: o.stmt == "restrict-shape")
    rep.meta["explanation"] = (
        "Interprocedural exception-escape analysis: explicit raises everywhere, a frozen table of implicit raisers (subscripts, int(), struct, encode/decode, assert, next, division) inside the parse zone, "
        "handler-aware with the real class hierarchy, ExceptionWrapper modelled, one level of receiver-class and argument-kind context (isinstance arms are pruned), guard recognisers for the common "
        "dominance idioms; every (exception, origin site) that can leave a parser entry point is classified as library-family / documented / infeasible-with-reason / known finding / violation. "
        "Plus structural rules for the wrappers, the hierarchy, bounded reads, loop progress and continue_on_error. Which library error is raised for which input is NOT decided.")


WITNESSES = [
    {"id": "c04-restrict-to-restores-only-on-success", "rule": "R-04.5", "file": "dns/wirebase.py", "expect": "fires",
     "old": "        try:\n            self.end = self.current + size\n            yield\n", "new": "        self.end = self.current + size\n        yield\n        try:\n"},
    {"id": "c04-restore-furthest-without-finally", "rule": "R-04.5", "file": "dns/wirebase.py", "expect": "fires",
     "old": "        try:\n            yield None\n        finally:\n            self.current = self.furthest", "new": "        yield None\n        self.current = self.furthest"},
    {"id": "c04-twin-restrict-to-assign-before-try", "rule": "R-04.5", "file": "dns/wirebase.py", "expect": "silent",
     "old": "        saved_end = self.end\n        try:\n            self.end = self.current + size\n            yield\n", "new": "        saved_end = self.end\n        self.end = self.current + size\n        try:\n            yield\n"},
    {"id": "c04-nsid-to-text-any-printable", "rule": "R-04.12", "file": "dns/edns.py", "expect": "fires",
     "old": "        if all(c >= 0x20 and c <= 0x7E for c in self.nsid):", "new": "        if any(c >= 0x20 and c <= 0x7E for c in self.nsid):"},
    {"id": "c04-grange-step-zero", "rule": "R-04.12", "file": "dns/grange.py", "expect": "fires",
     "old": "    assert step >= 1\n    assert start >= 0\n", "new": "    if start < 0 or step < 0:\n        raise dns.exception.SyntaxError(\"bad range\")\n"},
    {"id": "c04-rdata-from-wire-parses-a-slice", "rule": "R-04.5", "file": "dns/rdata.py", "expect": "fires",
     "old": "    parser = dns.wire.Parser(wire, current)\n    with parser.restrict_to(rdlen):", "new": "    parser = dns.wire.Parser(wire[current : current + rdlen])\n    with parser.restrict_to(rdlen):"},
    {"id": "c04-parser-init-stores-offset", "rule": "R-04.5", "file": "dns/wirebase.py", "expect": "fires",
     "old": "        self.current = 0\n        self.end = len(self.wire)\n        if current:\n            self.seek(current)", "new": "        self.current = current\n        self.end = len(self.wire)"},
    {"id": "c04-ede-decodes-with-surrogateescape", "rule": "R-04.11", "file": "dns/edns.py", "expect": "fires",
     "old": "            btext = text.decode(\"utf8\")", "new": "            btext = text.decode(\"utf8\", \"surrogateescape\")"},
    {"id": "c04-question-outside-recording-try", "rule": "R-04.7", "file": "dns/message.py", "expect": "fires",
     "old": "        try:\n            self._get_question(MessageSection.QUESTION, qcount)\n            if self.question_only:\n                return self.message\n",
     "new": "        self._get_question(MessageSection.QUESTION, qcount)\n        if self.question_only:\n            return self.message\n        try:\n"},
    {"id": "c04-eat-line-spins-at-eof", "rule": "R-04.6", "file": "dns/zonefile.py", "expect": "fires",
     "old": "            token = self.tok.get()\n            if token.is_eol_or_eof():\n                break", "new": "            token = self.tok.get()\n            if token.is_eol():\n                break"},
    {"id": "c04-truncation-arm-derefs-none", "rule": "R-04.7", "file": "dns/message.py", "expect": "fires",
     "old": "        if (\n            reader.message\n            and (reader.message.flags & dns.flags.TC)\n            and raise_on_truncation\n        ):", "new": "        if raise_on_truncation and (reader.message.flags & dns.flags.TC):"},
    {"id": "c04-twin-truncation-arm-reordered", "rule": "R-04.7", "file": "dns/message.py", "expect": "silent",
     "old": "        if (\n            reader.message\n            and (reader.message.flags & dns.flags.TC)\n            and raise_on_truncation\n        ):", "new": "        if raise_on_truncation and reader.message and (reader.message.flags & dns.flags.TC):"},
    {"id": "c04-wire-wrapper-removed", "rule": "R-04.3", "file": "dns/rdata.py", "expect": "fires",
     "old": "    with dns.exception.ExceptionWrapper(dns.exception.FormError):\n        return cls.from_wire_parser(rdclass, rdtype, parser, origin)", "new": "    return cls.from_wire_parser(rdclass, rdtype, parser, origin)"},
    {"id": "c04-badpointer-rebased", "rule": "R-04.4", "file": "dns/name.py", "expect": "fires",
     "old": "class BadPointer(dns.exception.FormError):", "new": "class BadPointer(dns.exception.DNSException):"},
    {"id": "c04-new-token-index", "rule": "R-04.2", "file": "dns/zonefile.py", "expect": "fires",
     "old": "                elif token.value.startswith(\"$\") and len(self.allowed_directives) > 0:", "new": "                elif token.value[0] == \"$\" and len(self.allowed_directives) > 0:"},
    {"id": "c04-valueerror-on-wire", "rule": "R-04.1", "file": "dns/message.py", "expect": "fires",
     "old": "        if self.parser.remaining() < 12:\n            raise ShortHeader", "new": "        if self.parser.remaining() < 12:\n            raise ValueError(\"short\")"},
    {"id": "c04-get-bytes-unbounded", "rule": "R-04.5", "file": "dns/wirebase.py", "expect": "fires",
     "old": "        if size > self.remaining():\n            raise dns.exception.FormError\n        output = self.wire", "new": "        output = self.wire"},
    {"id": "c04-ddd-unchecked", "rule": "R-04.2", "file": "dns/name.py", "expect": "fires",
     "old": "                        if total > 255:\n                            raise BadEscape\n", "new": ""},
    {"id": "c04-nonconsuming-loop", "rule": "R-04.6", "file": "dns/rdtypes/txtbase.py", "expect": "fires",
     "old": "        while parser.remaining() > 0:\n            s = parser.get_counted_bytes()\n            strings.append(s)", "new": "        while parser.remaining() > 0:\n            s = b\"\"\n            strings.append(s)"},
    {"id": "c04-continue-on-error-swallows", "rule": "R-04.7", "file": "dns/message.py", "expect": "fires",
     "old": "                if self.continue_on_error:\n                    self._add_error(e)\n                    self.parser.seek(rdata_start + rdlen)\n                else:\n                    raise", "new": "                if self.continue_on_error:\n                    self._add_error(e)\n                else:\n                    raise"},
    {"id": "c04-trailingjunk-rebased", "rule": "R-04.4", "file": "dns/message.py", "expect": "fires",
     "old": "class TrailingJunk(dns.exception.FormError):", "new": "class TrailingJunk(dns.exception.DNSException):"},
    {"id": "c04-ttl-int-unguarded", "rule": "R-04.2", "file": "dns/ttl.py", "expect": "fires",
     "old": "    if text.isdecimal():\n        total = int(text)", "new": "    if text[:1].isdecimal():\n        total = int(text)"},
    {"id": "c04-twin-shortheader-le", "rule": "R-04.1", "file": "dns/message.py", "expect": "silent",
     "old": "        if self.parser.remaining() < 12:\n            raise ShortHeader", "new": "        if not self.parser.remaining() >= 12:\n            raise ShortHeader"},
]
