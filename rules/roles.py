"""Role patterns shared by several rule modules: each names the locals of one repository function by the shape of the statement
that defines them (engine.pat.canon), so that rules speak of roles ("rr_start", "force_unique") and not of spellings."""

GET_SECTION = [
    "__section = self.message.sections[section_number]",
    "__force_unique = self.one_rr_per_rrset",
    "for __i in range(count):\n    __rr_start = self.parser.current\n    __absolute_name = self.parser.get_name()\n    ...",
    "__name = __absolute_name.relativize(self.message.origin)",
    "(__rdtype, __rdclass, __ttl, __rdlen) = self.parser.get_struct('!HHIH')",
    "(__rdclass, __rdtype, __deleting, __empty) = self.message._parse_rr_header(...)",
    "__rdata_start = self.parser.current",
    "__rd = dns.rdata.from_wire_parser(...)",
    "__covers = __rd.covers()",
    "__trd = cast(dns.rdtypes.ANY.TSIG.TSIG, __rd)",
    "__key = self.keyring.get(__absolute_name)",
    "__rrset = self.message.find_rrset(...)",
]

MESSAGE_TO_WIRE = [
    "__r = dns.renderer.Renderer(...)",
    "__opt_reserve = self._compute_opt_reserve()",
    "__tsig_reserve = self._compute_tsig_reserve()",
    "__wire = __r.get_wire()",
]

INBOUND_XFR = [
    "__rdtype = query.question[0].rdtype",
    "__is_ixfr = __rdtype == dns.rdatatype.IXFR",
    "__origin = txn_manager.from_wire_origin()",
    "__wire = query.to_wire()",
    "with dns.xfr.Inbound(txn_manager, __rdtype, serial, __is_udp) as __inbound:\n    __done = False\n    __tsig_ctx = None\n    ...",
    "__r = dns.message.from_wire(...)",
]
