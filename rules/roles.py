"""Role patterns shared by several rule modules: each names the locals of one repository function by the shape of the statement
that defines them (engine.pat.canon), so that rules speak of roles ("rr_start", "force_unique") and not of spellings."""

GET_SECTION = [
    "__section = self.message.sections[section_number]",
    "__force_unique = self.one_rr_per_rrset",
    "for __i in range(count):\n    __rr_start = self.parser.current\n    __absolute_name = self.parser.get_name()\n    ...",
    "__name = __absolute_name.relativize(self.message.origin)",
    "(__rdtype, __rdclass, __ttl, __rdlen) = self.parser.get_struct('!HHIH')",
    "(__rdclass, __rdtype, __deleting, __empty) = self.message._parse_rr_header(...)",
    "__rdata_start = self.parser.current",
    "__rd = dns.rdata.from_wire_parser(...)",
    "__covers = __rd.covers()",
    "__trd = cast(dns.rdtypes.ANY.TSIG.TSIG, __rd)",
    "__key = self.keyring.get(__absolute_name)",
    "__rrset = self.message.find_rrset(...)",
]

MESSAGE_TO_WIRE = [
    "__r = dns.renderer.Renderer(...)",
    "__opt_reserve = self._compute_opt_reserve()",
    "__tsig_reserve = self._compute_tsig_reserve()",
    "__wire = __r.get_wire()",
]

INBOUND_XFR = [
    "__rdtype = query.question[0].rdtype",
    "__is_ixfr = __rdtype == dns.rdatatype.IXFR",
    "__origin = txn_manager.from_wire_origin()",
    "__wire = query.to_wire()",
    "with dns.xfr.Inbound(txn_manager, __rdtype, serial, __is_udp) as __inbound:\n    __done = False\n    __tsig_ctx = None\n    ...",
    "__r = dns.message.from_wire(...)",
]


# Applied by engine.model.Model to the functions themselves (in place), so every rule sees role names whichever way it reaches the function.
ROLES = {
    "dns.message._WireReader._get_section": GET_SECTION,
    "dns.message.Message.to_wire": MESSAGE_TO_WIRE,
    "dns.query._inbound_xfr": INBOUND_XFR,
    "dns.asyncquery._inbound_xfr": INBOUND_XFR,
    "dns.rdata.get_rdata_class": [
        "__cls = _rdata_classes.get((rdclass, rdtype))", "__rdclass_text = dns.rdataclass.to_text(rdclass)", "__rdtype_text = dns.rdatatype.to_text(rdtype)",
        "__mod = import_module(...)"],
    "dns.rdtypes.ANY.AMTRELAY.AMTRELAY._to_wire": ["__relay_type = self.relay_type | ..."],
    "dns.rdtypes.ANY.AMTRELAY.AMTRELAY.from_wire_parser": ["(__precedence, __relay_type) = parser.get_struct('!BB')"],
    "dns.rdtypes.IN.APL.APL.from_wire_parser": ["__header = parser.get_struct('!HBB')\n__afdlen = __header[2]"],
    "dns.rdtypes.IN.APL.APLItem.to_wire": ["__address = __address[0:__last]\n__l = len(__address)", "__header = struct.pack('!HBB', self.family, self.prefix, __l)"],
    "dns.rdtypes.IN.APL.APL._to_wire": ["for __item in self.items:"],
    "dns.rdtypes.svcbbase.SVCBBase.from_wire_parser": ["__pcls = _class_for_key.get(__pkey, GenericParam)"],
    "dns.btree.BTree._check_mutable_and_park": ["for __cursor in self.cursors:"],
    "dns.btree.BTree._delete": ["__cloned = self.root.maybe_cow(self.creator)", "__elt = self.root.delete(...)"],
    "dns.btree.BTree.insert_element": ["__cloned = self.root.maybe_cow(self.creator)", "__old_root = self.root", "__oelt = self.root.insert_nonfull(...)"],
    "dns.btree._Node._get_node": ["(__i, __equal) = self.search_in_node(key)", "__child = self.maybe_cow_child(__i)"],
    "dns.btree._Node.clone": ["__cloned = self.__class__(self.t, creator, self.is_leaf)"],
    "dns.btree._Node.maybe_cow_child": ["__child = self.children[index]\n__cloned = __child.maybe_cow(self.creator)"],
    "dns.btree._Node.split": ["__right = self.__class__(self.t, self.creator, self.is_leaf)", "__middle = self.elts[_MIN(self.t)]"],
    "dns.btree._Node.delete": ["__child = self.maybe_cow_child(...)"],
    "dns.btreezone.Delegations.get_delegation": ["__cursor = self.cursor()", "__prev = __cursor.prev()", "__cut = __prev.key()", "(__reln, __any1, __any2) = name.fullcompare(__cut)", "__is_subdomain = __reln == dns.name.NameRelation.SUBDOMAIN"],
    "dns.btreezone.Delegations.is_glue": ["__cursor = self.cursor()", "(__cut, __is_subdomain) = self.get_delegation(name)"],
    "dns.btreezone.WritableVersion.delete_node": ["__node = self.nodes.get(name)"],
    "dns.btreezone.WritableVersion.put_rdataset": ["(__node, name) = self._maybe_cow_with_name(name)"],
    "dns.btreezone.WritableVersion.update_glue_flag": ["__cursor = self.nodes.cursor()", "__updates = []", "__elt = __cursor.next()", "__ename = __elt.key()", "__node = cast(dns.node.Node, __elt.value())", "__new_node = self.zone.node_factory()"],
    "dns.wirebase.Parser.get_bytes": ["__output = self.wire[self.current:self.current + size]"],
    "dns.wirebase.Parser.restrict_to": ["__saved_end = self.end"],
    "dns.rdata.Rdata.__eq__": ["__our_relative = False\n__their_relative = False", "__our = self.to_digestable()", "__their = other.to_digestable()"],
    "dns.rdata.Rdata._cmp": ["__our = b''\n__their = b''", "__our = self.to_digestable()\n__our_relative = False", "__their = other.to_digestable()\n__their_relative = False"],
    "dns.rdataset.Rdataset.add": ["__covers = rd.covers()"],
    "dns.btreezone.WritableVersion.__init__": ["__version = zone._versions[-1]"],
    "dns.btreezone.WritableVersion.delete_rdataset": ["(__node, name) = self._maybe_cow_with_name(name)"],
    "dns.zone.WritableVersion.delete_rdataset": ["(__node, name) = self._maybe_cow_with_name(name)"],
    "dns.zone.WritableVersion._maybe_cow_with_name": ["__node = self.nodes.get(name)", "__new_node = self.zone.node_factory()"],
    "dns.btreezone.ImmutableVersion.__init__": ["for __name in version.changed:\n    __node = version.nodes.get(__name)\n    ..."],
    "dns.zone.ImmutableVersion.__init__": ["for __name in version.changed:\n    __node = version.nodes.get(__name)\n    ..."],
    "dns.versioned.Zone._get_next_version_id": ["__id = self._versions[-1].id + 1"],
    "dns.versioned.Zone._prune_versions_unlocked": ["__least_kept = self._versions[-1].id", "__least_kept = min((cast(ImmutableVersion, __txn.version).id for __txn in self._readers))"],
    "dns.versioned.Zone.reader": ["__version = self._versions[-1]", "__txn = Transaction(self, False, __version)"],
    "dns.zone.Transaction._end_transaction": ["__factory = self.manager.immutable_version_factory", "__version = __factory(self.version)"],
    "dns.versioned.Zone.writer": ["__event = None", "__event = threading.Event()"],
}
