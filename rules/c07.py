"""C07 value semantics: immutability of records and names, eq/hash/order coherence, Set aliasing guards, Rdataset.add discipline."""
from __future__ import annotations

import ast

from engine.cfg import CFG, normalise_compare, atoms, A
from engine.dataflow import ReachingDefs
from engine.effects import WriteSets
from engine.model import src, stmt_key, dotted, walk_no_nested
from engine import pat
from engine.util import own_nodes, calls_with_nodes, where
from rules.c06 import check_operator_table

RULES = {
    "R-07.12": "an immutable record set stays immutable through the algebra: every copying form that ImmutableRdataset overrides (copy, __copy__, union, intersection, difference, symmetric_difference - all six must be overridden) returns ImmutableRdataset(<the superclass result>); a bare super() result is a plain mutable Rdataset derived from a frozen one",
    "R-07.11": "record-set equality compares the whole identity: Rdataset.__eq__ refuses on every field that Rdataset.match() takes (class, type, covered type) and then compares the members (super().__eq__); RRset.__eq__ adds the owner name and delegates to it - a dropped field makes an `example. CH A` question equal to `example. IN A` (dns.message.is_response compares questions with it)",
    "R-07.10": "the `self is other` shortcuts of dns.set.Set obey the idempotence laws: s|s = s and s&s = s (nothing to do), s-s = s^s = {} (clear), s<=s and s>=s (True); isdisjoint(s, s) is True only for the empty set, so it has no constant shortcut",
    "R-07.1": "Name, every Rdata subclass and their helper value classes carry @dns.immutable.immutable",
    "R-07.2": "every field stored by an immutable class's __init__ has an immutable kind (validator result, tuple/float/int/str/bytes, enum make, constify/Dict, constant, Name) – never a bare unvalidated parameter",
    "R-07.3": "Rdata.__eq__ and __hash__ derive from the same to_digestable image; ordering dunders follow the operator table over _cmp; _cmp is a mirrored three-way comparison of the digestable forms",
    "R-07.4": "Set methods that mutate self.items while iterating the other operand are guarded by `self is other` or iterate a copy",
    "R-07.9": "the copying forms of the set algebra copy the LEFT operand: no method of dns.set.Set rebinds `self` (swapping operands to 'start from the smaller one' changes the result's order, its class - RRset vs Rdataset - and its rdtype/name)",
    "R-07.8": "an immutable wrapper copies what it wraps: dns.immutable.Dict(..., no_copy=True) is used only where the wrapped mapping's owner is retired (the listed site), never by ImmutableRdataset / record classes",
    "R-07.7": "items enter a Set's `items` only through Set.add (the hook Rdataset/RRset override to refuse foreign records, replace singletons and minimise the TTL) or by copying an already-valid set in _clone/__init__; every other growing operation reaches them via self.add / self.union_update",
    "R-07.5": "Rdataset.add: no refusal (raise) is reachable after the first write to self",
    "R-07.6": "singleton replacement and TTL minimisation are wired: clear() under is_singleton before the insert; every merging path passes update_ttl",
}

IMMUTABLE_DECOS = {"dns.immutable.immutable", "dns._immutable_ctx.immutable"}
VALUE_HELPERS = ["dns.rdtypes.IN.APL.APLItem"]
IMMUTABLE_CALLS = {"tuple", "float", "int", "str", "bytes", "frozenset", "bool"}
# fields whose rhs is an attribute of a validated helper object built on the same path
SETATTR_SITES = {
    "dns.name.Name.__setstate__": "unpickling is construction; followed by _validate_labels (C01 R-01.1)",
    "dns.rdata.Rdata.__setstate__": "unpickling is construction (restores the pickled slots)",
    "dns.rdata.Rdata.replace": "sets rdcomment on the freshly constructed copy before it is returned; rdcomment takes no part in equality/hash",
    "dns.rdata.from_text": "sets rdcomment on the freshly parsed record before it is returned; rdcomment takes no part in equality/hash",
    "dns.immutable.Dict.__hash__": "memoises the hash of an immutable mapping",
}
EXCEPTIONS_07_2 = {
    ("dns.rdtypes.ANY.L64.L64.__init__", "locator64"): "validated on the same path by dns.rdtypes.util.parse_formatted_hex (raises unless it is a well-formed str)",
    ("dns.rdtypes.ANY.NID.NID.__init__", "nodeid"): "validated on the same path by dns.rdtypes.util.parse_formatted_hex (raises unless it is a well-formed str)",
    ("dns.rdtypes.IN.IPSECKEY.IPSECKEY.__init__", "gateway_type"): "gateway = Gateway(...) validates type with _as_uint8; .type is an int",
    ("dns.rdtypes.IN.IPSECKEY.IPSECKEY.__init__", "gateway"): "Gateway._check() accepts only None, an address string or a Name",
    ("dns.rdtypes.ANY.AMTRELAY.AMTRELAY.__init__", "relay_type"): "relay = Relay(...) validates type with _as_uint8; .type is an int",
    ("dns.rdtypes.ANY.AMTRELAY.AMTRELAY.__init__", "relay"): "Relay._check() accepts only None, an address string or a Name",
}


def _is_immutable_class(model, ci):
    return bool(IMMUTABLE_DECOS & {model.resolve_dotted(ci.module, d) for d in ci.decorators()})


def _rhs_kind(model, f, cfg, rd, v, at, depth=0):
    """('ok'|'bad'|'unknown', description)"""
    if depth > 5:
        return "unknown", "alias chain too deep"
    if isinstance(v, ast.Constant):
        return "ok", "constant"
    if isinstance(v, ast.Call):
        fn = v.func
        d = dotted(fn) or src(fn)
        last = d.split(".")[-1]
        if last.startswith("_as_"):
            return "ok", f"validator {last}"
        if d in IMMUTABLE_CALLS:
            return "ok", f"{d}(...)"
        if last == "make":
            return "ok", f"enum {d}"
        if last in ("_constify", "constify") or d.endswith("immutable.Dict"):
            return "ok", f"{last}(...)"
        if last in ("_hexify", "_base64ify", "inet_ntoa", "canonicalize", "lower", "upper", "decode", "encode", "join", "format", "strip"):
            return "ok", f"{last}() returns str/bytes"
        if d in ("dns.name.from_text", "dns.name.Name", "Name"):
            return "ok", "Name"
        tgt = model.resolve_expr(f, fn)
        if tgt in model.classes:
            tc = model.classes[tgt]
            if any("Enum" in (b or "") or "IntFlag" in (b or "") for c in tc.mro for b in c.external_bases):
                return "ok", f"enum {tc.name}(...)"
        if last in ("from_rdtypes",):
            return "unknown", f"helper object {d}"
        return "unknown", f"call {d}"
    if isinstance(v, ast.Name):
        kinds = []
        for df in rd.reaching(v.id, at):
            if df.kind == "param":
                kinds.append(("bad", f"unvalidated parameter `{v.id}`"))
            elif df.rhs is not None and df.kind == "assign":
                kinds.append(_rhs_kind(model, f, cfg, rd, df.rhs, df.node, depth + 1))
            else:
                kinds.append(("unknown", f"{df.kind} binding of {v.id}"))
        if not kinds:
            return "unknown", f"no definition of {v.id}"
        for k in ("bad", "unknown"):
            for (kk, why) in kinds:
                if kk == k:
                    return kk, why
        return "ok", "; ".join(sorted({w for (_k, w) in kinds}))
    if isinstance(v, ast.Subscript):
        k, why = _rhs_kind(model, f, cfg, rd, v.value, at, depth + 1)
        return (k, f"slice/index of {why}") if k != "bad" else (k, why)
    if isinstance(v, ast.BinOp):
        a = _rhs_kind(model, f, cfg, rd, v.left, at, depth + 1)
        b = _rhs_kind(model, f, cfg, rd, v.right, at, depth + 1)
        if a[0] == "ok" and b[0] == "ok":
            return "ok", "arithmetic on immutable values"
        return ("bad", a[1] if a[0] == "bad" else b[1]) if "bad" in (a[0], b[0]) else ("unknown", a[1] + " / " + b[1])
    if isinstance(v, ast.IfExp):
        a = _rhs_kind(model, f, cfg, rd, v.body, at, depth + 1)
        b = _rhs_kind(model, f, cfg, rd, v.orelse, at, depth + 1)
        for k in ("bad", "unknown"):
            for x in (a, b):
                if x[0] == k:
                    return x
        return "ok", a[1]
    if isinstance(v, ast.Attribute):
        return "unknown", f"attribute {src(v)}"
    if isinstance(v, (ast.JoinedStr, ast.Compare, ast.BoolOp, ast.UnaryOp)):
        return "ok", "str/bool expression"
    if isinstance(v, ast.Tuple):
        return "ok", "tuple display"
    if isinstance(v, (ast.List, ast.Dict, ast.Set, ast.ListComp, ast.DictComp, ast.SetComp)):
        return "bad", f"mutable container display `{src(v)[:30]}`"
    return "unknown", src(v)[:40]


def run(model, rep, tier):
    rdata = model.cls("dns.rdata.Rdata")
    name = model.cls("dns.name.Name")
    # ---------------------------------------------------------------- R-07.1
    value_classes = [name, rdata] + model.subclasses(rdata)
    for q in VALUE_HELPERS:
        value_classes.append(model.cls(q))
    svcb_param = model.cls("dns.rdtypes.svcbbase.Param")
    value_classes += [svcb_param] + model.subclasses(svcb_param)
    n_imm = 0
    for ci in value_classes:
        defines_state = "__init__" in ci.methods or "__slots__" in ci.assigns
        imm = _is_immutable_class(model, ci)
        if imm:
            n_imm += 1
        if defines_state or ci in (name, rdata):
            rep.check(imm, "R-07.1", ci.qualname, f"{ci.file}:{ci.node.lineno}", "@immutable", "value class defines its own state but is not @dns.immutable.immutable: attributes can be rebound after construction", stmt="decorator")
        else:
            # inherits state and __init__ from an immutable base
            rep.check(imm or any(_is_immutable_class(model, b) for b in ci.mro[1:]), "R-07.1", ci.qualname, f"{ci.file}:{ci.node.lineno}", "immutable via its base", "no immutable base", stmt="decorator", )
    rep.floor("R-07.1", n_imm, 95)
    # who may write Name.labels / bypass the guard
    for f in model.all_functions():
        for n in ast.walk(f.node):
            if isinstance(n, ast.Call) and isinstance(n.func, ast.Attribute) and n.func.attr == "__setattr__" and src(n.func.value) in ("object", "super()"):
                if f.qualname.startswith("dns._immutable_ctx."):
                    continue
                if f.qualname in SETATTR_SITES:
                    # only the documented attribute may be written at the rdcomment sites
                    if f.qualname in ("dns.rdata.Rdata.replace", "dns.rdata.from_text") and not (len(n.args) >= 2 and src(n.args[1]) == "'rdcomment'"):
                        rep.bad("R-07.1", f.qualname, where(f, n), f"`{src(n)[:60]}` writes a field other than rdcomment past the immutability guard", stmt=src(n.func))
                    else:
                        rep.excepted("R-07.1", f.qualname, where(f, n), SETATTR_SITES[f.qualname], stmt=src(n.func))
                else:
                    rep.bad("R-07.1", f.qualname, where(f, n), "`__setattr__` bypass of the immutability guard outside the known constructor-like sites", stmt=src(n.func))

    # ---------------------------------------------------------------- R-07.2
    n_fields = 0
    for ci in value_classes:
        if not _is_immutable_class(model, ci):
            continue
        init = ci.methods.get("__init__")
        if init is None:
            continue
        cfg = CFG(init.node)
        rd = ReachingDefs(cfg, init.params())
        for n in cfg.stmts():
            if n.copy_of_finally or not isinstance(n.ast, (ast.Assign, ast.AnnAssign)):
                continue
            targets = n.ast.targets if isinstance(n.ast, ast.Assign) else [n.ast.target]
            for t in targets:
                if isinstance(t, ast.Attribute) and src(t.value) == "self" and n.ast.value is not None:
                    n_fields += 1
                    kind, why = _rhs_kind(model, init, cfg, rd, n.ast.value, n)
                    con = init.qualname
                    st = f"self.{t.attr}"
                    if kind == "ok":
                        rep.ok("R-07.2", con, where(init, n.ast), f"self.{t.attr}: {why}", stmt=st)
                    elif (con, t.attr) in EXCEPTIONS_07_2:
                        rep.excepted("R-07.2", con, where(init, n.ast), EXCEPTIONS_07_2[(con, t.attr)], stmt=st)
                    elif kind == "bad":
                        rep.bad("R-07.2", con, where(init, n.ast), f"self.{t.attr} is bound to {why}: a mutable argument stays mutable inside an immutable value (equality/hash can change)", stmt=st)
                    else:
                        rep.blind("R-07.2", con, where(init, n.ast), f"self.{t.attr}: cannot classify `{src(n.ast.value)[:50]}` ({why})", stmt=st)
    rep.floor("R-07.2", n_fields, 150)
    # fields copied from a helper object (`tuple(helper.attr)`): tuple() freezes the outer level only, so the helper itself must have built that
    # attribute (own sequence of tuple/immutable elements), not kept the caller's container - whose elements may be lists, or which may be a
    # one-shot iterable that the helper's validation loop exhausts
    n_helper = 0
    for ci in value_classes:
        init = ci.methods.get("__init__")
        if init is None or not _is_immutable_class(model, ci):
            continue
        for n in ast.walk(init.node):
            if not (isinstance(n, ast.Assign) and isinstance(n.value, ast.Call) and src(n.value.func) in ("tuple", "frozenset") and len(n.value.args) == 1):
                continue
            a = n.value.args[0]
            if not (isinstance(a, ast.Attribute) and isinstance(a.value, ast.Name)):
                continue
            holder = a.value.id
            hcls = None
            for c in ast.walk(init.node):
                if isinstance(c, ast.Call) and src(c.func) == "isinstance" and len(c.args) == 2 and src(c.args[0]) == holder:
                    hcls = model.classes.get(model.resolve_expr(init, c.args[1]))
                elif isinstance(c, ast.Assign) and any(src(t_) == holder for t_ in c.targets) and isinstance(c.value, ast.Call):
                    hcls = model.classes.get(model.resolve_expr(init, c.value.func)) or hcls
            if hcls is None:
                rep.blind("R-07.2", init.qualname, where(init, n), f"`{src(n.value)}`: class of `{holder}` not identified", stmt=f"helper-elements {a.attr}")
                continue
            hinit = next((k.methods["__init__"] for k in hcls.mro if hasattr(k, "methods") and "__init__" in k.methods), None)
            stores = [x for x in ast.walk(hinit.node) if isinstance(x, ast.Assign) and any(src(t_) == "self." + a.attr for t_ in x.targets)] if hinit else []
            if not stores:
                rep.blind("R-07.2", init.qualname, where(init, n), f"`{hcls.name}.__init__` does not assign self.{a.attr}", stmt=f"helper-elements {a.attr}")
                continue
            n_helper += 1
            for st_ in stores:
                v = st_.value
                own = isinstance(v, (ast.ListComp, ast.GeneratorExp)) or (isinstance(v, ast.Call) and src(v.func) in ("tuple", "list") and v.args and isinstance(v.args[0], (ast.ListComp, ast.GeneratorExp)))
                comp = v if isinstance(v, (ast.ListComp, ast.GeneratorExp)) else (v.args[0] if own else None)
                elt_ok = comp is not None and (isinstance(comp.elt, ast.Tuple) or (isinstance(comp.elt, ast.Call) and (src(comp.elt.func) in IMMUTABLE_CALLS or src(comp.elt.func).split(".")[-1].startswith("_as_"))))
                rep.check(own and elt_ok, "R-07.2", hinit.qualname, where(hinit, st_), f"self.{a.attr} is a sequence {hcls.name} builds itself, of tuple/immutable elements",
                          f"`{src(st_)[:60]}`: {hcls.name} keeps the caller's container, and {init.qualname} freezes only its outer level with `{src(n.value)}`: "
                          "element pairs given as lists stay mutable inside the immutable record (its text, wire form, hash and equality change when they are mutated), "
                          "and a one-shot iterable is exhausted by the validation loop so the record is built empty", stmt=f"helper-elements {a.attr}")
    rep.floor("R-07.2-helper-elements", n_helper, 3)
    # the validators return immutable kinds: _as_bytes returns bytes even for bytearray
    ab = model.func("dns.rdata.Rdata._as_bytes")
    t = src(ab.node)
    rep.check("isinstance(value, bytearray)" in t and "bytes(value)" in t, "R-07.2", ab.qualname, where(ab, ab.node), "_as_bytes converts bytearray to bytes", "_as_bytes lets a bytearray through", stmt="as-bytes")
    at = model.func("dns.rdata.Rdata._as_tuple")
    rep.check("return tuple(" in src(at.node), "R-07.2", at.qualname, where(at, at.node), "_as_tuple returns a tuple", "_as_tuple does not return a tuple", stmt="as-tuple")

    # ---------------------------------------------------------------- R-07.3
    def same_type(test):
        s = " ".join(src(test).split())
        if s == "not isinstance(other, Rdata) or self.rdclass != other.rdclass or self.rdtype != other.rdtype":
            return "f"
        return None

    n = check_operator_table(model, rep, "R-07.3", "dns.rdata.Rdata", lambda s: s == "self._cmp(other)", same_type, names=("__lt__", "__le__", "__ge__", "__gt__"))
    rep.floor("R-07.3", n, 4)
    eq = model.func("dns.rdata.Rdata.__eq__")
    hs = model.func("dns.rdata.Rdata.__hash__")
    t = " ".join(src(eq.node).split())
    okk = "our = self.to_digestable()" in t and "their = other.to_digestable()" in t and "our = self.to_digestable(dns.name.root)" in t and "their = other.to_digestable(dns.name.root)" in t \
        and t.rstrip().endswith("return our == their") and "if self.rdclass != other.rdclass or self.rdtype != other.rdtype: return False" in t \
        and "if our_relative != their_relative: return False" in t and "if not isinstance(other, Rdata): return False" in t
    rep.check(okk, "R-07.3", eq.qualname, where(eq, eq.node), "equality = same class/type and equal canonical (digestable) forms, root as the fallback origin",
              "Rdata.__eq__ no longer compares (class, type, canonical form with root fallback)", stmt="eq-shape")
    rep.check(" ".join(src(hs.node).split()).endswith("return hash(self.to_digestable(dns.name.root))"), "R-07.3", hs.qualname, where(hs, hs.node),
              "hash of the same canonical image (root origin) that __eq__ falls back to", "Rdata.__hash__ is not derived from to_digestable(dns.name.root): equal records can hash differently", stmt="hash-shape")
    ne = model.func("dns.rdata.Rdata.__ne__")
    rep.check("return not self.__eq__(other)" in src(ne.node), "R-07.3", ne.qualname, where(ne, ne.node), "__ne__ is the negation of __eq__", "__ne__ is not the negation of __eq__", stmt="ne-shape")
    cm = model.func("dns.rdata.Rdata._cmp")
    tail = [n for n in cm.node.body if isinstance(n, ast.If) and " ".join(src(n.test).split()) == "our == their"]
    okk = False
    if tail:
        t0 = tail[0]
        el = t0.orelse[0] if t0.orelse and isinstance(t0.orelse[0], ast.If) else None
        okk = [src(s.value) for s in t0.body if isinstance(s, ast.Return)] == ["0"] and el is not None and " ".join(src(el.test).split()) == "our > their" \
            and [src(s.value) for s in el.body if isinstance(s, ast.Return)] == ["1"] and [src(s.value) for s in el.orelse if isinstance(s, ast.Return)] == ["-1"]
    rep.check(okk, "R-07.3", cm.qualname, where(cm, cm.node), "three-way comparison of the canonical octets (0 / +1 / -1 mirrored)", "_cmp's final three-way comparison changed (sign or operands)", stmt="cmp-threeway")
    t = " ".join(src(cm.node).split())
    rep.check("our = self.to_digestable()" in t and "their = other.to_digestable()" in t, "R-07.3", cm.qualname, where(cm, cm.node), "ordering compares to_digestable images", "_cmp no longer compares canonical forms", stmt="cmp-operands")
    td = model.func("dns.rdata.Rdata.to_digestable")
    rep.check("self.to_wire(origin=origin, canonicalize=True)" in src(td.node), "R-07.3", td.qualname, where(td, td.node), "to_digestable = uncompressed canonical wire form", "to_digestable is not to_wire(canonicalize=True)", stmt="digestable")

    # ---------------------------------------------------------------- R-07.4
    st = model.cls("dns.set.Set")
    n_loops = 0
    for mname, f in sorted(st.methods.items()):
        cfg = CFG(f.node, implicit_exc=False)
        alias_tests = [t for t in cfg.nodes if t.kind == "test" and atoms(normalise_compare(t.ast.test)) in ([("self", "is", "other")], [("other", "is", "self")])]
        for n in cfg.nodes:
            if n.kind != "for":
                continue
            it = src(n.ast.iter)
            body_mut = any(
                (isinstance(x, ast.Call) and isinstance(x.func, ast.Attribute) and src(x.func.value) == "self" and x.func.attr in ("add", "discard", "remove")) or
                (isinstance(x, ast.Delete) and "self.items" in src(x)) or
                (isinstance(x, ast.Subscript) and isinstance(x.ctx, ast.Store) and src(x.value) == "self.items")
                for s in n.ast.body for x in ast.walk(s))
            if not body_mut:
                continue
            if it in ("other.items", "other.items.keys()"):
                n_loops += 1
                okk = bool(alias_tests) and cfg.edge_dominated(n.id, {(t.id, "f") for t in alias_tests})
                rep.check(okk, "R-07.4", f.qualname, where(f, n.ast), "loop over other.items that mutates self is only reached when `self is not other`",
                          "self.items is mutated while iterating other.items without a `self is other` guard: s.op(s) raises RuntimeError or corrupts the set", stmt=stmt_key(n.ast))
            elif it in ("self.items", "self.items.keys()", "self"):
                n_loops += 1
                rep.bad("R-07.4", f.qualname, where(f, n.ast), "self.items is mutated while being iterated directly (iterate a copy)", stmt=stmt_key(n.ast))
            elif it.startswith("list(self.items") or it.startswith("list(self)") or it.startswith("tuple(self.items"):
                n_loops += 1
                rep.ok("R-07.4", f.qualname, where(f, n.ast), "iterates a copy of its own items while deleting", stmt=stmt_key(n.ast))
        # the aliasing arm must do the right thing: x - x and x ^ x are empty; x | x and x & x are x
        if mname in ("difference_update", "symmetric_difference_update"):
            okk = bool(alias_tests) and [stmt_key(s) for s in alias_tests[0].ast.body] == ["self.items.clear()"]
            rep.check(okk, "R-07.4", f.qualname, where(f, f.node), "s.op(s) empties the set", "aliasing arm does not empty the set", stmt="alias-arm")
        if mname in ("union_update", "intersection_update"):
            okk = bool(alias_tests) and [stmt_key(s) for s in alias_tests[0].ast.body] == ["return"]
            rep.check(okk, "R-07.4", f.qualname, where(f, f.node), "s.op(s) leaves the set unchanged", "aliasing arm changes the set", stmt="alias-arm")
    rep.floor("R-07.4", n_loops, 3)
    # Set.add: duplicates collapse, insertion order kept
    sa = model.func("dns.set.Set.add")
    rep.check(" ".join(src(sa.node).split()).endswith("if item not in self.items: self.items[item] = None"), "R-07.4", sa.qualname, where(sa, sa.node),
              "add inserts only when absent (first-insertion order kept)", "Set.add re-inserts existing items (order / identity of the first insertion lost)", stmt="add-shape")
    se = model.func("dns.set.Set.__eq__")
    rep.check("return self.items == other.items" in src(se.node), "R-07.4", se.qualname, where(se, se.node), "set equality is dict equality (order-insensitive)", "Set.__eq__ changed", stmt="eq-shape")

    # ---------------------------------------------------------------- R-07.7
    INSERT_OK = {"dns.set.Set.add": "the overridable insertion hook itself", "dns.set.Set._clone": "copies the items of an already-valid set into a fresh object of the same class",
                 "dns.set.Set.__init__": "creates the empty dict", "dns.rdataset.ImmutableRdataset.__init__": "freezes the items of an already-valid rdataset"}
    n_ins = 0
    for modname in ("dns.set", "dns.rdataset", "dns.rrset"):
        for f in [g for g in model.all_functions() if g.module.name == modname]:
            for x in ast.walk(f.node):
                grow = None
                if isinstance(x, ast.Subscript) and isinstance(x.ctx, ast.Store) and isinstance(x.value, ast.Attribute) and x.value.attr == "items":
                    grow = x
                elif isinstance(x, ast.Call) and isinstance(x.func, ast.Attribute) and x.func.attr in ("update", "setdefault", "__setitem__") and isinstance(x.func.value, ast.Attribute) and x.func.value.attr == "items":
                    grow = x
                elif isinstance(x, ast.Attribute) and isinstance(x.ctx, ast.Store) and x.attr == "items":
                    grow = x
                elif isinstance(x, ast.AugAssign) and isinstance(x.target, ast.Attribute) and x.target.attr == "items":
                    grow = x
                if grow is None:
                    continue
                n_ins += 1
                if f.qualname in INSERT_OK:
                    rep.ok("R-07.7", f.qualname, where(f, grow), f"`{src(grow)[:50]}`: {INSERT_OK[f.qualname]}", stmt="insert " + src(grow)[:40])
                else:
                    rep.bad("R-07.7", f.qualname, where(f, grow), f"`{src(grow)[:60]}` puts items into the set without going through self.add(): on an Rdataset/RRset the class/type/covers refusal, "
                            "singleton replacement and TTL minimisation are bypassed", stmt="insert " + src(grow)[:40])
    rep.floor("R-07.7", n_ins, 5)
    # the growing operations of Set must call the overridable hooks
    for mname, hooks in (("union_update", ("self.add",)), ("symmetric_difference_update", ("self.union_update", "self.add")), ("update", ("self.add", "self.union_update")), ("__init__", ("self.add",))):
        f = st.methods.get(mname)
        if f is None:
            rep.blind("R-07.7", f"dns.set.Set.{mname}", st.file, "method vanished", stmt="via-hook")
            continue
        called = {src(c.func) for c in ast.walk(f.node) if isinstance(c, ast.Call)}
        rep.check(any(h in called for h in hooks), "R-07.7", f.qualname, where(f, f.node), f"grows the set through {sorted(called & set(hooks))}",
                  f"Set.{mname} no longer inserts through {' / '.join(hooks)}", stmt="via-hook")

    # ---------------------------------------------------------------- R-07.5 / R-07.6
    rs = model.cls("dns.rdataset.Rdataset")
    ws = WriteSets(model)
    ad = model.func("dns.rdataset.Rdataset.add")
    cfg = CFG(ad.node, implicit_exc=False)
    write_nodes = []
    for n in cfg.stmts():
        w = False
        for e in own_nodes(n.ast):
            if isinstance(e, ast.Attribute) and isinstance(e.ctx, ast.Store) and src(e.value) == "self":
                w = True
            if isinstance(e, ast.Call) and isinstance(e.func, ast.Attribute):
                if src(e.func.value) == "self" and ws.writes(rs, e.func.attr):
                    w = True
                if src(e.func.value) == "super()" and e.func.attr in ("add", "update", "union_update", "intersection_update"):
                    w = True
        if w:
            write_nodes.append(n)
    rep.floor("R-07.5-writes", len(write_nodes), 3)
    raises = [n for n in cfg.nodes if isinstance(n.ast, ast.Raise)]
    rep.floor("R-07.5-raises", len(raises), 2)
    for r in raises:
        before = [wn for wn in write_nodes if r.id in cfg.reachable([y for (y, k) in cfg.succ[wn.id]])]
        rep.check(not before, "R-07.5", ad.qualname, where(ad, r.ast), f"`{stmt_key(r.ast)}` happens before any write to the set",
                  f"`{stmt_key(r.ast)}` is reachable after `{stmt_key(before[0].ast) if before else ''}` already changed the set: a refused record leaves a modified set", stmt=stmt_key(r.ast))
    # type/class/covers refusal
    tests = [t for t in cfg.nodes if t.kind == "test" and normalise_compare(t.ast.test)[0] == "or" and set(atoms(normalise_compare(t.ast.test))) == {("self.rdclass", "!=", "rd.rdclass"), ("self.rdtype", "!=", "rd.rdtype")}]
    inc = [r for r in raises if "IncompatibleTypes" in src(r.ast)]
    rep.check(len(tests) == 1 and len(inc) == 1 and cfg.edge_dominated(inc[0].id, {(tests[0].id, "t")}), "R-07.6", ad.qualname, where(ad, ad.node),
              "a record of another class or type is refused", "class/type refusal changed", stmt="refuse-type")
    ins = [n for (n, c) in calls_with_nodes(cfg) if src(c.func) == "super().add"]
    clr = [n for (n, c) in calls_with_nodes(cfg) if src(c.func) == "self.clear"]
    stest = [t for t in cfg.nodes if t.kind == "test" and normalise_compare(t.ast.test)[0] == "and" and set(atoms(normalise_compare(t.ast.test))) == {("dns.rdatatype.is_singleton(rd.rdtype)", "truthy", ""), ("len(self)", ">", "0")}]
    okk = len(ins) == 1 and len(clr) == 1 and len(stest) == 1 and cfg.edge_dominated(clr[0].id, {(stest[0].id, "t")}) and ins[0].id in cfg.reachable([clr[0].id]) \
        and cfg.dominated_by_set(ins[0].id, [stest[0].id])
    rep.check(okk, "R-07.6", ad.qualname, where(ad, ad.node), "singleton types: clear() before the insert when the set is non-empty", "singleton replacement is no longer (clear under is_singleton and len > 0, then insert)", stmt="singleton")
    ut = [n for (n, c) in calls_with_nodes(cfg) if src(c.func) == "self.update_ttl"]
    tt = [t for t in cfg.nodes if t.kind == "test" and atoms(normalise_compare(t.ast.test)) == [("ttl", "is not", "None")]]
    okk = len(ut) == 1 and len(tt) == 1 and cfg.edge_dominated(ut[0].id, {(tt[0].id, "t")}) and bool(ins) and cfg.dominated_by_set(ins[0].id, [tt[0].id])
    rep.check(okk, "R-07.6", ad.qualname, where(ad, ad.node), "add(rd, ttl) minimises the TTL before inserting", "add(rd, ttl) no longer passes update_ttl before the insert", stmt="ttl-on-add")
    for mname in ("union_update", "intersection_update", "update"):
        f = rs.methods.get(mname)
        if f is None:
            rep.bad("R-07.6", f"dns.rdataset.Rdataset.{mname}", rs.file, "override missing: merging sets would not minimise the TTL", stmt="ttl-on-merge")
            continue
        c2 = CFG(f.node, implicit_exc=False)
        sup = [n for (n, c) in calls_with_nodes(c2) if src(c.func) == f"super().{mname}"]
        gate = [n.id for (n, c) in calls_with_nodes(c2) if src(c.func) == "self.update_ttl" and c.args and src(c.args[0]) == "other.ttl"]
        rep.check(len(sup) == 1 and bool(gate) and c2.dominated_by_set(sup[0].id, gate) and c2.dominated_by_set(c2.exit.id, [sup[0].id]), "R-07.6", f.qualname, where(f, f.node),
                  "update_ttl(other.ttl) then the set operation", f"{mname} no longer minimises the TTL with other.ttl before merging", stmt="ttl-on-merge")
    up = model.func("dns.rdataset.Rdataset.update_ttl")
    t = " ".join(src(up.node).split())
    rep.check(pat.has(up.node, "ttl = dns.ttl.make(ttl)\nif len(self) == 0:\n    self.ttl = ttl\nelif ttl < self.ttl:\n    self.ttl = ttl"), "R-07.6", up.qualname, where(up, up.node),
              "TTL := ttl if empty else min(ttl, current)", "update_ttl no longer computes the minimum", stmt="min-ttl")
    cov = [t for t in cfg.nodes if t.kind == "test" and atoms(normalise_compare(t.ast.test)) == [("self.covers", "!=", "covers")]]
    dc = [r for r in raises if "DifferingCovers" in src(r.ast)]
    rep.check(len(cov) == 1 and len(dc) == 1 and cfg.edge_dominated(dc[0].id, {(cov[0].id, "t")}), "R-07.6", ad.qualname, where(ad, ad.node), "a signature covering another type is refused",
              "covered-type refusal changed", stmt="refuse-covers")
    # the covers field is initialised from the first signature only while it is still unset
    init_cov = [n for n in cfg.nodes if isinstance(n.ast, ast.Assign) and src(n.ast) == "self.covers = covers"]
    okk = len(init_cov) == 1
    if okk:
        gs = [t for t in cfg.nodes if t.kind == "test" and cfg.edge_dominated(init_cov[0].id, {(t.id, "t")}) and normalise_compare(t.ast.test)[0] in ("and", "atom")]
        have = {a for t in gs for a in atoms(normalise_compare(t.ast.test))}
        okk = A("len(self)", "==", "0") in have and A("self.covers", "==", "dns.rdatatype.NONE") in have
    rep.check(okk, "R-07.6", ad.qualname, where(ad, init_cov[0].ast if init_cov else ad.node), "covers is adopted from the first signature only when the set is empty AND covers is still NONE",
              "`self.covers = covers` is not conditioned on (empty set and covers still NONE): an emptied RRSIG set with a fixed covered type silently adopts another covered type instead of raising DifferingCovers",
              stmt="covers-init")
    # ---------------------------------------------------------------- R-07.8
    NO_COPY_OK = {"dns.zone.ImmutableVersion.__init__": "wraps the node map of the writable version it replaces; that version is discarded by the commit"}
    n_dict = 0
    for f in model.all_functions():
        for c in ast.walk(f.node):
            if isinstance(c, ast.Call) and (dotted(c.func) or "").endswith("immutable.Dict"):
                n_dict += 1
                nc = c.args[1] if len(c.args) > 1 else next((k.value for k in c.keywords if k.arg == "no_copy"), None)
                no_copy = nc is not None and not (isinstance(nc, ast.Constant) and nc.value is False)
                if not no_copy:
                    rep.ok("R-07.8", f.qualname, where(f, c), f"`{src(c)[:50]}` copies its argument", stmt="dict-copy")
                elif f.qualname in NO_COPY_OK:
                    rep.excepted("R-07.8", f.qualname, where(f, c), NO_COPY_OK[f.qualname], stmt="dict-copy")
                else:
                    rep.bad("R-07.8", f.qualname, where(f, c), f"`{src(c)[:60]}` wraps the caller's mapping without copying it: the 'immutable' value changes when the source is mutated afterwards", stmt="dict-copy")
    rep.floor("R-07.8", n_dict, 3)
    n_sm = 0
    for m_ in sorted(model.cls("dns.set.Set").methods.values(), key=lambda g: g.qualname):
        n_sm += 1
        for x in ast.walk(m_.node):
            if isinstance(x, ast.Name) and x.id == "self" and isinstance(x.ctx, ast.Store):
                rep.bad("R-07.9", m_.qualname, where(m_, x), "`self` is rebound: the result is cloned from the other operand, so it takes that operand's order, class and attributes (an RRset & Rdataset "
                        "loses its owner name; the in-place and copying forms disagree)", stmt="self-rebound")
    rep.floor("R-07.9", n_sm, 20)
    rep.ok("R-07.9", "dns.set.Set", "dns/set.py", f"none of {n_sm} methods rebinds self", stmt="no-self-rebinding")
    # the wrapper itself: it aliases its argument only when the caller asked for it (no_copy) - every other path copies into a fresh mapping
    di = model.func("dns.immutable.Dict.__init__")
    cdi = CFG(di.node, implicit_exc=False)
    alias = [n for n in cdi.stmts() if isinstance(n.ast, ast.Assign) and isinstance(n.ast.value, ast.Name) and n.ast.value.id in di.params() and n.ast.value.id != "self"
             and isinstance(n.ast.targets[0], ast.Attribute)]
    gates = {(t.id, "t") for t in cdi.nodes if t.kind == "test" and isinstance(t.ast, ast.If) and normalise_compare(t.ast.test)[0] in ("and", "atom")
             and any(a[0] == "no_copy" and a[1] == "truthy" for a in atoms(normalise_compare(t.ast.test)))}
    if not alias:
        rep.blind("R-07.8", di.qualname, where(di, di.node), "the aliasing store `self._odict = dictionary` was not found", stmt="dict-alias-gate")
    for a in alias:
        rep.check(bool(gates) and cdi.edge_dominated(a.id, gates), "R-07.8", di.qualname, where(di, a.ast), "the argument is kept (not copied) only under `no_copy and ...`",
                  f"`{src(a.ast)}` is reachable without `no_copy` being true (the condition is not a conjunction containing no_copy): a plain dict passed by a caller is wrapped in place, "
                  "so SVCB/HTTPS params and ImmutableRdataset items change when the caller's dict is edited afterwards", stmt="dict-alias-gate")
    rep.assume("R-07.5 considers the refusals raised by Rdataset.add itself; exceptions raised by callees (e.g. dns.ttl.make on an invalid TTL) are not followed")
    # ---------------------------------------------------------------- R-07.10
    LAWS = {"union_update": "noop", "intersection_update": "noop", "difference_update": "clear", "symmetric_difference_update": "clear", "update": "noop",
            "issubset": "True", "issuperset": "True", "__eq__": "True", "__le__": "True", "__ge__": "True", "__ne__": "False", "__lt__": "False", "__gt__": "False"}
    setc = model.cls("dns.set.Set")
    n10 = 0
    for mn, fm in sorted(setc.methods.items()):
        for nd in ast.walk(fm.node):
            if not (isinstance(nd, ast.If) and set(atoms(normalise_compare(nd.test))) & {A("self", "is", "other"), A("other", "is", "self")}):
                continue
            n10 += 1
            body = [b for b in nd.body if not (isinstance(b, ast.Expr) and isinstance(b.value, ast.Constant))]
            if len(body) == 1 and isinstance(body[0], ast.Return) and (body[0].value is None or (isinstance(body[0].value, ast.Constant) and body[0].value.value is None)):
                got = "noop"
            elif len(body) >= 1 and isinstance(body[0], ast.Expr) and src(body[0].value) == "self.items.clear()" and all(isinstance(b, ast.Return) and b.value is None for b in body[1:]):
                got = "clear"
            elif len(body) == 1 and isinstance(body[0], ast.Return) and isinstance(body[0].value, ast.Constant) and isinstance(body[0].value.value, bool):
                got = str(body[0].value.value)
            else:
                got = "other: " + " ; ".join(stmt_key(b) for b in body)[:60]
            want = LAWS.get(mn)
            rep.check(want is not None and got == want, "R-07.10", fm.qualname, where(fm, nd), f"{mn}(s, s): {got}",
                      (f"{mn}(s, s) does `{got}` but the law asks for `{want}`" if want else
                       f"{mn} answers `{got}` for `self is other` whatever the set holds: for isdisjoint that is wrong for the empty set (s.isdisjoint(s) must be True exactly when s is empty); no identity shortcut is known for this method"),
                      stmt="identity-law")
    rep.floor("R-07.10", n10, 4)
    # ---------------------------------------------------------------- R-07.11
    rdsc = model.cls("dns.rdataset.Rdataset")
    mt = rdsc.methods["match"]
    ident = [a.arg for a in mt.node.args.args if a.arg != "self"]
    eq11 = rdsc.methods["__eq__"]
    refused = set()
    for nd in ast.walk(eq11.node):
        if isinstance(nd, ast.If) and any(isinstance(b, ast.Return) and isinstance(b.value, ast.Constant) and b.value.value is False for b in nd.body):
            for (l_, o_, r_) in atoms(normalise_compare(nd.test)):
                if o_ == "!=" and {l_.split(".")[0], r_.split(".")[0]} == {"self", "other"} and l_.split(".", 1)[-1] == r_.split(".", 1)[-1]:
                    refused.add(l_.split(".", 1)[-1])
    rets11 = [r for r in ast.walk(eq11.node) if isinstance(r, ast.Return)]
    def _deleg(rets):
        sup = [r for r in rets if r.value is not None and src(r.value) == "super().__eq__(other)"]
        return len(sup) == 1 and all(isinstance(r.value, ast.Constant) and r.value.value is False for r in rets if r is not sup[0])

    deleg = _deleg(rets11)
    miss11 = [i for i in ident if i not in refused]
    rep.check(len(ident) >= 3 and not miss11 and deleg, "R-07.11", eq11.qualname, where(eq11, eq11.node), f"unequal on a difference in any of {ident}; then the members are compared",
              (f"__eq__ does not refuse on a difference in {miss11} (the identity Rdataset.match() takes is {ident}): record sets of different {'/'.join(miss11)} with the same members are equal - e.g. the question `example. CH A` equals `example. IN A`"
               if miss11 else "__eq__ no longer ends in super().__eq__(other) (the member comparison)"), stmt="eq-identity")
    rr = model.cls("dns.rrset.RRset").methods["__eq__"]
    name_cmp = any(isinstance(nd, ast.If) and A("self.name", "!=", "other.name") in atoms(normalise_compare(nd.test)) and any(isinstance(b, ast.Return) and isinstance(b.value, ast.Constant) and b.value.value is False for b in nd.body)
                   for nd in ast.walk(rr.node))
    rets_rr = [r for r in ast.walk(rr.node) if isinstance(r, ast.Return)]
    rep.check(name_cmp and _deleg(rets_rr), "R-07.11", rr.qualname, where(rr, rr.node), "owner names must agree; then Rdataset.__eq__ decides",
              "RRset.__eq__ no longer (refuses on different owner names and then delegates to Rdataset.__eq__)", stmt="eq-identity")
    # ---------------------------------------------------------------- R-07.12
    irc = model.cls("dns.rdataset.ImmutableRdataset")
    for mn12 in ("copy", "__copy__", "union", "intersection", "difference", "symmetric_difference"):
        fm12 = irc.methods.get(mn12)
        if fm12 is None:
            rep.bad("R-07.12", f"dns.rdataset.ImmutableRdataset.{mn12}", irc.file, f"ImmutableRdataset no longer overrides {mn12}(): the inherited form returns a plain mutable Rdataset", stmt="rewrapped")
            continue
        rets12 = [r for r in ast.walk(fm12.node) if isinstance(r, ast.Return)]
        okk12 = bool(rets12) and all(r.value is not None and isinstance(r.value, ast.Call) and src(r.value.func) == "ImmutableRdataset" for r in rets12)
        rep.check(okk12, "R-07.12", fm12.qualname, where(fm12, fm12.node), "returns ImmutableRdataset(...)",
                  f"{mn12}() of an immutable record set returns `{src(rets12[0].value)[:50] if rets12 and rets12[0].value is not None else 'nothing'}`, not an ImmutableRdataset: add()/update_ttl()/clear() succeed on a value derived from a frozen set", stmt="rewrapped")
    rep.assume("callers do not re-run initialisers on live objects (obj.__init__(...), obj.__setstate__(...)) or use object.__setattr__: dns._immutable_ctx opens the attribute window for the duration of __init__, whoever calls it")
    rep.meta["explanation"] = (
        "Decorator census over all value classes, provenance classification (reaching definitions) of every field store in their constructors, "
        "operator-table and shape rules for equality/hash/order, aliasing-guard dominance in Set, and write-before-raise analysis of Rdataset.add. "
        "The algebraic set laws over operation sequences are NOT decided.")


WITNESSES = [
    {"id": "c07-immutable-difference-not-rewrapped", "rule": "R-07.12", "file": "dns/rdataset.py", "expect": "fires",
     "old": "        return ImmutableRdataset(super().difference(other))  # pyright: ignore", "new": "        return super().difference(other)"},
    {"id": "c07-twin-immutable-difference-via-local", "rule": "R-07.12", "file": "dns/rdataset.py", "expect": "silent",
     "old": "        return ImmutableRdataset(super().difference(other))  # pyright: ignore", "new": "        result = super().difference(other)\n        return ImmutableRdataset(result)"},
    {"id": "c07-isdisjoint-identity-shortcut", "rule": "R-07.10", "file": "dns/set.py", "expect": "fires",
     "old": "        for item in other.items:\n            if item in self.items:\n                return False\n        return True", "new": "        if self is other:\n            return False\n        for item in other.items:\n            if item in self.items:\n                return False\n        return True"},
    {"id": "c07-difference-update-identity-noop", "rule": "R-07.10", "file": "dns/set.py", "expect": "fires",
     "old": "        if self is other:  # lgtm[py/comparison-using-is]\n            self.items.clear()\n        else:\n            for item in other.items:\n                self.discard(item)", "new": "        if self is other:  # lgtm[py/comparison-using-is]\n            return\n        else:\n            for item in other.items:\n                self.discard(item)"},
    {"id": "c07-twin-issubset-identity-true", "rule": "R-07.10", "file": "dns/set.py", "expect": "silent",
     "old": "        for item in self.items:\n            if item not in other.items:\n                return False\n        return True", "new": "        if self is other:\n            return True\n        for item in self.items:\n            if item not in other.items:\n                return False\n        return True"},
    {"id": "c07-rdataset-eq-ignores-class", "rule": "R-07.11", "file": "dns/rdataset.py", "expect": "fires",
     "old": "            self.rdclass != other.rdclass\n            or self.rdtype != other.rdtype", "new": "            self.rdtype != other.rdtype"},
    {"id": "c07-twin-rdataset-eq-separate-tests", "rule": "R-07.11", "file": "dns/rdataset.py", "expect": "silent",
     "old": "        if (\n            self.rdclass != other.rdclass\n            or self.rdtype != other.rdtype\n            or self.covers != other.covers\n        ):\n            return False", "new": "        if self.rdclass != other.rdclass:\n            return False\n        if other.rdtype != self.rdtype or self.covers != other.covers:\n            return False"},
    {"id": "c07-intersection-swaps-operands", "rule": "R-07.9", "file": "dns/set.py", "expect": "fires",
     "old": "        obj = self._clone()\n        obj.intersection_update(other)", "new": "        if len(other.items) < len(self.items):\n            self, other = other, self\n        obj = self._clone()\n        obj.intersection_update(other)"},
    {"id": "c07-dict-aliases-without-no-copy", "rule": "R-07.8", "file": "dns/immutable.py", "expect": "fires",
     "old": "        if no_copy and isinstance(dictionary, collections.abc.MutableMapping):", "new": "        if no_copy or isinstance(dictionary, collections.abc.MutableMapping):"},
    {"id": "c07-bitmap-keeps-callers-windows", "rule": "R-07.2", "file": "dns/rdtypes/util.py", "expect": "fires",
     "old": "        self.windows = [(window, bitmap) for window, bitmap in windows]\n", "new": "        self.windows = windows\n"},
    {"id": "c07-twin-bitmap-tuple-of-pairs", "rule": "R-07.2", "file": "dns/rdtypes/util.py", "expect": "silent",
     "old": "        self.windows = [(window, bitmap) for window, bitmap in windows]\n", "new": "        self.windows = tuple((w, b) for w, b in windows)\n"},
    {"id": "c07-immutable-rdataset-no-copy", "rule": "R-07.8", "file": "dns/rdataset.py", "expect": "fires",
     "old": "        self.items = dns.immutable.Dict(rdataset.items)", "new": "        self.items = dns.immutable.Dict(rdataset.items, True)"},
    {"id": "c07-covers-adopted-when-empty", "rule": "R-07.6", "file": "dns/rdataset.py", "expect": "fires",
     "old": "            if len(self) == 0 and self.covers == dns.rdatatype.NONE:", "new": "            if len(self) == 0:"},
    {"id": "c07-twin-covers-condition-flipped", "rule": "R-07.6", "file": "dns/rdataset.py", "expect": "silent",
     "old": "            if len(self) == 0 and self.covers == dns.rdatatype.NONE:", "new": "            if dns.rdatatype.NONE == self.covers and 0 == len(self):"},
    {"id": "c07-symdiff-direct-insert", "rule": "R-07.7", "file": "dns/set.py", "expect": "fires",
     "old": "            overlap = self.intersection(other)\n            self.union_update(other)\n            self.difference_update(overlap)",
     "new": "            for item in other.items:\n                if item in self.items:\n                    del self.items[item]\n                else:\n                    self.items[item] = None"},
    {"id": "c07-twin-symdiff-via-add", "rule": "R-07.7", "file": "dns/set.py", "expect": "silent",
     "old": "            overlap = self.intersection(other)\n            self.union_update(other)\n            self.difference_update(overlap)",
     "new": "            overlap = self.intersection(other)\n            for item in other.items:\n                self.add(item)\n            self.difference_update(overlap)"},
    {"id": "c07-generic-unvalidated", "rule": "R-07.2", "file": "dns/rdata.py", "expect": "fires",
     "old": "        self.data = self._as_bytes(data)", "new": "        self.data = data"},
    {"id": "c07-add-ttl-before-refusal", "rule": "R-07.5", "file": "dns/rdataset.py", "expect": "fires",
     "old": "            raise IncompatibleTypes\n        if self.rdtype == dns.rdatatype.RRSIG", "new": "            raise IncompatibleTypes\n        if ttl is not None:\n            self.update_ttl(ttl)\n        if self.rdtype == dns.rdatatype.RRSIG"},
    {"id": "c07-ge-uses-gt", "rule": "R-07.3", "file": "dns/rdata.py", "expect": "fires",
     "old": "        return self._cmp(other) >= 0", "new": "        return self._cmp(other) > 0"},
    {"id": "c07-intersection-no-ttl", "rule": "R-07.6", "file": "dns/rdataset.py", "expect": "fires",
     "old": "    def intersection_update(self, other):\n        self.update_ttl(other.ttl)\n", "new": "    def intersection_update(self, other):\n"},
    {"id": "c07-mx-not-immutable", "rule": "R-07.1", "file": "dns/rdtypes/mxbase.py", "expect": "fires",
     "old": "@dns.immutable.immutable\nclass MXBase(", "new": "class MXBase("},
    {"id": "c07-union-no-alias-guard", "rule": "R-07.4", "file": "dns/set.py", "expect": "fires",
     "old": "        if self is other:  # lgtm[py/comparison-using-is]\n            self.items.clear()\n        else:\n            for item in other.items:\n                self.discard(item)",
     "new": "        for item in other.items:\n            self.discard(item)"},
    {"id": "c07-singleton-not-cleared", "rule": "R-07.6", "file": "dns/rdataset.py", "expect": "fires",
     "old": "        if dns.rdatatype.is_singleton(rd.rdtype) and len(self) > 0:\n            self.clear()\n", "new": ""},
    {"id": "c07-hash-without-root", "rule": "R-07.3", "file": "dns/rdata.py", "expect": "fires",
     "old": "        return hash(self.to_digestable(dns.name.root))", "new": "        return hash(self.to_text())"},
    {"id": "c07-txt-strings-list", "rule": "R-07.2", "file": "dns/rdtypes/txtbase.py", "expect": "fires",
     "old": "        self.strings: tuple[bytes] = self._as_tuple(", "new": "        self.strings: tuple[bytes] = list("},
    {"id": "c07-twin-validator-local", "rule": "R-07.2", "file": "dns/rdata.py", "expect": "silent",
     "old": "        self.data = self._as_bytes(data)", "new": "        checked = self._as_bytes(data)\n        self.data = checked"},
    {"id": "c07-cmp-sign", "rule": "R-07.3", "file": "dns/rdata.py", "expect": "fires",
     "old": "        elif our > their:\n            return 1\n        else:\n            return -1", "new": "        elif our > their:\n            return -1\n        else:\n            return 1"},
]
