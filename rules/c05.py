"""C05 per-type text round trip: width obligation of encoders, text producers never fail, quoted-string escape tables,
octet-vs-code-point pairing of printers and parsers, generic (\\#) form handling."""
from __future__ import annotations

import ast
import re

from engine.callgraph import Resolver
from engine.cfg import CFG, normalise_compare, atoms, int_bound_gt, int_bound_lt, A
from engine.escape import Escape
from engine.guards import make_guard
from engine.model import src, stmt_key, dotted, AnalysisError, walk_no_nested
from engine import pat
from engine.util import own_nodes, calls_with_nodes, where

RULES = {
    "R-05.16": "the text reader of a type does not depend on history: dns.rdata.get_rdata_class memoises a class under the (class, type) key it looked up, and under (ANY, type) only a class imported from the class-independent directory (the rule function of C02 R-02.3, run here directly) - a GenericRdata cached for every class makes the ordinary text of an IN-only type unparsable once the type was seen in class CH",
    "R-05.15": "a scaled float is rounded, not truncated: in dns/rdtypes/ANY/LOC.py `int(...)` is never applied directly to a product or quotient that has an operand not known to be an integer (a parameter, an attribute, a float) - degrees stored as a float times 3600000 land a hair below the integer for about 4% of the millisecond values, and truncation prints them 1 ms short, so the text no longer parses back to the record",
    "R-05.14": "the generic (\\#) text of a known type can be produced for every relativity choice: Rdataset.to_styled_text hands rd.to_generic() the style's origin unconditionally (the rule function of C09 R-09.1, run here directly because C09 adopts C05 rules)",
    "R-05.13": "optional trailing fields are left out only when ALL of them have their default: the guard that prints LOC's size/precision tail is a disjunction of `!= default` tests (one per field the tail holds), because the reader refills every missing field with its default",
    "R-05.12": "base32 text written without padding is padded back to the base32 quantum before decoding: NSEC3.from_text pads the next-hash to a multiple of 8 characters (RFC 4648), with the same modulus at the test and at the fill",
    "R-05.11": "an integer field printed through an enum's to_text (rcode, rdatatype, algorithm, scheme: ValueError outside 0..maximum) was bounded by the constructor to that enum's range: the field is built with the same enum's make(), or with an _as_uintN no wider than the enum's maximum",
    "R-05.10": "style keywords reach real style fields: every keyword BaseStyle.from_keywords translates a legacy to_text() keyword into (chunksize, separator) is a declared field of a style class, so building the style cannot raise TypeError for a documented option",
    "R-05.9": "a field printed in chunks (hex/base64 broken at the style's chunk size with the style's separator) is the LAST field of the text form, where the reader concatenates the remaining tokens; anywhere else the chunks parse as separate fields",
    "R-05.8": "an enum member whose value has several bits set is a field VALUE (e.g. KEY flags NOKEY = both type bits): `flags & Member` is compared with the member under the field mask, never tested by truth value (which means 'any of the bits')",
    "R-05.7": "names inside records are printed by Name.to_styled_text: its relativity decisions (\"@\" for the origin, dropping the final dot) are taken on the name that is printed (C01 R-01.7 adopted)",
    "R-05.1": "wire encoding of an accepted record cannot fail: every integer fed to struct.pack is a field validated to fit the format width, a bounded length, a masked value or a constant",
    "R-05.1t": "text production cannot fail: to_styled_text/to_text of record and helper classes contain no operation that can raise for a validated field (decode of arbitrary octets, int(), unguarded subscripts, division)",
    "R-05.2": "quoted character-strings: every octet the tokenizer treats specially inside quotes is escaped by dns.rdata._escapify; \\DDD uses 3 digits on both sides",
    "R-05.3": "a field printed octet-wise with dns.rdata._escapify is parsed octet-wise (unescape_to_bytes), not through get_string() code points",
    "R-05.5": "the constructor validators enforce the intervals the evaluator assumes, on the value they return: _as_uintN rejects < 0 and > 2^N-1, _as_int rejects < low and > high, _as_bytes bounds len() of the *returned* bytes by max_length",
    "R-05.6": "every text reader hands all three of origin, relativize, relativize_to to each name-reading call it makes (tok.get_name / tok.as_name / a helper's or the per-type from_text); the absolute-only names are listed",
    "R-05.4": "known types given in generic \\# syntax are re-decoded by the type's own reader and compared, inside the syntax-error wrapper",
}

UINT = {"_as_uint8": (0, 0xFF), "_as_uint16": (0, 0xFFFF), "_as_uint32": (0, 0xFFFFFFFF), "_as_uint48": (0, 0xFFFFFFFFFFFF), "_as_bool": (0, 1),
        "_as_rdatatype": (0, 0xFFFF), "_as_rdataclass": (0, 0xFFFF)}
WIDTH = {"B": 8, "H": 16, "I": 32, "Q": 64}
INF = float("inf")

# packed values whose range needs an argument the interval evaluator cannot make
EXC_WIDTH = {
    ("dns.rdtypes.ANY.AMTRELAY.AMTRELAY._to_wire", "arg 2 of '!BB'"): "relay type is 0..3 (Gateway._check) OR-ed with a validated bool << 7: <= 0x83",
    ("dns.rdtypes.IN.IPSECKEY.IPSECKEY._to_wire", "self.gateway_type"): "gateway type comes from Gateway(...) which validates it with _as_uint8 and restricts it to 0..3",
    ("dns.rdtypes.IN.NAPTR._write_string", "arg 1 of '!B'"): "called only with NAPTR flags/service/regexp, each validated with max_length=255",

    ("dns.rdtypes.ANY.LOC.LOC._to_wire", "arg 2 of '!BBBBIII'"): "_encode_size returns base*16+exponent with base, exponent <= 9 (<= 0x99) or raises SyntaxError in __init__... value computed from a validated float",
    ("dns.rdtypes.ANY.LOC.LOC._to_wire", "arg 3 of '!BBBBIII'"): "same as size",
    ("dns.rdtypes.ANY.LOC.LOC._to_wire", "arg 4 of '!BBBBIII'"): "same as size",
    ("dns.rdtypes.ANY.LOC.LOC._to_wire", "arg 5 of '!BBBBIII'"): "0x80000000 +/- milliseconds with |degrees| <= 90 checked by _check_coordinate_list: within 32 bits",
    ("dns.rdtypes.ANY.LOC.LOC._to_wire", "arg 6 of '!BBBBIII'"): "0x80000000 +/- milliseconds with |degrees| <= 180 checked by _check_coordinate_list: within 32 bits",
    ("dns.rdtypes.IN.APL.APLItem.to_wire", "arg 3 of '!HBB'"): "address is at most 16 octets (or validated max_length=127) and asserted < 128 before the negation bit is OR-ed in",
    ("dns.rdtypes.IN.APL.APLItem.to_wire", "self.prefix"): "validated by _as_int(prefix, 0, 32|128) or _as_uint8 on every constructor branch",
    ("dns.rdtypes.util.Bitmap.to_wire", "arg 1 of '!BB'"): "Bitmap.__init__ refuses windows above 255 - decided below (bitmap-window-bound), not assumed",
    ("dns.rdtypes.util.Bitmap.to_wire", "arg 2 of '!BB'"): "Bitmap.__init__ refuses bitmaps longer than 32 octets - decided below (bitmap-window-bound)",
    ("dns.rdtypes.svcbbase._StringList.to_wire", "arg 1 of '!B'"): "each id is validated with max_length=255 in _StringList.__init__",
    ("dns.rdtypes.svcbbase.SVCBBase._to_wire", "arg 1 of '!H'"): "parameter keys are ParamKey values validated to 16 bits",
    ("dns.rdtypes.svcbbase.MandatoryParam.to_wire", "arg 1 of '!H'"): "keys are validated ParamKey values (16 bits)",
    ("dns.rdtypes.ANY.OPT.OPT._to_wire", "arg 1 of '!HH'"): "OptionType.make validates 0..65535",
    ("dns.edns.EDEOption.to_wire", "self.code"): "EDECode.make validates 0..65535",
}
# text producers: implicit-raise candidates that cannot fire
EXC_TEXT = {
    ("dns.edns.NSIDOption.to_text", "self.nsid.decode()"): "runs only when every octet is printable ASCII (the all(...) test on the line above)",
    ("dns.rdata._base64ify", "separator.decode()"): "separator is this module's own b' ' style constant",
    ("dns.rdata._hexify", "separator.decode()"): "separator is this module's own constant",
    ("dns.rdata._wordbreak", "data.decode()"): "data is the ASCII output of hexlify/b64encode",
    ("dns.rdtypes.svcbbase.SVCBBase.to_styled_text", "self.params[_]"): "key iterates sorted(self.params)",

    ("dns.rdtypes.ANY.GPOS.GPOS.to_styled_text", "self.latitude.decode()"): "GPOS fields are validated to be ASCII float syntax by _validate_float_string",
    ("dns.rdtypes.ANY.GPOS.GPOS.to_styled_text", "self.longitude.decode()"): "GPOS fields are validated to be ASCII float syntax",
    ("dns.rdtypes.ANY.GPOS.GPOS.to_styled_text", "self.altitude.decode()"): "GPOS fields are validated to be ASCII float syntax",
}
ASCII_PRODUCERS = ("binascii.hexlify", "base64.b64encode", "base64.b32encode", "base64.b16encode", "codecs.encode")


class Intervals:
    """Field intervals from constructor validators, and a small interval evaluator for encoder expressions."""

    def __init__(self, model):
        self.m = model
        self._fields = {}

    def field(self, ci, attr):
        key = (ci.qualname, attr)
        if key in self._fields:
            return self._fields[key]
        out = None
        for c in ci.mro:
            init = c.methods.get("__init__")
            if init is None:
                continue
            ivs = []
            for n in ast.walk(init.node):
                tgt = val = None
                if isinstance(n, ast.Assign) and any(isinstance(t, ast.Attribute) and src(t.value) == "self" and t.attr == attr for t in n.targets):
                    val = n.value
                elif isinstance(n, ast.AnnAssign) and isinstance(n.target, ast.Attribute) and src(n.target.value) == "self" and n.target.attr == attr and n.value is not None:
                    val = n.value
                if val is not None:
                    if isinstance(val, ast.Name):
                        ivs += self.local_validators(init, val.id, n.lineno)
                    elif isinstance(val, ast.Constant) and isinstance(val.value, int) and not isinstance(val.value, bool):
                        ivs.append(("int", val.value, val.value))
                    else:
                        ivs.append(self.validator(init, val))
            if ivs:
                if all(iv is not None for iv in ivs):
                    out = ("int", min(i[1] for i in ivs), max(i[2] for i in ivs)) if all(i[0] == "int" for i in ivs) else (("len", 0, max(i[2] for i in ivs)) if all(i[0] == "len" for i in ivs) else None)
                break
        self._fields[key] = out
        return out

    def local_validators(self, init, name, before_line):
        """Intervals of the definitions of local `name` in __init__ that can reach a store at `before_line`:
        the last top-level validator definition if there is one, else the union of all classifiable definitions."""
        top = [n for n in init.node.body if isinstance(n, ast.Assign) and any(isinstance(t, ast.Name) and t.id == name for t in n.targets) and n.lineno < before_line]
        if top:
            v = self.validator(init, top[-1].value)
            return [v]
        out = []
        for n in ast.walk(init.node):
            if isinstance(n, ast.Assign) and any(isinstance(t, ast.Name) and t.id == name for t in n.targets) and n.lineno < before_line:
                v = n.value
                if isinstance(v, ast.Constant) and isinstance(v.value, int) and not isinstance(v.value, bool):
                    out.append(("int", v.value, v.value))
                else:
                    out.append(self.validator(init, v))
        return out or [None]

    def validator(self, f, v):
        """('int', lo, hi) for validated integers, ('len', 0, max) for byte strings with max_length."""
        if isinstance(v, ast.Call):
            d = dotted(v.func) or ""
            last = d.split(".")[-1]
            if last in UINT:
                return ("int",) + UINT[last]
            if last == "_as_int" and len(v.args) >= 3:
                try:
                    return ("int", self.m.const(f.module, v.args[1]), self.m.const(f.module, v.args[2]))
                except AnalysisError:
                    return None
            if last == "_as_ttl":
                return ("int", 0, 0xFFFFFFFF)
            if last == "_as_bytes":
                kw = {k.arg: k.value for k in v.keywords}
                ml = v.args[2] if len(v.args) > 2 else kw.get("max_length")
                if ml is not None:
                    try:
                        return ("len", 0, int(self.m.const(f.module, ml)))
                    except AnalysisError:
                        return None
                return ("len", 0, INF)
            if last == "make":
                tgt = self.m.resolve_expr(f, v.func.value) if isinstance(v.func, ast.Attribute) else None
                if tgt in self.m.classes:
                    mx = self.m.lookup_method(self.m.classes[tgt], "_maximum")
                    if mx is not None:
                        rets = [r.value for r in ast.walk(mx.node) if isinstance(r, ast.Return) and r.value is not None]
                        try:
                            return ("int", 0, int(self.m.const(mx.module, rets[0])))
                        except Exception:
                            return None
            tq = self.m.resolve_expr(f, v.func)
            if tq in self.m.classes and any("Flag" in (b or "") or "Enum" in (b or "") for c in self.m.classes[tq].mro for b in c.external_bases) and v.args:
                return self.validator(f, v.args[0])
            if last in ("float",):
                return ("float", -INF, INF)
        return None

    def eval(self, f, ci, e, env, depth=0):
        """(lo, hi) of integer expression e inside encoder f of class ci; None = unknown."""
        if depth > 6:
            return None
        if isinstance(e, ast.Constant) and isinstance(e.value, int):
            return (e.value, e.value)
        if isinstance(e, ast.Attribute) and src(e.value) == "self" and ci is not None:
            iv = self.field(ci, e.attr)
            if iv and iv[0] == "int":
                return (iv[1], iv[2])
            return None
        if isinstance(e, ast.Call) and dotted(e.func) == "len" and e.args:
            a = e.args[0]
            if isinstance(a, ast.Attribute) and src(a.value) == "self" and ci is not None:
                iv = self.field(ci, a.attr)
                if iv and iv[0] == "len":
                    return (0, iv[2])
                return (0, INF)
            if isinstance(a, ast.Name) and a.id in env and env[a.id][0] == "lenof":
                return env[a.id][1]
            return (0, INF)
        if isinstance(e, ast.Call) and dotted(e.func) == "int" and e.args:
            return None
        if isinstance(e, ast.Name):
            if e.id in env:
                kind, val = env[e.id]
                if kind == "iv":
                    return val
                return None
            try:
                c = self.m.const(f.module, e)
                if isinstance(c, int):
                    return (c, c)
            except AnalysisError:
                pass
            return None
        if isinstance(e, (ast.Attribute,)):
            try:
                c = self.m.const(f.module, e)
                if isinstance(c, int):
                    return (int(c), int(c))
            except AnalysisError:
                return None
        if isinstance(e, ast.BinOp):
            a = self.eval(f, ci, e.left, env, depth + 1)
            b = self.eval(f, ci, e.right, env, depth + 1)
            if isinstance(e.op, ast.BitAnd):
                # x & mask with a non-negative constant mask
                for x in (a, b):
                    if x is not None and x[0] == x[1] and x[0] >= 0:
                        return (0, x[0])
                return None
            if a is None or b is None:
                return None
            if isinstance(e.op, ast.Add):
                return (a[0] + b[0], a[1] + b[1])
            if isinstance(e.op, ast.Sub):
                return (a[0] - b[1], a[1] - b[0])
            if isinstance(e.op, ast.BitOr) and a[0] >= 0 and b[0] >= 0 and a[1] != INF and b[1] != INF:
                hi = (1 << max(int(a[1]).bit_length(), int(b[1]).bit_length())) - 1
                return (0, hi)
            if isinstance(e.op, ast.LShift) and a[0] >= 0 and b[0] == b[1] and a[1] != INF:
                return (a[0] << b[0], int(a[1]) << b[0])
            if isinstance(e.op, ast.RShift) and a[0] >= 0 and b[0] == b[1]:
                return (0 if a[0] == 0 else int(a[0]) >> b[0], a[1] if a[1] == INF else int(a[1]) >> b[0])
            if isinstance(e.op, ast.Mult) and a[0] >= 0 and b[0] >= 0:
                return (a[0] * b[0], a[1] * b[1])
        return None


def _encoders(model):
    """(function, context class) of every wire encoder: record _to_wire resolved per concrete class + helper/option/param to_wire."""
    out = []
    rd = model.cls("dns.rdata.Rdata")
    seen = set()
    for ci in sorted(model.subclasses(rd), key=lambda c: c.qualname):
        f = model.lookup_method(ci, "_to_wire")
        if f is not None and f.cls is not rd and (f.qualname, ci.qualname) not in seen:
            # analyse each definition once, in the context of the class that defines the fields
            if f.qualname not in {x[0].qualname for x in out}:
                out.append((f, f.cls))
    for ci in sorted(model.classes.values(), key=lambda c: c.qualname):
        if ci.module.name in ("dns.rdtypes.util", "dns.rdtypes.svcbbase", "dns.edns", "dns.rdtypes.IN.APL") and "to_wire" in ci.methods:
            out.append((ci.methods["to_wire"], ci))
    for q in ("dns.rdtypes.IN.NAPTR._write_string",):
        if model.has_func(q):
            out.append((model.func(q), None))
    return out


# name fields read as absolute names on purpose
ABSOLUTE_NAME_OK = {("dns.rdtypes.ANY.TKEY.TKEY.from_text", "tok.get_name"): "the TKEY algorithm is an absolute name by definition (relativize=False)",
                    ("dns.rdtypes.ANY.TSIG.TSIG.from_text", "tok.get_name"): "the TSIG algorithm is an absolute name by definition (relativize=False)"}
VALIDATOR_BOUNDS = {"_as_uint8": (0, 0xFF), "_as_uint16": (0, 0xFFFF), "_as_uint32": (0, 0xFFFFFFFF), "_as_uint48": (0, 0xFFFFFFFFFFFF), "_as_int": ("low", "high"), "_as_bytes": (None, "max_length")}


def _feeding_local(init, ft, fld):
    """The local of from_text that ends up in field `fld`: position of the constructor parameter that __init__ stores into self.<fld>,
    looked up in the `cls(...)` call of from_text."""
    if init is None:
        return None
    params = [p for p in init.params() if p != "self"]
    src_param = None
    for n in ast.walk(init.node):
        tgt = None
        if isinstance(n, ast.Assign) and len(n.targets) == 1:
            tgt = n.targets[0]
        elif isinstance(n, ast.AnnAssign) and n.value is not None:
            tgt = n.target
        if isinstance(tgt, ast.Attribute) and src(tgt.value) == "self" and tgt.attr == fld:
            names = [x.id for x in ast.walk(n.value) if isinstance(x, ast.Name) and x.id in params]
            if names:
                src_param = names[0]
    if src_param is None:
        return None
    i = params.index(src_param)
    for c in ast.walk(ft.node):
        if isinstance(c, ast.Call) and isinstance(c.func, ast.Name) and c.func.id == "cls" and len(c.args) > i and isinstance(c.args[i], ast.Name):
            return c.args[i].id
        if isinstance(c, ast.Call) and isinstance(c.func, ast.Name) and c.func.id == "cls":
            for k in c.keywords:
                if k.arg == src_param and isinstance(k.value, ast.Name):
                    return k.value.id
    return None


def check_validators(model, rep, rule):
    """The validators are the trusted base of the interval evaluation (and of every `assert l < 256` in an encoder): check that each
    one raises unless the value *it returns* lies in the assumed interval."""
    n_v = 0
    for name, (lo, hi) in sorted(VALIDATOR_BOUNDS.items()):
        f = model.func("dns.rdata.Rdata." + name)
        cfg = CFG(f.node, implicit_exc=False)
        rets = [n for n in cfg.nodes if isinstance(n.ast, ast.Return) and isinstance(n.ast.value, ast.Name)]
        if not rets:
            rep.blind(rule, f.qualname, where(f, f.node), "no `return <name>` found", stmt="validator-bound")
            continue
        n_v += 1
        for rn in rets:
            v = rn.ast.value.id
            subj = f"len({v})" if name == "_as_bytes" else v
            guards = [t for t in cfg.nodes if t.kind == "test" and isinstance(t.ast, ast.If) and t.ast.body and isinstance(t.ast.body[-1], ast.Raise) and cfg.edge_dominated(rn.id, {(t.id, "f")})]
            ats = []
            for t in guards:
                nc = normalise_compare(t.ast.test)
                for a in atoms(nc):
                    ats.append((a, nc[0], t))
            # every ordering comparison in a raising guard must be about the returned value
            def _inner(x):
                return x[4:-1] if x.startswith("len(") and x.endswith(")") else x
            for (a, _, t) in ats:
                if a[1] in ("<", "<=", ">", ">=") or (a[1] == "==" and (a[0].startswith("len(") or a[2].startswith("len("))):
                    for who in (a[0], a[2]):
                        inner = _inner(who)
                        if inner.isidentifier() and inner != v and inner not in (str(lo), str(hi)):
                            rep.bad(rule, f.qualname, where(f, t.ast), f"`{src(t.ast.test)}` bounds `{inner}`, but the validator returns `{v}`: the returned value can lie outside the bound "
                                    "(e.g. text measured in characters, stored in octets) and the encoder's width assumption / `assert l < 256` fails later", stmt="validator-subject")

            def has(op_set, rhs, strict_plus):
                """a dominating raising guard `subj OP rhs` (OP in op_set), in whichever orientation the atom is written"""
                for (a, kind, _) in ats:
                    if kind not in ("atom", "or", "and"):
                        continue
                    if isinstance(rhs, int):
                        if a[0] == subj and a[1] in op_set:
                            try:
                                c = int(ast.literal_eval(a[2]))
                            except Exception:
                                continue
                            if c == rhs + (strict_plus if a[1] in (">=", "<=") else 0):
                                return True
                    else:
                        strict = ">" if ">" in op_set else "<"
                        if a == A(subj, strict, rhs):
                            return True
                return False
            if hi is not None:
                rep.check(has((">", ">="), hi, 1), rule, f.qualname, where(f, rn.ast), f"raises unless {subj} <= {hi}", f"no dominating `if {subj} > {hi}: raise` before `return {v}`: values above the assumed bound are accepted", stmt="validator-upper")
            if lo is not None:
                rep.check(has(("<", "<="), lo, -1), rule, f.qualname, where(f, rn.ast), f"raises unless {subj} >= {lo}", f"no dominating `if {subj} < {lo}: raise` before `return {v}`: values below the assumed bound are accepted", stmt="validator-lower")
    rep.floor(rule + "-validators", n_v, 6)
    # the TTL reader: every value it returns (plain decimal AND the BIND unit syntax) passed the `> MAX_TTL` refusal
    ft = model.func("dns.ttl.from_text")
    cfg = CFG(ft.node, implicit_exc=False)
    rets = [n for n in cfg.nodes if isinstance(n.ast, ast.Return) and isinstance(n.ast.value, ast.Name)]
    if not rets:
        rep.blind(rule, ft.qualname, where(ft, ft.node), "no `return <name>` found", stmt="ttl-bound")
    for rn in rets:
        v = rn.ast.value.id
        guards = [t for t in cfg.nodes if t.kind == "test" and isinstance(t.ast, ast.If) and t.ast.body and isinstance(t.ast.body[-1], ast.Raise) and cfg.edge_dominated(rn.id, {(t.id, "f")})
                  and any(a == A(v, ">", "MAX_TTL") for a in atoms(normalise_compare(t.ast.test)))]
        rep.check(bool(guards), rule, ft.qualname, where(ft, rn.ast), f"every path to `return {v}` refuses {v} > MAX_TTL",
                  f"`return {v}` is reachable without passing `if {v} > MAX_TTL: raise BadTTL` (e.g. only the plain-decimal arm is bounded): '7102w' is returned as a TTL above 2**32-1, "
                  "which later fails in struct.pack / Rdataset.update_ttl with an error outside the syntax-error family", stmt="ttl-bound")



def check_text_name_triple(model, rep, rule):
    """Every text reader hands origin, relativize and relativize_to to each name-reading call (shared with C01: a name read from text is the inverse of its text form only for the relativity the caller chose)."""
    # ---------------------------------------------------------------- R-05.6
    TRIPLE = ("origin", "relativize", "relativize_to")
    takes = {f.node.name for f in model.all_functions() if "relativize_to" in f.params()}
    n_nm = 0
    for f in sorted(model.all_functions(), key=lambda g: g.qualname):
        if not (f.module.name.startswith("dns.rdtypes") or f.module.name == "dns.rdata") or not all(p in f.params() for p in TRIPLE):
            continue
        for c in ast.walk(f.node):
            if not (isinstance(c, ast.Call) and isinstance(c.func, ast.Attribute) and c.func.attr in takes and c.func.attr in ("get_name", "as_name", "from_text")):
                continue
            if c.func.attr == "from_text":
                tgt = model.resolve_expr(f, c.func.value)
                if tgt in model.classes:
                    m = model.lookup_method(model.classes[tgt], "from_text")
                    if m is None or "relativize_to" not in m.params():
                        continue
                elif not (isinstance(c.func.value, ast.Name) and (c.func.value.id == "cls" or any(isinstance(a_, ast.Assign) and src(a_.targets[0]) == c.func.value.id and "get_rdata_class" in src(a_.value) for a_ in ast.walk(f.node)))):
                    continue
            n_nm += 1
            passed = {src(a) for a in c.args} | {src(k.value) for k in c.keywords}
            key = (f.qualname, src(c.func))
            role = ("<class>." + c.func.attr) if (c.func.attr == "from_text" and isinstance(c.func.value, ast.Name) and c.func.value.id not in ("cls",) and c.func.value.id[:1].islower()) else src(c.func)
            missing = [p for p in TRIPLE if p not in passed]
            if not missing:
                rep.ok(rule, f.qualname, where(f, c), f"`{src(c.func)}` receives origin, relativize, relativize_to", stmt="names " + role, nontrivial=False)
            elif key in ABSOLUTE_NAME_OK:
                rep.excepted(rule, f.qualname, where(f, c), ABSOLUTE_NAME_OK[key], stmt="names " + role)
            else:
                rep.bad(rule, f.qualname, where(f, c), f"`{src(c)[:70]}` does not pass {missing}: the name is relativized differently from the rest of the zone file "
                        "(after a $ORIGIN that differs from the zone origin it silently denotes another name)", stmt="names " + role)
    rep.floor(rule, n_nm, 24)

def run(model, rep, tier):
    iv = Intervals(model)
    # ---------------------------------------------------------------- R-05.1 widths
    n_args = 0
    for (f, ci) in _encoders(model):
        env = {}
        fn_locals = {x.id for x in ast.walk(f.node) if isinstance(x, ast.Name) and isinstance(x.ctx, ast.Store)}
        # local definitions in source order (straight-line approximation; re-assignments replace)
        body_nodes = [n for st in f.node.body for n in [st] + list(walk_no_nested(st))]
        asserts = {}
        for n in body_nodes:
            if isinstance(n, ast.Assign) and len(n.targets) == 1 and isinstance(n.targets[0], ast.Name):
                name = n.targets[0].id
                v = n.value
                if isinstance(v, ast.Call) and dotted(v.func) == "len":
                    r = iv.eval(f, ci, v, env)
                    env[name] = ("iv", r) if r else ("unknown", None)
                else:
                    r = iv.eval(f, ci, v, env)
                    env[name] = ("iv", r) if r else ("unknown", None)
            elif isinstance(n, ast.Assert):
                # assert l < 256 narrows l (the assert itself is accounted for as a possible failure when l is unbounded)
                for a in atoms(normalise_compare(n.test)):
                    b = int_bound_lt(a)
                    if b and b[0] in env:
                        asserts[b[0]] = b[1]
            elif isinstance(n, ast.AugAssign) and isinstance(n.target, ast.Name) and n.target.id in env:
                r = iv.eval(f, ci, ast.BinOp(left=n.target, op=n.op, right=n.value), env)
                env[n.target.id] = ("iv", r) if r else ("unknown", None)
            elif isinstance(n, ast.Call) and dotted(n.func) == "struct.pack" and n.args and isinstance(n.args[0], ast.Constant):
                fmt = n.args[0].value
                chars = [c for c in fmt if c not in "!<>=@"]
                if len(chars) != len(n.args) - 1 or any(c not in WIDTH for c in chars):
                    rep.blind("R-05.1", f.qualname, where(f, n), f"struct format {fmt!r} not understood", stmt=stmt_key(n))
                    continue
                for k_arg, (ch, a) in enumerate(zip(chars, n.args[1:])):
                    n_args += 1
                    hi_allowed = (1 << WIDTH[ch]) - 1
                    r = iv.eval(f, ci, a, env)
                    label = " ".join(src(a).split())
                    # obligations are keyed by role, not by the spelling of a local: expressions over locals are named by position
                    if any(isinstance(x, ast.Name) and x.id in fn_locals for x in ast.walk(a)):
                        key_label = f"arg {k_arg + 1} of {fmt!r}"
                    else:
                        key_label = label
                    st = f"pack {ch}: {key_label}"
                    if r is not None and isinstance(a, ast.Name) and a.id in asserts and r[1] > asserts[a.id]:
                        # an `assert l < 256` guards the pack: if l is unbounded the assert (not struct) fails
                        if r[1] > hi_allowed or r[1] == INF:
                            ex = EXC_WIDTH.get((f.qualname, key_label))
                            if ex:
                                rep.excepted("R-05.1", f.qualname, where(f, n), ex, stmt=st)
                            else:
                                rep.bad("R-05.1", f.qualname, where(f, n), f"`{label}` is only bounded by an assert ({r[0]}..{r[1]}): a record accepted by the constructor makes encoding fail with AssertionError", stmt=st)
                            continue
                    if r is not None and r[0] >= 0 and r[1] <= hi_allowed:
                        rep.ok("R-05.1", f.qualname, where(f, n), f"`{label}` in [{r[0]}, {r[1]}] fits '{ch}'", stmt=st)
                    elif (f.qualname, key_label) in EXC_WIDTH:
                        rep.excepted("R-05.1", f.qualname, where(f, n), EXC_WIDTH[(f.qualname, key_label)], stmt=st)
                    else:
                        rng = f"[{r[0]}, {r[1]}]" if r else "unbounded/unknown"
                        rep.bad("R-05.1", f.qualname, where(f, n), f"`{label}` ({rng}) is packed into '{ch}' (0..{hi_allowed}) without a validator that bounds it: a record the constructor accepts can fail to encode (struct.error)", stmt=st)
    rep.floor("R-05.1", n_args, 90)
    # prefixed_length(file, k) blocks: the body length must fit k octets -> overflow raises FormError (library error): accepted
    pl = model.func("dns._render_util.prefixed_length")
    rep.check("except OverflowError: raise dns.exception.FormError" in " ".join(src(pl.node).split()), "R-05.1", pl.qualname, where(pl, pl.node), "an over-long body under prefixed_length raises FormError (library error)",
              "prefixed_length no longer converts the overflow", stmt="prefixed-overflow")

    # ---------------------------------------------------------------- R-05.1t text producers (local implicit raisers)
    R = Resolver(model)
    E = Escape(model, R, set(model.modules), {})
    E.guard = make_guard(model)
    producers = []
    rd = model.cls("dns.rdata.Rdata")
    for ci in [rd] + model.subclasses(rd):
        for mn in ("to_styled_text",):
            if mn in ci.methods:
                producers.append(ci.methods[mn])
    for ci in model.classes.values():
        if ci.module.name in ("dns.rdtypes.util", "dns.rdtypes.svcbbase", "dns.edns", "dns.rdtypes.IN.APL", "dns.rdtypes.txtbase") and not model.is_subclass(ci, rd):
            for mn in ("to_text", "to_styled_text", "__str__"):
                if mn in ci.methods:
                    producers.append(ci.methods[mn])
    for q in ("dns.rdata._escapify", "dns.rdata._escapify_unicode", "dns.rdata._hexify", "dns.rdata._base64ify", "dns.rdata._styled_hexify", "dns.rdata._styled_base64ify", "dns.rdata._wordbreak"):
        if model.has_func(q):
            producers.append(model.func(q))
    n_prod = 0
    for f in sorted({x.qualname: x for x in producers}.values(), key=lambda x: x.qualname):
        n_prod += 1
        found = {}
        guarded_lines = set()
        for t in walk_no_nested(f.node):
            if isinstance(t, ast.Try) and any(h.type is None or src(h.type).split(".")[-1] in ("Exception", "BaseException", "UnicodeError", "UnicodeDecodeError", "ValueError") for h in t.handlers):
                for b in t.body:
                    for x in ast.walk(b):
                        if hasattr(x, "lineno"):
                            guarded_lines.add(x.lineno)
        for st in f.node.body:
            for n in [st] + list(walk_no_nested(st)):
                if isinstance(n, ast.stmt) and n.lineno not in guarded_lines:
                    for e in ([n.value] if isinstance(n, (ast.Return, ast.Expr, ast.Assign, ast.AugAssign)) and getattr(n, "value", None) is not None else
                              [n.test] if isinstance(n, (ast.If, ast.While)) else [n.iter] if isinstance(n, ast.For) else []):
                        for k, o in E._implicit(f, e, n).items():
                            found[(k[0], o.stmt)] = o
        if not found:
            rep.ok("R-05.1t", f.qualname, where(f, f.node), "no operation that can raise for a validated field", stmt="producer", nontrivial=False)
        f_locals = {x.id for x in ast.walk(f.node) if isinstance(x, ast.Name) and isinstance(x.ctx, ast.Store)} - set(f.params())
        for (exc, stext), o in sorted(found.items()):
            # keyed by role: the spelling of a local never matters
            stext = re.sub(r"(?<![\w.])([A-Za-z_]\w*)", lambda m_: "_" if m_.group(1) in f_locals else m_.group(1), stext)
            st = f"{exc} <- {stext}"
            # decode() of an ASCII-only producer
            if exc == "UnicodeError?" and any(p + "(" in stext for p in ASCII_PRODUCERS):
                rep.ok("R-05.1t", f.qualname, f"{f.file}:{o.line}", f"`{stext[:60]}`: decodes the ASCII output of a hex/base64 encoder", stmt=st)
            elif exc == "UnicodeError?" and (".encode(" in stext) and stext.split(".encode(")[0] in ("separator", "qstring", "text", "s"):
                rep.ok("R-05.1t", f.qualname, f"{f.file}:{o.line}", f"`{stext[:60]}`: encodes a str built by this module", stmt=st)
            elif (f.qualname, stext) in EXC_TEXT:
                rep.excepted("R-05.1t", f.qualname, f"{f.file}:{o.line}", EXC_TEXT[(f.qualname, stext)], stmt=st)
            elif exc == "UnicodeError?" and f.qualname == "dns.rdata._wordbreak" and "separator.join(" in stext:
                rep.excepted("R-05.1t", f.qualname, f"{f.file}:{o.line}", "joins chunks of ASCII hex/base64 data with this module's separator", stmt=st)
            elif exc == "LookupError" and f.qualname == "dns.rdtypes.ANY.LOC.LOC.to_styled_text" and stext.startswith(("self.latitude[", "self.longitude[")):
                rep.excepted("R-05.1t", f.qualname, f"{f.file}:{o.line}", "coordinates are 5-tuples validated by _check_coordinate_list in the constructor", stmt=st)
            elif exc == "ValueError" and stext.startswith("chr(") :
                rep.ok("R-05.1t", f.qualname, f"{f.file}:{o.line}", "chr() of an octet (0..255)", stmt=st)
            else:
                rep.bad("R-05.1t", f.qualname, f"{f.file}:{o.line}", f"`{stext[:70]}` can raise {exc.rstrip('?')} while producing text for a record the library accepted", stmt=st)
    rep.floor("R-05.1t", n_prod, 70)

    # ---------------------------------------------------------------- R-05.2
    rm = model.module("dns.rdata")
    esc = model.const(rm, rm.assigns["_escaped"])
    ef = model.func("dns.rdata._escapify")
    raw_lo = raw_hi = None
    fmts = []
    for n in ast.walk(ef.node):
        if isinstance(n, ast.If):
            nc = normalise_compare(n.test)
            if nc[0] == "and":
                lo = [int_bound_gt(a) for a in atoms(nc) if int_bound_gt(a) and int_bound_gt(a)[0].isidentifier()]
                hi = [int_bound_lt(a) for a in atoms(nc) if int_bound_lt(a) and int_bound_lt(a)[0].isidentifier()]
                if lo and hi and lo[0][0] == hi[0][0]:
                    raw_lo, raw_hi = lo[0][1], hi[0][1]
        if isinstance(n, ast.FormattedValue) and n.format_spec is not None:
            fmts.append(src(n.format_spec).lstrip("f"))
    if raw_lo is None:
        raise AnalysisError("dns.rdata._escapify: raw range test not found")
    raw = set(range(raw_lo, raw_hi + 1)) - set(esc)
    tk = model.module("dns.tokenizer")
    qd = {ord(c) for c in model.const(tk, tk.assigns["_QUOTING_DELIMITERS"])}
    special = qd | {ord("\\"), 0x0A} | set(range(0x80, 0x100))
    leak = sorted(special & raw)
    rep.check(not leak, "R-05.2", ef.qualname, where(ef, ef.node), f"quote, backslash, newline and octets >= 0x80 are escaped (raw range {hex(raw_lo)}..{hex(raw_hi)} minus {esc!r})",
              f"octets {[chr(c) if c < 0x7f else hex(c) for c in leak]} are written raw inside quotes but are special to the tokenizer", stmt="special-subset-escaped")
    rep.check(bool(fmts) and all(x == "'03d'" for x in fmts), "R-05.2", ef.qualname, where(ef, ef.node), "\\DDD written with exactly 3 digits", f"decimal escape format {fmts}", stmt="3-digits-written")
    # the code-point variant used with txt_is_utf8: a decimal escape may only be produced for code points the reader can take back as one octet
    uf = model.func("dns.rdata._escapify_unicode")
    ucfg = CFG(uf.node, implicit_exc=False)
    arms = [n for n in ucfg.stmts() if any(isinstance(e, ast.FormattedValue) and e.format_spec is not None and "ord(" in src(e.value) for e in own_nodes(n.ast))]
    if not arms:
        rep.blind("R-05.2", uf.qualname, where(uf, uf.node), "decimal-escape arm of _escapify_unicode not found", stmt="unicode-ddd-bounded")
    for arm in arms:
        ks = []
        for t_ in ucfg.nodes:
            if t_.kind == "test" and isinstance(t_.ast, ast.If) and ucfg.edge_dominated(arm.id, {(t_.id, "f")}):
                nc = normalise_compare(t_.ast.test)
                if nc[0] == "atom" and int_bound_gt(nc[1]) and int_bound_gt(nc[1])[0].startswith("ord("):
                    ks.append(int_bound_gt(nc[1])[1])
        rep.check(bool(ks) and min(ks) <= 256, "R-05.2", uf.qualname, where(uf, arm.ast), f"\\DDD is produced only for code points below {min(ks) if ks else '?'}",
                  "_escapify_unicode writes \\DDD for code points not bounded below 256 (the arm is not the else of an `ord(c) >= K` test): the reader takes \\DDD as one octet <= 255, so such text "
                  "parses to a different record or not at all", stmt="unicode-ddd-bounded")
        fm = [src(e.format_spec).lstrip("f") for e in own_nodes(arm.ast) if isinstance(e, ast.FormattedValue) and e.format_spec is not None]
        rep.check(all(x == "'03d'" for x in fm), "R-05.2", uf.qualname, where(uf, arm.ast), "\\DDD written with exactly 3 digits", f"decimal escape format {fm}", stmt="unicode-3-digits")
    for qn in ("dns.tokenizer.Token.unescape", "dns.tokenizer.Token.unescape_to_bytes"):
        f = model.func(qn)
        t = " ".join(src(f.node).split())
        e3 = pat.Env()
        rep.check(pat.has(f.node, "__cp = int(__c1) * 100 + int(__c2) * 10 + int(__c3)\nif __cp > 255:\n    raise dns.exception.SyntaxError", e3) and len({e3["__c1"], e3["__c2"], e3["__c3"]}) == 3, "R-05.2", qn, where(f, f.node), "\\DDD read as exactly 3 digits, <= 255",
                  "\\DDD decoding changed", stmt="3-digits-read")
    ub = model.func("dns.tokenizer.Token.unescape_to_bytes")
    t = " ".join(src(ub.node).split())
    e1 = pat.Env()
    rep.check(pat.has(ub.node, "__cp = int(__c1) * 100 + int(__c2) * 10 + int(__c3)", e1) and (pat.has(ub.node, "__u += b'%c' % __cp", e1) or pat.has(ub.node, "__u += bytes([__cp])", e1) or pat.has(ub.node, "__u += struct.pack('!B', __cp)", e1)), "R-05.2", ub.qualname, where(ub, ub.node), "a decimal escape yields exactly one octet", "unescape_to_bytes no longer yields one octet per \\DDD", stmt="one-octet")
    tg = model.func("dns.tokenizer.Tokenizer.get")
    t = " ".join(src(tg.node).split())
    rep.check(pat.has(tg.node, "if self.quoting and __c == '\\n':\n    raise dns.exception.SyntaxError(...)"), "R-05.2", tg.qualname, where(tg, tg.node), "a raw newline inside quotes is refused", "newline handling in quoted strings changed", stmt="newline-in-quotes")

    # ---------------------------------------------------------------- R-05.3
    n_pairs = 0
    for ci in sorted([rd] + model.subclasses(rd), key=lambda c: c.qualname):
        ts = ci.methods.get("to_styled_text")
        ft = model.lookup_method(ci, "from_text")
        if ts is None or ft is None or ft.cls is rd:
            continue
        fields = []
        for c in ast.walk(ts.node):
            if isinstance(c, ast.Call) and (dotted(c.func) or "").endswith("rdata._escapify") and c.args and isinstance(c.args[0], ast.Attribute) and src(c.args[0].value) == "self":
                fields.append(c.args[0].attr)
        if not fields:
            continue
        init = model.lookup_method(ci, "__init__")
        for fld in sorted(set(fields)):
            n_pairs += 1
            # the local of from_text that feeds this field: same name (repo convention), else positional via __init__
            local = _feeding_local(init, ft, fld) or fld
            defs = [n.value for n in walk_no_nested(ft.node) if isinstance(n, ast.Assign) and any(isinstance(t, ast.Name) and t.id == local for t in n.targets)]
            con = f"{ci.qualname}.{fld}"
            if not defs:
                rep.blind("R-05.3", con, where(ft, ft.node), f"cannot find how from_text obtains `{fld}`", stmt="pairing")
                continue
            txts = [" ".join(src(d).split()) for d in defs]
            cp = [x for x in txts if "get_string(" in x or ".unescape()" in x]
            txt = cp[0] if cp else txts[-1]
            if "unescape_to_bytes" in txt and not cp:
                rep.ok("R-05.3", con, where(ft, defs[-1]), f"printed with _escapify, parsed with unescape_to_bytes ({txt[:50]})", stmt="pairing")
            elif cp:
                # ASCII-restricted fields are safe: code points == octets
                ascii_only = any(isinstance(x, ast.Call) and isinstance(x.func, ast.Attribute) and x.func.attr in ("isalnum", "isascii") and fld in src(x) for x in ast.walk(init.node)) if init else False
                if ascii_only:
                    rep.ok("R-05.3", con, where(ft, defs[-1]), "parsed through code points but the constructor restricts the field to ASCII alphanumerics", stmt="pairing")
                else:
                    rep.bad("R-05.3", con, where(ft, defs[-1]), f"`{fld}` is printed octet-wise (dns.rdata._escapify) but parsed through `{txt[:50]}` (code points): \\DDD >= 128 comes back as two UTF-8 octets, so text does not parse back to an equal record", stmt="pairing")
            else:
                rep.blind("R-05.3", con, where(ft, defs[-1]), f"unrecognised parse of `{fld}`: {txt[:60]}", stmt="pairing")
    rep.floor("R-05.3", n_pairs, 8)

    # ---------------------------------------------------------------- R-05.4
    ft = model.func("dns.rdata.from_text")
    ws = [w for w in ast.walk(ft.node) if isinstance(w, ast.With) and any("ExceptionWrapper" in src(i.context_expr) for i in w.items)]
    t = " ".join(src(ws[0]).split()) if ws else ""
    eg = pat.Env()
    rep.check(bool(ws) and pat.has(ws[0], "__g = GenericRdata.from_text(...)", eg) and pat.has(ws[0], "__rd = from_wire(rdclass, rdtype, __g.data, 0, len(__g.data), ___o)\n__rw = __rd.to_wire(origin=___o)\nif __rw != __g.data:\n    raise dns.exception.SyntaxError(...)", eg), "R-05.4", ft.qualname, where(ft, ft.node),
              "\\# for a known type: generic parse, re-decode with the type's reader, re-encode and compare, all inside the wrapper", "generic-form handling for known types changed", stmt="generic-known")
    # the generic form of a known type is relativized exactly like the type's own text form: not at all unless `relativize`, and then against relativize_to (else origin)
    og = eg.get("___o", "")
    e5 = pat.Env()
    okk = bool(ws) and og.isidentifier() and og not in ("origin",) and pat.has(ws[0], f"{og} = None\nif relativize:\n    {og} = relativize_to if relativize_to is not None else origin", e5)
    rep.check(okk, "R-05.4", ft.qualname, where(ft, ws[0] if ws else ft.node), "the generic payload is decoded with no origin unless `relativize`, then with relativize_to (else origin)",
              f"the generic payload of a known type is decoded against `{og or '?'}` whatever relativize / relativize_to say: with relativize=False (or a relativize_to different from the origin) "
              "the names of a record given in \\# syntax come out with another relativity than the same record in its ordinary text form", stmt="generic-relativity")
    gt = model.func("dns.rdata.GenericRdata.from_text")
    t = " ".join(src(gt.node).split())
    e2 = pat.Env()
    rep.check(pat.has(gt.node, "__tk = tok.get()\nif not __tk.is_identifier() or __tk.value != '\\\\#':\n    raise dns.exception.SyntaxError(...)\n__len = tok.get_int()", e2) and pat.has(gt.node, "if len(__data) != __len:\n    raise dns.exception.SyntaxError(...)\nreturn cls(rdclass, rdtype, __data)", e2), "R-05.4", gt.qualname, where(gt, gt.node),
              "generic form = \\# length hex, with the length checked", "generic form parsing changed", stmt="generic-shape")
    gs = model.func("dns.rdata.GenericRdata.to_styled_text")
    rep.check("\\\\# " in src(gs.node) and "len(self.data)" in src(gs.node), "R-05.4", gs.qualname, where(gs, gs.node), "generic text = \\# length hex", "generic text production changed", stmt="generic-text")
    check_text_name_triple(model, rep, "R-05.6")

    # ---------------------------------------------------------------- R-05.5
    check_validators(model, rep, "R-05.5")
    rep.assume("constructor validators (Rdata._as_*) are the only way fields are set (C07 R-07.2); float fields are outside the interval evaluator")
    rep.share(model, "C01", {"R-01.5", "R-01.7"}, "R-05.7", "every embedded name of a record is rendered through Name.to_styled_text with the style's origin")
    # the two Bitmap widths excepted above rest on Bitmap.__init__'s refusals: decide them (an earlier version of this table quoted `window > 256` and waved it through)
    bi = model.func("dns.rdtypes.util.Bitmap.__init__")
    lim = {}
    for n in ast.walk(bi.node):
        if isinstance(n, ast.If) and any(isinstance(b, ast.Raise) for b in n.body):
            for a in atoms(normalise_compare(n.test)):
                try:
                    if a[1] == ">" and a[2].lstrip("-").isdigit():
                        lim[a[0]] = min(lim.get(a[0], 10 ** 9), int(a[2]))
                    elif a[1] == ">=" and a[2].lstrip("-").isdigit():
                        lim[a[0]] = min(lim.get(a[0], 10 ** 9), int(a[2]) - 1)
                except ValueError:
                    pass
    wvar = next((e.id for l_ in ast.walk(bi.node) if isinstance(l_, ast.For) and isinstance(l_.target, ast.Tuple) for e in l_.target.elts[:1] if isinstance(e, ast.Name)), None)
    bvar = next((e.id for l_ in ast.walk(bi.node) if isinstance(l_, ast.For) and isinstance(l_.target, ast.Tuple) for e in l_.target.elts[1:2] if isinstance(e, ast.Name)), None)
    rep.check(wvar is not None and lim.get(wvar, 10 ** 9) <= 255 and lim.get(f"len({bvar})", 10 ** 9) <= 255, "R-05.1", bi.qualname, where(bi, bi.node),
              f"windows above {lim.get(wvar)} and bitmaps longer than {lim.get(f'len({bvar})')} octets are refused: both fit the '!BB' header",
              f"Bitmap.__init__ accepts windows up to {lim.get(wvar)} (and bitmaps up to {lim.get(f'len({bvar})')} octets): window 256 passes the constructor and Bitmap.to_wire then raises struct.error "
              "packing it into one octet", stmt="bitmap-window-bound")
    # ---------------------------------------------------------------- R-05.8
    multibit = {}
    for ci in model.classes.values():
        if not ci.module.name.startswith("dns.rdtypes") or not any("Enum" in (b or "") or "Flag" in (b or "") for c in ci.mro for b in getattr(c, "external_bases", [])):
            if not ci.module.name.startswith("dns.rdtypes"):
                continue
        for k, v in model.enum_members(ci).items():
            if isinstance(v, int) and not isinstance(v, bool) and bin(v).count("1") > 1:
                multibit[f"{ci.name}.{k}"] = v
    n_mb = 0
    for f8 in sorted(model.all_functions(), key=lambda g: g.qualname):
        if not f8.module.name.startswith("dns.rdtypes"):
            continue
        for n in ast.walk(f8.node):
            if not isinstance(n, (ast.If, ast.While, ast.IfExp, ast.Assert)):
                continue
            for a in atoms(normalise_compare(n.test)):
                if a[1] not in ("truthy", "falsy"):
                    continue
                try:
                    e = ast.parse(a[0], mode="eval").body
                except SyntaxError:
                    continue
                if isinstance(e, ast.BinOp) and isinstance(e.op, ast.BitAnd):
                    for side in (e.left, e.right):
                        key = ".".join(src(side).split(".")[-2:])
                        if key in multibit:
                            n_mb += 1
                            rep.bad("R-05.8", f8.qualname, where(f8, n), f"`{a[0]}` is tested by truth value, but {key} = {multibit[key]:#x} has {bin(multibit[key]).count('1')} bits set: the test is true when ANY of them is set, "
                                    "so field values that share one bit with it are treated like it (text written for them does not parse back)", stmt=f"multibit-truth {key}")
    rep.floor("R-05.8-multibit-members", len(multibit), 5)
    rep.ok("R-05.8", "dns.rdtypes", "-", f"{len(multibit)} multi-bit enum members; none is and-ed and tested by truth value", stmt="multibit-members")
    # ---------------------------------------------------------------- R-05.9
    n_ch = 0
    CHUNKERS = ("_styled_hexify", "_styled_base64ify", "_hexify", "_base64ify")
    for f9 in sorted(model.all_functions(), key=lambda g: g.qualname):
        if f9.name != "to_styled_text" or not (f9.module.name.startswith("dns.rdtypes") or f9.module.name == "dns.rdata"):
            continue
        restyled = any(isinstance(x, ast.Assign) and any(src(t_) == "style" for t_ in x.targets) for x in ast.walk(f9.node))

        def chunked(c):
            if not (isinstance(c, ast.Call) and src(c.func).split(".")[-1] in CHUNKERS):
                return False
            nm = src(c.func).split(".")[-1]
            if nm.startswith("_styled"):
                return len(c.args) >= 2 and src(c.args[1]) == "style" and not restyled
            if len(c.args) >= 2 and isinstance(c.args[1], ast.Constant) and c.args[1].value == 0:
                return False
            sep = c.args[2] if len(c.args) >= 3 else next((k.value for k in c.keywords if k.arg == "separator"), None)
            return not (isinstance(sep, ast.Constant) and isinstance(sep.value, (str, bytes)) and sep.value.strip())
        locs = {t_.id for x in ast.walk(f9.node) if isinstance(x, ast.Assign) and chunked(x.value) for t_ in x.targets if isinstance(t_, ast.Name)}
        calls = [c for c in ast.walk(f9.node) if chunked(c)]
        if not calls:
            continue

        def parts(e):
            if isinstance(e, ast.JoinedStr):
                out = []
                for v in e.values:
                    out += parts(v.value) if isinstance(v, ast.FormattedValue) else [v]
                return out
            if isinstance(e, ast.BinOp) and isinstance(e.op, ast.Add):
                return parts(e.left) + parts(e.right)
            return [e]
        for c in calls:
            n_ch += 1
        uses = [x for x in ast.walk(f9.node) if isinstance(x, ast.Name) and isinstance(x.ctx, ast.Load) and x.id in locs]
        rets = [r for r in ast.walk(f9.node) if isinstance(r, ast.Return) and r.value is not None]
        in_ret = set()
        okk, why = True, ""
        for r in rets:
            ps = parts(r.value)
            idx = [i for i, p_ in enumerate(ps) if (isinstance(p_, ast.Name) and p_.id in locs) or chunked(p_)]
            for i in idx:
                in_ret.add(id(ps[i]))
                later = [p_ for p_ in ps[i + 1:] if not (isinstance(p_, ast.Constant) and isinstance(p_.value, str) and not p_.value.strip())]
                if later:
                    okk, why = False, f"`{src(ps[i])[:40]}` is followed by `{src(later[0])[:30]}` in `{src(r.value)[:60]}`"
        # text appended to the returned accumulator (`text += f" {...}"` ... `return text`) is the tail of the text form
        ret_names = {r.value.id for r in rets if isinstance(r.value, ast.Name)}
        augs = sorted([x for x in ast.walk(f9.node) if isinstance(x, ast.AugAssign) and isinstance(x.op, ast.Add) and isinstance(x.target, ast.Name) and x.target.id in ret_names], key=lambda x: x.lineno)
        for ai, ag in enumerate(augs):
            ps = parts(ag.value)
            idx = [i for i, p_ in enumerate(ps) if (isinstance(p_, ast.Name) and p_.id in locs) or chunked(p_)]
            for i in idx:
                in_ret.add(id(ps[i]))
                later = [p_ for p_ in ps[i + 1:] if not (isinstance(p_, ast.Constant) and isinstance(p_.value, str) and not p_.value.strip())]
                if later or any(a2.target.id == ag.target.id for a2 in augs[ai + 1:]):
                    okk, why = False, f"`{src(ps[i])[:40]}` is appended to `{ag.target.id}` but more text follows it"
        stray = [u for u in uses if id(u) not in in_ret] + [c for c in calls if id(c) not in in_ret and not any(isinstance(x, ast.Assign) and x.value is c for x in ast.walk(f9.node))]
        if stray and okk:
            rep.blind("R-05.9", f9.qualname, where(f9, stray[0]), f"chunked value used outside the returned text (`{src(stray[0])[:40]}`): position in the text form not determined", stmt="chunked-last")
        else:
            rep.check(okk, "R-05.9", f9.qualname, where(f9, f9.node), "the chunked field is the last field of the text form",
                      f"{why}: with the default style a long value is broken into space-separated chunks, and only the LAST field is read back with concatenate_remaining_identifiers - "
                      "the chunks of a middle field are read as the following fields, so the text does not parse back", stmt="chunked-last")
        # the reader's side: the chunks of that last field come back as several tokens
        if okk and not stray and f9.cls is not None:
            ft9 = next((k.methods["from_text"] for k in f9.cls.mro if hasattr(k, "methods") and "from_text" in k.methods), None)
            if ft9 is not None:
                joins = [c for c in ast.walk(ft9.node) if isinstance(c, ast.Call) and isinstance(c.func, ast.Attribute) and c.func.attr in ("concatenate_remaining_identifiers", "get_remaining")]
                rep.check(bool(joins), "R-05.9", ft9.qualname, where(ft9, ft9.node), "the reader joins the remaining tokens of the chunked last field",
                          f"{f9.qualname} prints its last field in chunks, but {ft9.qualname} reads it without concatenate_remaining_identifiers()/get_remaining(): "
                          "only the first chunk is read and the rest is a syntax error (any value longer than one chunk, or any smaller chunk size)", stmt="chunked-reader")
    rep.floor("R-05.9", n_ch, 10)
    wb5 = model.func("dns.rdata._wordbreak")
    rep.check(pat.has_expr(wb5.node, "[___d[__i:__i + ___c] for __i in range(0, len(___d), ___c)]"), "R-05.9", wb5.qualname, where(wb5, wb5.node), "chunks cover range(0, len(data), chunksize)",
              "_wordbreak no longer slices data[i:i+chunksize] for i in range(0, len(data), chunksize): for some lengths the last octets of a chunked hex/base64 field are dropped and the text parses to another record "
              "(or not at all)", stmt="wordbreak-covers")
    # ---------------------------------------------------------------- R-05.10
    fk = model.func("dns.style.BaseStyle.from_keywords")
    base = model.cls("dns.style.BaseStyle")
    fields = set()
    for ci in [base] + list(model.subclasses(base)):
        for st in ci.node.body:
            if isinstance(st, ast.AnnAssign) and isinstance(st.target, ast.Name):
                fields.add(st.target.id)
    n_kw = 0
    for x in ast.walk(fk.node):
        if isinstance(x, ast.Assign) and isinstance(x.targets[0], ast.Subscript) and isinstance(x.targets[0].slice, ast.Constant) and isinstance(x.targets[0].slice.value, str):
            n_kw += 1
            key = x.targets[0].slice.value
            rep.check(key in fields, "R-05.10", fk.qualname, where(fk, x), f"`{key}` is a style field",
                      f"from_keywords passes `{key}=` to the style constructor, but no style class declares such a field: to_text(separator=...) / to_text(chunksize=...) raise TypeError "
                      f"instead of producing text (declared: {sorted(f_ for f_ in fields if 'chunk' in f_)})", stmt=f"style-keyword {key}")
    rep.floor("R-05.10", n_kw, 4)
    rep.floor("R-05.10-fields", len(fields), 15)
    # ---------------------------------------------------------------- R-05.11
    def _enum_max(ci):
        for k in ci.mro:
            if hasattr(k, "methods") and "_maximum" in k.methods:
                for r_ in ast.walk(k.methods["_maximum"].node):
                    if isinstance(r_, ast.Return) and r_.value is not None:
                        try:
                            return int(model.const(k.module, r_.value))
                        except (AnalysisError, TypeError, ValueError):
                            return None
        return None

    def _enum_of_callee(fq):
        if fq is None:
            return None
        if fq.rsplit(".", 1)[0] in model.classes:
            return model.classes[fq.rsplit(".", 1)[0]]
        fn_ = model.functions.get(fq)
        if fn_ is None:
            return None
        for c_ in ast.walk(fn_.node):
            if isinstance(c_, ast.Call) and isinstance(c_.func, ast.Attribute) and c_.func.attr == "to_text":
                k = model.classes.get(model.resolve_expr(fn_, c_.func.value))
                if k is not None:
                    return k
        return None
    n_en = 0
    for f11 in sorted(model.all_functions(), key=lambda g: g.qualname):
        if f11.name != "to_styled_text" or not f11.module.name.startswith("dns.rdtypes") or f11.cls is None:
            continue
        for c in ast.walk(f11.node):
            if not (isinstance(c, ast.Call) and isinstance(c.func, ast.Attribute) and c.func.attr == "to_text" and c.args and isinstance(c.args[0], ast.Attribute) and src(c.args[0].value) == "self"):
                continue
            E = _enum_of_callee(model.resolve_expr(f11, c.func))
            emax = _enum_max(E) if E is not None else None
            fld = c.args[0].attr
            def _stores(fn_):
                return [x for x in ast.walk(fn_.node) if isinstance(x, (ast.Assign, ast.AnnAssign)) and x.value is not None
                        and any(src(t_) == "self." + fld for t_ in (x.targets if isinstance(x, ast.Assign) else [x.target]))]
            init = next((k.methods["__init__"] for k in f11.cls.mro if hasattr(k, "methods") and "__init__" in k.methods and _stores(k.methods["__init__"])), None)
            if E is None or emax is None or init is None:
                rep.blind("R-05.11", f11.qualname, where(f11, c), f"`{src(c)[:50]}`: enum / maximum / constructor store of self.{fld} not identified", stmt=f"enum-text {fld}")
                continue
            n_en += 1
            for x in _stores(init):
                if True:
                    v = x.value
                    bound, how = None, src(v)[:50]
                    if isinstance(v, ast.Call) and isinstance(v.func, ast.Attribute) and v.func.attr == "make":
                        k = model.classes.get(model.resolve_expr(init, v.func.value))
                        bound = _enum_max(k) if k is not None else None
                    elif isinstance(v, ast.Call) and isinstance(v.func, ast.Attribute) and re.fullmatch(r"_as_uint(\d+)", v.func.attr):
                        bound = 2 ** int(re.fullmatch(r"_as_uint(\d+)", v.func.attr).group(1)) - 1
                    elif isinstance(v, ast.Call) and isinstance(v.func, ast.Attribute) and v.func.attr in ("_as_rdatatype", "_as_rdataclass"):
                        bound = 65535
                    if bound is None:
                        rep.blind("R-05.11", f11.qualname, where(init, x), f"self.{fld} = `{how}`: bound not identified", stmt=f"enum-text {fld}")
                    else:
                        rep.check(bound <= emax, "R-05.11", f11.qualname, where(init, x), f"self.{fld} <= {bound} is printable by {E.name}.to_text (maximum {emax})",
                                  f"self.{fld} is built by `{how}` (values up to {bound}) but printed with {E.name}.to_text, which raises ValueError above {emax}: "
                                  "a record accepted from the wire cannot be turned into text", stmt=f"enum-text {fld}")
    rep.floor("R-05.11", n_en, 5)
    # ---------------------------------------------------------------- R-05.13
    lt = model.func("dns.rdtypes.ANY.LOC.LOC.to_styled_text")
    tails = [n for n in ast.walk(lt.node) if isinstance(n, ast.If) and sum(1 for a in atoms(normalise_compare(n.test)) if a[1] == "!=" and "_default_" in (a[2] + a[0])) >= 2]
    if len(tails) != 1:
        rep.blind("R-05.13", lt.qualname, where(lt, lt.node), "the guard of the optional size/precision tail (`x != _default_x or ...`) was not found", stmt="optional-tail")
    else:
        nc13 = normalise_compare(tails[0].test)
        flds = sorted(a[0] for a in atoms(nc13))
        printed = sorted({src(x) for b in tails[0].body for x in ast.walk(b) if isinstance(x, ast.Attribute) and src(x.value) == "self"})
        rep.check(nc13[0] == "or" and all(a[1] == "!=" for a in atoms(nc13)) and set(flds) == set(printed), "R-05.13", lt.qualname, where(lt, tails[0]),
                  f"the tail {printed} is printed as soon as any of them differs from its default",
                  f"the tail {printed} is printed under `{src(tails[0].test)[:80]}` - not a plain `or` of one `!= default` test per printed field: a record where only some of them are non-default "
                  "loses them in text and parses back to a different record", stmt="optional-tail")
    # ---------------------------------------------------------------- R-05.12
    n3 = model.func("dns.rdtypes.ANY.NSEC3.NSEC3.from_text")
    e12 = pat.Env()
    hit12 = pat.find(n3.node, "if len(__next) % ___M != 0:\n    __next += ___pad * (___N - len(__next) % ___K)", e12)
    if hit12 is None:
        rep.blind("R-05.12", n3.qualname, where(n3, n3.node), "the padding step `if len(x) % M != 0: x += b'=' * (N - len(x) % K)` before b32decode was not found", stmt="base32-quantum")
    else:
        try:
            M, N, K = (int(model.const(n3.module, ast.parse(e12["___" + k], mode="eval").body)) for k in "MNK")
            rep.check(M == N == K == 8 and pat.has_expr(n3.node, "base64.b32decode(...)"), "R-05.12", n3.qualname, where(n3, hit12[0][hit12[1]]), "padded to a multiple of 8 characters before b32decode",
                      f"the base32 text is padded with modulus {M}/{N}/{K}, not 8: next-hash values whose length is 1 or 2 (mod 5) octets (e.g. 16, 32) are written by to_text but refused by from_text "
                      "('Incorrect padding')", stmt="base32-quantum")
        except (AnalysisError, KeyError, ValueError) as e:
            rep.blind("R-05.12", n3.qualname, where(n3, n3.node), f"padding constants not foldable: {e}", stmt="base32-quantum")
    from rules.c09 import check_generic_origin
    check_generic_origin(model, rep, "R-05.14")
    # ---------------------------------------------------------------- R-05.15
    n15 = 0
    for f15 in sorted(model.all_functions(), key=lambda g: g.qualname):
        if f15.module.name != "dns.rdtypes.ANY.LOC":
            continue
        defs15 = {}
        for x in ast.walk(f15.node):
            if isinstance(x, ast.Assign) and len(x.targets) == 1 and isinstance(x.targets[0], ast.Name):
                defs15.setdefault(x.targets[0].id, []).append(x.value)
            elif isinstance(x, (ast.AugAssign, ast.For, ast.With, ast.NamedExpr)):
                for t_ in ast.walk(x.target if isinstance(x, (ast.AugAssign, ast.For, ast.NamedExpr)) else ast.Tuple(elts=[i_.optional_vars for i_ in x.items if i_.optional_vars is not None], ctx=ast.Store())):
                    if isinstance(t_, ast.Name):
                        defs15.setdefault(t_.id, []).append(None)
        params15 = set(f15.params())

        def is_int(e, depth=0):
            if depth > 6:
                return False
            if isinstance(e, ast.Constant):
                return isinstance(e.value, int) and not isinstance(e.value, bool)
            if isinstance(e, ast.Call) and dotted(e.func) in ("int", "round", "len", "ord") and (dotted(e.func) != "round" or len(e.args) == 1):
                return True
            if isinstance(e, ast.BinOp) and isinstance(e.op, ast.FloorDiv):
                return True
            if isinstance(e, ast.BinOp) and isinstance(e.op, (ast.Add, ast.Sub, ast.Mult, ast.Mod)):
                return is_int(e.left, depth + 1) and is_int(e.right, depth + 1)
            if isinstance(e, ast.UnaryOp):
                return is_int(e.operand, depth + 1)
            if isinstance(e, ast.Name) and e.id not in params15 and e.id in defs15:
                return all(v is not None and is_int(v, depth + 1) for v in defs15[e.id])
            return False

        for c15 in ast.walk(f15.node):
            if isinstance(c15, ast.Call) and dotted(c15.func) == "int" and len(c15.args) == 1:
                n15 += 1
                prods = [b for b in ast.walk(c15.args[0]) if isinstance(b, ast.BinOp) and isinstance(b.op, (ast.Mult, ast.Div))]
                inside_round = isinstance(c15.args[0], ast.Call) and dotted(c15.args[0].func) == "round"
                badp = [b for b in prods if not (is_int(b.left) and is_int(b.right) and not isinstance(b.op, ast.Div))]
                if badp and not inside_round:
                    rep.bad("R-05.15", f15.qualname, where(f15, c15), f"`{src(c15)[:60]}` truncates a scaled value that need not be an integer (`{src(badp[0])[:40]}`): float products sit a hair below the integer for a few percent of the values, "
                            "so the text shows one unit less than the wire holds and does not parse back to the same record", stmt="truncated-product")
    rep.floor("R-05.15", n15, 12)
    rep.ok("R-05.15", "dns.rdtypes.ANY.LOC", "dns/rdtypes/ANY/LOC.py", f"{n15} int() conversions: none truncates a float product", stmt="truncated-product")
    from rules.c02 import check_rdata_class_dispatch
    check_rdata_class_dispatch(model, rep, "R-05.16")
    rep.meta["explanation"] = (
        "Interval evaluation of every struct.pack argument in ~60 wire encoders against the ranges established by constructor validators (field table read from __init__), a local scan of every text "
        "producer for operations that can raise on validated data, folded escape-table comparison for quoted strings, and a per-field check that octet-wise printing is paired with octet-wise parsing. "
        "Equality after parse for all field values and field order agreement between to_styled_text and from_text are NOT decided.")


WITNESSES = [
    {"id": "c05-tsig-other-data-chunked", "rule": "R-05.9", "file": "dns/rdtypes/ANY/TSIG.py", "expect": "fires",
     "old": '            text += f" {dns.rdata._base64ify(self.other, 0)}"', "new": '            text += f" {dns.rdata._base64ify(self.other)}"'},
    {"id": "c05-loc-float-truncated", "rule": "R-05.15", "file": "dns/rdtypes/ANY/LOC.py", "expect": "fires",
     "old": "    what = round(what * 3600000)", "new": "    what = int(what * 3600000)"},
    {"id": "c05-twin-loc-float-int-round", "rule": "R-05.15", "file": "dns/rdtypes/ANY/LOC.py", "expect": "silent",
     "old": "    what = round(what * 3600000)", "new": "    what = int(round(what * 3600000))"},
    {"id": "c05-loc-tail-needs-all-non-default", "rule": "R-05.13", "file": "dns/rdtypes/ANY/LOC.py", "expect": "fires",
     "old": "            or self.horizontal_precision != _default_hprec\n            or self.vertical_precision != _default_vprec", "new": "            and self.horizontal_precision != _default_hprec\n            and self.vertical_precision != _default_vprec"},
    {"id": "c05-bitmap-window-256-accepted", "rule": "R-05.1", "file": "dns/rdtypes/util.py", "expect": "fires",
     "old": "            if window > 255:", "new": "            if window > 256:"},
    {"id": "c05-nsec3-padding-modulus-4", "rule": "R-05.12", "file": "dns/rdtypes/ANY/NSEC3.py", "expect": "fires",
     "old": "        if len(next) % 8 != 0:\n            next += b\"=\" * (8 - len(next) % 8)", "new": "        if len(next) % 4 != 0:\n            next += b\"=\" * (4 - len(next) % 4)"},
    {"id": "c05-sshfp-reader-single-token", "rule": "R-05.9", "file": "dns/rdtypes/ANY/SSHFP.py", "expect": "fires",
     "old": "        fingerprint = tok.concatenate_remaining_identifiers().encode()\n", "new": "        fingerprint = tok.get_identifier().encode()\n"},
    {"id": "c05-tsig-error-wider-than-rcode", "rule": "R-05.11", "file": "dns/rdtypes/ANY/TSIG.py", "expect": "fires",
     "old": "        self.error = dns.rcode.Rcode.make(error)", "new": "        self.error = self._as_uint16(error)"},
    {"id": "c05-style-keyword-unknown-field", "rule": "R-05.10", "file": "dns/style.py", "expect": "fires",
     "old": "                ok_kw[\"hex_chunk_size\"] = v", "new": "                ok_kw[\"hex_chunksize\"] = v"},
    {"id": "c05-key-nokey-any-bit", "rule": "R-05.8", "file": "dns/rdtypes/ANY/KEY.py", "expect": "fires",
     "old": "        if (flags & DNS_KEYFLAG_TYPEMASK) != LegacyFlag.NOKEY:", "new": "        if not (flags & LegacyFlag.NOKEY):"},
    {"id": "c05-nsec3-salt-chunked", "rule": "R-05.9", "file": "dns/rdtypes/ANY/NSEC3.py", "expect": "fires",
     "old": "            salt = binascii.hexlify(self.salt).decode()", "new": "            salt = dns.rdata._styled_hexify(self.salt, style)"},
    {"id": "c05-ttl-units-unbounded", "rule": "R-05.5", "file": "dns/ttl.py", "expect": "fires",
     "edits": [{"file": "dns/ttl.py", "old": "    if text.isdecimal():\n        total = int(text)\n", "new": "    if text.isdecimal():\n        total = int(text)\n        if total > MAX_TTL:\n            raise BadTTL\n"},
               {"file": "dns/ttl.py", "old": "    if total < 0 or total > MAX_TTL:", "new": "    if total < 0:"}]},
    {"id": "c05-twin-ttl-bound-reordered", "rule": "R-05.5", "file": "dns/ttl.py", "expect": "silent",
     "old": "    if total < 0 or total > MAX_TTL:", "new": "    if total > MAX_TTL or total < 0:"},
    {"id": "c05-embedded-name-at-origin-prints-empty", "rule": "R-05.7", "file": "dns/name.py", "expect": "fires",
     "old": "        if len(name.labels) == 0:\n            return \"@\"", "new": "        if len(self.labels) == 0:\n            return \"@\""},
    {"id": "c05-generic-always-relativized", "rule": "R-05.4", "file": "dns/rdata.py", "expect": "fires",
     "old": "                gorigin = None\n                if relativize:\n                    gorigin = relativize_to if relativize_to is not None else origin\n", "new": "                gorigin = origin\n"},
    {"id": "c05-escapify-unicode-isprintable", "rule": "R-05.2", "file": "dns/rdata.py", "expect": "fires",
     "old": "        elif ord(c) >= 0x20:\n            text += c", "new": "        elif c.isprintable():\n            text += c"},
    {"id": "c05-twin-escapify-unicode-gt", "rule": "R-05.2", "file": "dns/rdata.py", "expect": "silent",
     "old": "        elif ord(c) >= 0x20:\n            text += c", "new": "        elif ord(c) > 0x1F:\n            text += c"},
    {"id": "c05-gateway-drops-relativize-to", "rule": "R-05.6", "file": "dns/rdtypes/util.py", "expect": "fires",
     "old": "            gateway = tok.get_name(origin, relativize, relativize_to)", "new": "            gateway = tok.get_name(origin, relativize)"},
    {"id": "c05-twin-soa-keywords", "rule": "R-05.6", "file": "dns/rdtypes/ANY/SOA.py", "expect": "silent",
     "old": "        mname = tok.get_name(origin, relativize, relativize_to)", "new": "        mname = tok.get_name(origin=origin, relativize=relativize, relativize_to=relativize_to)"},
    {"id": "c05-as-bytes-bounds-the-argument", "rule": "R-05.5", "file": "dns/rdata.py", "expect": "fires",
     "old": "        if max_length is not None and len(bvalue) > max_length:", "new": "        if max_length is not None and len(value) > max_length:"},
    {"id": "c05-uint16-upper-off", "rule": "R-05.5", "file": "dns/rdata.py", "expect": "fires",
     "old": "        if value < 0 or value > 65535:", "new": "        if value < 0 or value > 65536:"},
    {"id": "c05-twin-uint8-ge", "rule": "R-05.5", "file": "dns/rdata.py", "expect": "silent",
     "old": "        if value < 0 or value > 255:", "new": "        if value <= -1 or value >= 256:"},
    {"id": "c05-hinfo-no-maxlength", "rule": "R-05.1", "file": "dns/rdtypes/ANY/HINFO.py", "expect": "fires",
     "old": "self.cpu: bytes = self._as_bytes(cpu, True, 255)", "new": "self.cpu: bytes = self._as_bytes(cpu, True)"},
    {"id": "c05-srv-port-unvalidated", "rule": "R-05.1", "file": "dns/rdtypes/IN/SRV.py", "expect": "fires",
     "old": "self.port = self._as_uint16(port)", "new": "self.port = self._as_int(port)"},
    {"id": "c05-new-decode-in-producer", "rule": "R-05.1t", "file": "dns/rdtypes/ANY/X25.py", "expect": "fires",
     "old": "        return f'\"{dns.rdata._escapify(self.address)}\"'", "new": "        return f'\"{self.address.decode()}\"'"},
    {"id": "c05-quote-not-escaped", "rule": "R-05.2", "file": "dns/rdata.py", "expect": "fires",
     "old": "_escaped = b'\"\\\\'", "new": "_escaped = b'\\\\'"},
    {"id": "c05-twin-raw-7f", "rule": "R-05.2", "file": "dns/rdata.py", "expect": "silent",
     "old": "        elif c >= 0x20 and c < 0x7F:\n            text += chr(c)\n        else:\n            text += f\"\\\\{c:03d}\"\n    return text\n\n\ndef _escapify_unicode",
     "new": "        elif c >= 0x20 and c <= 0x7F:\n            text += chr(c)\n        else:\n            text += f\"\\\\{c:03d}\"\n    return text\n\n\ndef _escapify_unicode"},
    {"id": "c05-txt-parsed-by-codepoint", "rule": "R-05.3", "file": "dns/rdtypes/ANY/X25.py", "expect": "silent",
     "old": "        address = tok.get_string()", "new": "        address = tok.get().unescape_to_bytes().value"},
    {"id": "c05-ds-digest-type-wide", "rule": "R-05.1", "file": "dns/rdtypes/dsbase.py", "expect": "fires",
     "old": "struct.pack(\"!HBB\", self.key_tag, self.algorithm, self.digest_type)", "new": "struct.pack(\"!BBB\", self.key_tag, self.algorithm, self.digest_type)"},
    {"id": "c05-generic-compare-dropped", "rule": "R-05.4", "file": "dns/rdata.py", "expect": "fires",
     "old": "                if rwire != grdata.data:", "new": "                if False:"},
]
