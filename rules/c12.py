"""C12 versioned-zone writer admission: lock discipline, wake-up pairing, no exit keeps the write slot."""
from __future__ import annotations

import ast

from engine.cfg import CFG, normalise_compare, atoms
from engine.model import src, stmt_key, walk_no_nested, dotted
from engine.util import attr_accesses, with_exprs, calls_with_nodes, where, own_nodes

RULES = {
    "R-12.10": "a transfer never keeps the writer slot: Inbound.__exit__ rolls back whatever transaction is still open, whether or not the final SOA was seen (the rule function of C13 R-13.2, run here directly because C13 adopts C12 rules)",
    "R-12.9": "readers never observe a partially applied (or rolled back) write on a B-tree zone: the writer edits a copy-on-write clone and never writes a node it shares with a published version (C19 R-19.1 adopted)",
    "R-12.8": "a `with zone.writer()` block always ends its transaction: Transaction.__exit__ commits iff no exception, otherwise rolls back - for every exception class (C10 R-10.4 adopted), so the write slot is released and the next waiter woken",
    "R-12.7": "inside the package a write transaction obtained from `.writer(...)` is entered by `with` at once, or kept on an object whose __exit__ ends it; when it is first bound to a local, no `raise`/`return` is reachable between the call and the `with` that ends it (the slot would stay taken and every later writer block for ever)",
    "R-12.6": "a B-tree zone writer starts from the newest committed version (C20 R-20.2 newest-base adopted): otherwise the final zone is not the serial application of the commits in admission order",
    "R-12.1": "guarded-by: _versions/_readers/_write_txn/_write_waiters/_write_event/_pruning_policy are touched only under _version_lock, in *_unlocked methods, or in __init__; *_unlocked methods are called only from such places",
    "R-12.2": "nothing that can block (Event.wait, sleep, deferred version setup) runs while _version_lock is held",
    "R-12.3": "every write end clears _write_txn and reaches the wake-up; admission is `_write_txn is None and event == _write_event`; waiters are a FIFO (append/popleft only)",
    "R-12.4": "commit publishes the version and ends the write inside one lock hold",
    "R-12.5": "between admission and the return of writer() every may-raise statement is covered by a handler that ends the write before re-raising",
}

FIELDS = {"_versions", "_readers", "_write_txn", "_write_waiters", "_write_event", "_pruning_policy"}
ZONE = "dns.versioned.Zone"

# Confirmed lock-free accesses (one construct each, with the reason it is safe).
EXCEPTIONS = {
    ("dns.versioned.Zone.writer", "_write_txn", "load"): "after admission only the admitted writer's thread can change _write_txn (owner-only access)",
    ("dns.versioned.Zone._get_next_version_id", "_versions", "load"): "called during deferred setup by the one admitted writer; only that writer appends, pruning never removes the newest version",
    ("dns.btreezone.WritableVersion.__init__", "_versions", "load"): "deferred setup by the one admitted writer reads the newest version, which pruning never removes",
    ("dns.versioned.Zone.set_max_versions.<locals>.policy", "_versions", "load"): "pruning-policy callback, invoked only from _prune_versions_unlocked (under the lock)",
    ("dns.versioned.Zone.set_max_versions.<locals>.policy#2", "_versions", "load"): "pruning-policy callback, invoked only from _prune_versions_unlocked (under the lock)",
}
BLOCKING_ATTRS = {"wait", "sleep", "_setup_version", "acquire", "join", "recv", "read", "readline"}


def _lock_held(node, receiver: str) -> bool:
    return f"{receiver}._version_lock" in with_exprs(node)


def run(model, rep, tier):
    zone = model.cls(ZONE)
    n_acc = 0
    unlocked_methods = {n for n in zone.methods if n.endswith("_unlocked")}
    rep.floor("R-12.1-unlocked-methods", len(unlocked_methods), 4)
    # ---------------------------------------------------------------- R-12.1 (whole package)
    for fi in model.all_functions():
        if not any(isinstance(n, ast.Attribute) and n.attr in FIELDS for n in ast.walk(fi.node)):
            continue
        cfg = CFG(fi.node)
        for a in attr_accesses(fi, cfg, FIELDS):
            n_acc += 1
            kind = "store" if a.store else "load"
            con = fi.qualname
            st = f"{a.receiver}.{a.field} ({kind})"
            if fi.cls is not None and fi.cls.qualname == ZONE and fi.name == "__init__":
                rep.ok("R-12.1", con, a.where, "constructor: zone not yet shared", stmt=st, nontrivial=False)
            elif fi.name.endswith("_unlocked") and fi.cls is not None and model.is_subclass(fi.cls, zone):
                rep.ok("R-12.1", con, a.where, "*_unlocked method: caller holds the lock (call sites checked below)", stmt=st)
            elif _lock_held(a.node, a.receiver):
                rep.ok("R-12.1", con, a.where, "inside `with ..._version_lock`", stmt=st)
            elif (con, a.field, kind) in EXCEPTIONS:
                rep.excepted("R-12.1", con, a.where, EXCEPTIONS[(con, a.field, kind)], stmt=st)
            else:
                rep.bad("R-12.1", con, a.where, f"{a.receiver}.{a.field} {kind} outside `with {a.receiver}._version_lock`", stmt=st)
    rep.floor("R-12.1", n_acc, 30)
    # call sites of *_unlocked methods (anywhere in the package)
    n_calls = 0
    for fi in model.all_functions():
        if not any(isinstance(n, ast.Attribute) and n.attr.endswith("_unlocked") for n in ast.walk(fi.node)):
            continue
        cfg = CFG(fi.node)
        for (n, c) in calls_with_nodes(cfg):
            if isinstance(c.func, ast.Attribute) and c.func.attr in unlocked_methods:
                n_calls += 1
                recv = src(c.func.value)
                in_init = fi.cls is not None and fi.cls.qualname == ZONE and fi.name == "__init__"
                okk = in_init or fi.name.endswith("_unlocked") or _lock_held(n, recv)
                rep.check(okk, "R-12.1", fi.qualname, where(fi, c), f"{c.func.attr} called with the lock held",
                          f"{c.func.attr}() requires _version_lock but is called here without it", stmt=f"call {recv}.{c.func.attr}")
    rep.floor("R-12.1-calls", n_calls, 7)

    # ---------------------------------------------------------------- R-12.2
    # transitive closure of self-calls made while the lock is held
    def callees_under_lock(fi, whole=False, seen=None, depth=0):
        seen = seen if seen is not None else set()
        out = []
        cfg = CFG(fi.node)
        for (n, c) in calls_with_nodes(cfg):
            held = whole or any(w.endswith("._version_lock") for w in with_exprs(n))
            if not held:
                continue
            out.append((fi, n, c))
            f = c.func
            if isinstance(f, ast.Attribute) and isinstance(f.value, ast.Name) and f.value.id == "self" and fi.cls is not None:
                tgt = model.lookup_method(fi.cls if model.is_subclass(fi.cls, zone) else zone, f.attr)
                if tgt is not None and tgt.qualname not in seen and depth < 6:
                    seen.add(tgt.qualname)
                    out += callees_under_lock(tgt, True, seen, depth + 1)
        return out

    n_under = 0
    for name, fi in sorted(zone.methods.items()):
        for (f2, n, c) in callees_under_lock(fi):
            n_under += 1
            f = c.func
            attr = f.attr if isinstance(f, ast.Attribute) else (f.id if isinstance(f, ast.Name) else "")
            blocking = attr in BLOCKING_ATTRS and not (attr == "read")
            if attr == "set":  # Event.set never blocks
                blocking = False
            rep.check(not blocking, "R-12.2", f2.qualname, where(f2, c), f"`{src(c)[:60]}` under the lock does not block",
                      f"`{src(c)[:60]}` can block or is long-running and executes while _version_lock is held (reached from {fi.qualname})",
                      stmt=f"call {src(c.func)}")
    rep.floor("R-12.2", n_under, 15)
    # Transaction.__init__ (constructed under the lock) must not do the version setup itself
    tinit = model.func("dns.zone.Transaction.__init__")
    rep.check(not any(isinstance(n, ast.Attribute) and n.attr == "_setup_version" for n in ast.walk(tinit.node)),
              "R-12.2", tinit.qualname, where(tinit, tinit.node), "Transaction() defers version setup",
              "Transaction.__init__ performs the version setup (map copy) – it runs under _version_lock in writer()", stmt="deferred-setup")

    # ---------------------------------------------------------------- R-12.3
    w = model.func(f"{ZONE}.writer")
    cfg = CFG(w.node)
    stores = [n for n in cfg.nodes if isinstance(n.ast, ast.Assign) and any(src(t) == "self._write_txn" for t in n.ast.targets)]
    rep.floor("R-12.3-admission", len(stores), 1)
    for s in stores:
        tests = [t for t in cfg.nodes if t.kind == "test" and isinstance(t.ast, ast.If)]
        good_edges = set()
        for t in tests:
            norm = normalise_compare(t.ast.test)
            # both conditions must be DIRECT conjuncts (a disjunction around one of them weakens the admission test)
            direct = {p_[1] for p_ in norm[1] if p_[0] == "atom"} if norm[0] == "and" else set()
            has_none = ("self._write_txn", "is", "None") in direct
            has_evt = bool({("event", "==", "self._write_event"), ("self._write_event", "==", "event"), ("event", "is", "self._write_event"), ("self._write_event", "is", "event")} & direct)
            if norm[0] == "and" and has_none and has_evt:
                good_edges.add((t.id, "t"))
        okk = bool(good_edges) and cfg.edge_dominated(s.id, good_edges)
        rep.check(okk, "R-12.3", w.qualname, where(w, s.ast), "admission store guarded by `_write_txn is None and event == _write_event`",
                  "the write slot is taken without the full admission test (`_write_txn is None` AND event identity): writers can take cuts or overlap",
                  stmt=stmt_key(s.ast))
        # the slot is given up (`_write_event = None`) on the admission path
        gate = [n.id for n in cfg.nodes if isinstance(n.ast, ast.Assign) and src(n.ast) == "self._write_event = None"]
        rep.check(bool(gate) and cfg.postdominated_by_set(s.id, gate, skip_kinds={"exc"}), "R-12.3", w.qualname, where(w, s.ast),
                  "admitted writer resets _write_event", "admitted writer does not reset _write_event (next wake-up is mistaken for this one)",
                  stmt="reset _write_event")
    # who may write _write_txn
    for fi in model.all_functions():
        for n in ast.walk(fi.node):
            if isinstance(n, ast.Attribute) and n.attr == "_write_txn" and isinstance(n.ctx, ast.Store):
                allowed = fi.qualname in (f"{ZONE}.writer", f"{ZONE}._end_write_unlocked", f"{ZONE}.__init__")
                rep.check(allowed, "R-12.3", fi.qualname, where(fi, n), "_write_txn written by the admission/end protocol only",
                          "_write_txn written outside writer()/_end_write_unlocked()/__init__", stmt="store _write_txn")
    e = model.func(f"{ZONE}._end_write_unlocked")
    cfg_e = CFG(e.node, implicit_exc=False)
    clears = [n for n in cfg_e.nodes if isinstance(n.ast, ast.Assign) and src(n.ast) == "self._write_txn = None"]
    rep.floor("R-12.3-clear", len(clears), 1)
    wake = [n.id for n in cfg_e.nodes if n.ast is not None and any(
        isinstance(c, ast.Call) and src(c.func) == "self._maybe_wakeup_one_waiter_unlocked" for c in own_nodes(n.ast))]
    for c in clears:
        rep.check(bool(wake) and cfg_e.postdominated_by_set(c.id, wake), "R-12.3", e.qualname, where(e, c.ast),
                  "clearing _write_txn is always followed by the wake-up", "a path clears _write_txn without waking a waiter (lost wake-up)", stmt=stmt_key(c.ast))
    rep.check(cfg_e.dominated_by_set(cfg_e.exit.id, [c.id for c in clears]), "R-12.3", e.qualname, where(e, e.node),
              "every normal path clears _write_txn", "a path through _end_write_unlocked leaves _write_txn set", stmt="always-clears")
    for qn, callee in ((f"{ZONE}._end_write", "self._end_write_unlocked"), (f"{ZONE}._commit_version", "self._commit_version_unlocked")):
        f = model.func(qn)
        c2 = CFG(f.node, implicit_exc=False)
        gate = [n.id for n in c2.nodes if n.ast is not None and any(isinstance(c, ast.Call) and src(c.func) == callee for c in own_nodes(n.ast))]
        rep.check(bool(gate) and c2.dominated_by_set(c2.exit.id, gate), "R-12.3", qn, where(f, f.node), f"always calls {callee}",
                  f"a path through {qn} skips {callee}", stmt=f"reaches {callee}")
    cu = model.func(f"{ZONE}._commit_version_unlocked")
    c3 = CFG(cu.node, implicit_exc=False)
    ends = [n for n in c3.nodes if n.ast is not None and any(isinstance(c, ast.Call) and src(c.func) == "self._end_write_unlocked" for c in own_nodes(n.ast))]
    okk = False
    for n in ends:
        # must be guarded only by `txn is not None`
        guards = [t for t in c3.nodes if t.kind == "test" and n.id in c3.reachable([t.id])]
        edges = set()
        for t in guards:
            if set(atoms(normalise_compare(t.ast.test))) == {("txn", "is not", "None")}:
                edges.add((t.id, "f"))
        # every path to exit either goes through the call or through the `txn is None` edge
        r = c3.reachable([c3.entry.id], blocked=[n.id], blocked_edges=edges)
        okk = c3.exit.id not in r
    rep.check(okk, "R-12.3", cu.qualname, where(cu, cu.node), "commit ends the write whenever a transaction is given",
              "a commit path with a transaction does not end the write (slot kept, waiters never woken)", stmt="commit-ends-write")
    mw = model.func(f"{ZONE}._maybe_wakeup_one_waiter_unlocked")
    txt = [stmt_key(s) for s in ast.walk(mw.node) if isinstance(s, (ast.Assign, ast.Expr)) and not isinstance(getattr(s, "value", None), ast.Constant)]
    rep.check("self._write_event = self._write_waiters.popleft()" in txt and "self._write_event.set()" in txt, "R-12.3", mw.qualname, where(mw, mw.node),
              "wake-up takes the OLDEST waiter (popleft), records it as _write_event and sets it",
              "wake-up does not (popleft the oldest waiter, store it in _write_event, set it)", stmt="wakeup-shape")
    # FIFO container operations only
    n_w = 0
    for fi in model.all_functions():
        for n in ast.walk(fi.node):
            if isinstance(n, ast.Call) and isinstance(n.func, ast.Attribute) and isinstance(n.func.value, ast.Attribute) and n.func.value.attr == "_write_waiters":
                n_w += 1
                rep.check(n.func.attr in ("append", "popleft"), "R-12.3", fi.qualname, where(fi, n), f"_write_waiters.{n.func.attr} keeps FIFO order",
                          f"_write_waiters.{n.func.attr}() breaks first-come-first-served admission", stmt=f"_write_waiters.{n.func.attr}")
    rep.floor("R-12.3-fifo", n_w, 2)
    # waiting happens on the event that was enqueued
    waits = [(n, c) for (n, c) in calls_with_nodes(cfg) if isinstance(c.func, ast.Attribute) and c.func.attr == "wait"]
    for (n, c) in waits:
        rep.check(src(c.func.value) == "event" and not _lock_held(n, "self"), "R-12.3", w.qualname, where(w, c), "waits on its own event outside the lock",
                  "wait is not on the enqueued event or happens under the lock", stmt="event.wait")
    rep.floor("R-12.3-wait", len(waits), 1)

    # ---------------------------------------------------------------- R-12.4
    cv = model.func(f"{ZONE}._commit_version")
    cvu = model.func(f"{ZONE}._commit_version_unlocked")
    body_calls = [(n, c) for (n, c) in calls_with_nodes(CFG(cv.node)) if src(c.func) == "self._commit_version_unlocked"]
    rep.check(bool(body_calls) and all(_lock_held(n, "self") for (n, c) in body_calls), "R-12.4", cv.qualname, where(cv, cv.node),
              "_commit_version holds the lock around _commit_version_unlocked", "_commit_version does not hold the lock around the publication", stmt="lock-around-commit")
    t = src(cvu.node)
    rep.check("self._versions.append(version)" in t and "self.nodes = version.nodes" in t and "self._end_write_unlocked(txn)" in t, "R-12.4", cvu.qualname,
              where(cvu, cvu.node), "append + publish nodes + end write in the same unlocked helper (one lock hold)",
              "publication (append / nodes / end of write) is no longer one step under the lock", stmt="one-step-publication")

    # ---------------------------------------------------------------- R-12.5
    for s in stores:
        starts = [y for (y, k) in cfg.succ[s.id] if k == "n"]
        gate = [n.id for n in cfg.nodes if n.ast is not None and n.kind == "stmt" and any(
            isinstance(c, ast.Call) and src(c.func) in ("self._end_write", "self._end_write_unlocked") for c in own_nodes(n.ast))]
        r = cfg.reachable(starts, blocked=gate)
        leak = cfg.rexit.id in r
        detail = ""
        if leak:
            p = cfg.path(starts[0], cfg.rexit.id, blocked=gate)
            detail = "exceptional exit without ending the write: " + cfg.fmt_path(p)
            last = cfg.nodes[p[-2]] if p and len(p) > 1 else None
            st = stmt_key(last.ast) if last is not None and last.ast is not None else ""
        else:
            st = "all exceptional exits after admission end the write"
        rep.check(not leak, "R-12.5", w.qualname, where(w, s.ast), "every exceptional exit after admission passes _end_write",
                  detail + " – _write_txn stays set and every later writer() blocks forever", stmt=st)
    # zone.Transaction._end_transaction: exactly one of the three zone calls on every normal path
    et = model.func("dns.zone.Transaction._end_transaction")
    c4 = CFG(et.node, implicit_exc=False)
    enders = [n.id for n in c4.nodes if n.ast is not None and n.kind == "stmt" and any(
        isinstance(c, ast.Call) and isinstance(c.func, ast.Attribute) and c.func.attr in ("_end_read", "_commit_version", "_end_write") for c in own_nodes(n.ast))]
    rep.check(len(enders) >= 3 and c4.dominated_by_set(c4.exit.id, enders), "R-12.5", et.qualname, where(et, et.node),
              "every normal path through _end_transaction tells the zone the transaction ended",
              "a path through _end_transaction ends without _end_read/_commit_version/_end_write", stmt="ends-at-zone")
    rep.assume("threading.Lock / threading.Event semantics; CPython deque operations are atomic")
    rep.assume("R-12.5 covers writer(); an exception raised by the immutable-version factory inside _end_transaction (before _commit_version) is not covered")
    rep.share(model, "C20", {"R-20.2"}, "R-12.6", "the version a writer edits is set up after admission from the version list", only=lambda o: o.stmt in ("newest-base", "same-base"))
    # ---------------------------------------------------------------- R-12.7
    n_w = 0
    for f7 in sorted(model.all_functions(), key=lambda g: g.qualname):
        if not f7.module.name.startswith("dns.") or f7.name == "writer":
            continue
        calls = [c for c in ast.walk(f7.node) if isinstance(c, ast.Call) and isinstance(c.func, ast.Attribute) and c.func.attr == "writer"]
        if not calls:
            continue
        c7 = None
        for c in calls:
            n_w += 1
            holder = None
            for n in ast.walk(f7.node):
                if isinstance(n, (ast.With, ast.AsyncWith)) and any(i.context_expr is c for i in n.items):
                    holder = ("with", n)
                elif isinstance(n, ast.Assign) and n.value is c:
                    holder = ("attr" if isinstance(n.targets[0], ast.Attribute) else "local", n)
            if holder is None:
                rep.bad("R-12.7", f7.qualname, where(f7, c), f"`{src(c)}` is neither entered by `with` nor bound: nothing ends the write transaction", stmt="writer-unbound")
            elif holder[0] == "with":
                rep.ok("R-12.7", f7.qualname, where(f7, c), f"`with {src(c)}`: ended by Transaction.__exit__", stmt="writer-with")
            elif holder[0] == "attr":
                tgt = src(holder[1].targets[0])
                owner = f7.cls
                ends = owner is not None and any(m.name == "__exit__" and (tgt + ".rollback()" in src(m.node) or tgt + ".commit()" in src(m.node)) for m in model.all_functions() if m.cls is owner)
                rep.check(ends, "R-12.7", f7.qualname, where(f7, c), f"kept in `{tgt}`; {owner.name if owner else '?'}.__exit__ ends it",
                          f"kept in `{tgt}` but the owning class has no __exit__ that commits or rolls it back", stmt="writer-owned " + tgt)
            else:
                L = holder[1].targets[0].id
                c7 = c7 or CFG(f7.node, implicit_exc=False)
                a_nodes = [n.id for n in c7.stmts() if n.ast is holder[1]]
                w_nodes = [n.id for n in c7.stmts() if n.kind == "with" and any(isinstance(i.context_expr, ast.Name) and i.context_expr.id == L for i in n.ast.items)]
                r = c7.reachable(a_nodes, blocked=w_nodes)
                leaks = [c7.nodes[i] for i in r if isinstance(c7.nodes[i].ast, (ast.Raise, ast.Return)) or i in (c7.exit.id, c7.rexit.id)]
                leaks = sorted([n for n in leaks if n.ast is not None], key=lambda n: n.lineno) or leaks
                rep.check(bool(w_nodes) and not leaks, "R-12.7", f7.qualname, where(f7, leaks[0].ast if leaks and leaks[0].ast is not None else c),
                          f"`{L} = {src(c)}` reaches `with {L}` on every path",
                          (f"after `{L} = {src(c)}` the function can leave through `{src(leaks[0].ast)[:50]}` (line {leaks[0].lineno}) without entering `with {L}`: the zone's write slot stays taken and every later writer waits for ever"
                           if leaks and leaks[0].ast is not None else f"`{L}` is never entered by `with` on some path"), stmt="writer-local " + L)
    rep.floor("R-12.7", n_w, 5)
    rep.share(model, "C07", {"R-07.8"}, "R-12.9", "committed rdatasets are copied into the version: a writer that mutates the rdataset object it passed in must not change what readers see")
    rep.share(model, "C19", {"R-19.1"}, "R-12.9", "btreezone.WritableVersion clones version.nodes and version.delegations; readers keep using the originals while the writer runs")
    rep.share(model, "C10", {"R-10.4", "R-10.5"}, "R-12.8", "versioned.Zone._end_write (slot release and wake-up) runs only from Transaction._end, reached from __exit__/commit/rollback")
    from rules.c13 import check_inbound_exit
    check_inbound_exit(model, rep, "R-12.10")
    rep.meta["explanation"] = (
        "Guarded-by analysis over the whole package for the six admission/retention fields of dns.versioned.Zone, call-site check of the "
        "*_unlocked convention, transitive no-blocking-under-lock check, and CFG (post-)dominance rules for admission test, wake-up "
        "pairing and exceptional exits of writer(). These are the preconditions of any schedule-space argument; FIFO order, absence "
        "of lost wake-ups and deadlock freedom over all interleavings are NOT enumerated.")


WITNESSES = [
    {"id": "c12-sign-zone-raise-after-writer", "rule": "R-12.7", "file": "dns/dnssec.py", "expect": "fires",
     "old": "        cm = zone.writer()\n\n", "new": "        cm = zone.writer()\n\n    if not keys and add_dnskey:\n        raise ValueError(\"no keys\")\n\n"},
    {"id": "c12-exit-skips-rollback-for-base-exceptions", "rule": "R-12.8", "file": "dns/transaction.py", "expect": "fires",
     "old": "            else:\n                self.rollback()\n        return False", "new": "            elif issubclass(exc_type, Exception):\n                self.rollback()\n        return False"},
    {"id": "c12-end-write-no-lock", "rule": "R-12.1", "file": "dns/versioned.py", "expect": "fires",
     "old": "    def _end_write(self, txn):\n        with self._version_lock:\n            self._end_write_unlocked(txn)",
     "new": "    def _end_write(self, txn):\n        self._end_write_unlocked(txn)"},
    {"id": "c12-take-cuts", "rule": "R-12.3", "file": "dns/versioned.py", "expect": "fires",
     "old": "if self._write_txn is None and event == self._write_event:", "new": "if self._write_txn is None:"},
    {"id": "c12-admission-widened", "rule": "R-12.3", "file": "dns/versioned.py", "expect": "fires",
     "old": "if self._write_txn is None and event == self._write_event:", "new": "if self._write_txn is None and (\n                    event == self._write_event or len(self._write_waiters) == 0\n                ):"},
    {"id": "c12-wait-under-lock", "rule": "R-12.2", "file": "dns/versioned.py", "expect": "fires",
     "old": "                self._write_waiters.append(event)\n", "new": "                self._write_waiters.append(event)\n                event.wait()\n"},
    {"id": "c12-lifo", "rule": "R-12.3", "file": "dns/versioned.py", "expect": "fires",
     "old": "self._write_event = self._write_waiters.popleft()", "new": "self._write_event = self._write_waiters.pop()"},
    {"id": "c12-no-wakeup-on-end", "rule": "R-12.3", "file": "dns/versioned.py", "expect": "fires",
     "old": "        self._write_txn = None\n        self._maybe_wakeup_one_waiter_unlocked()", "new": "        self._write_txn = None"},
    {"id": "c12-setup-unprotected", "rule": "R-12.5", "file": "dns/versioned.py", "expect": "fires",
     "old": "        try:\n            self._write_txn._setup_version()\n        except BaseException:\n            # Never keep the write slot if setup fails, or every later\n            # writer would wait forever.\n            self._end_write(self._write_txn)\n            raise\n",
     "new": "        self._write_txn._setup_version()\n"},
    {"id": "c12-setup-under-lock", "rule": "R-12.2", "file": "dns/versioned.py", "expect": "fires",
     "old": "                    self._write_event = None\n                    break", "new": "                    self._write_event = None\n                    self._write_txn._setup_version()\n                    break"},
    {"id": "c12-reader-outside-lock", "rule": "R-12.1", "file": "dns/versioned.py", "expect": "fires",
     "old": "            txn = Transaction(self, False, version)\n            self._readers.add(txn)\n            return txn",
     "new": "        txn = Transaction(self, False, version)\n        self._readers.add(txn)\n        return txn"},
    {"id": "c12-twin-is-identity", "rule": "R-12.3", "file": "dns/versioned.py", "expect": "silent",
     "old": "if self._write_txn is None and event == self._write_event:", "new": "if event == self._write_event and self._write_txn is None:"},
    {"id": "c12-commit-without-end", "rule": "R-12.3", "file": "dns/versioned.py", "expect": "fires",
     "old": "        if txn is not None:\n            self._end_write_unlocked(txn)", "new": "        if txn is not None:\n            pass"},
]
