"""C02 per-type wire round trip: codec layout agreement (sibling cross-check), exact consumption, dispatch exhaustiveness."""
from __future__ import annotations

import ast
import os

from engine.cfg import CFG, normalise_compare, atoms
from engine.layout import Writer, Reader, normalise, compare, show, LayoutError
from engine import pat
from engine.model import src, stmt_key, dotted, AnalysisError
from engine.util import own_nodes, calls_with_nodes, where, with_exprs

RULES = {
    "R-02.16": "arguments of the codec protocol land in their own slots: in dns/rdtypes, dns.rdata and dns.edns a local named like a parameter of the called to_wire / _to_wire / from_wire_parser / from_wire / from_text (file, compress, origin, canonicalize, parser, rdclass, rdtype, tok, relativize ...) is passed positionally only at that parameter's position - `helper.to_wire(file, origin)` puts the origin into the ignored `compress` slot and relative names can no longer be encoded",
    "R-02.15": "the parser primitives every from_wire_parser is built on read exactly what they say (the rule function of C04 R-04.5, run here directly): bounded slices, unpack formats of the stated size, a 48-bit big-endian read from 6 octets, state restored by the context managers",
    "R-02.14": "a refusal and the guards after it agree (contradiction rule over dns/rdtypes): when `if a or b: raise` has been passed, both a and b are false, so a later test of the same block that still asks `not a and ...` states a belief the refusal contradicts - one of the two is wrong (e.g. GPOS: `left == b'' or right == b''` refuses '.5' and '100.', which the per-side guards `not left == b'' and ...` were written to allow). Reported as a contradiction; which side is wrong is for the reader",
    "R-02.13": "SVCB `mandatory` keys are encoded in ascending NUMERIC order (the reader refuses anything else): MandatoryParam sorts the validated key numbers - the sorted() call encloses the _validate_key mapping, it is not applied to the caller's spellings first",
    "R-02.12": "plain encoding keeps the octets: a record writer lower-cases an embedded name only when the caller asked for the canonical form - the `canonicalize` flag a subclass hands to its base writer is the caller's (or the constant the RFC 4034 table prescribes), never a constant True (C15 R-15.1 adopted)",
    "R-02.11": "the reader accepts every value the writer can produce at the edges of a range: for each range refusal of LOC.from_wire_parser (`x < MIN or x > MAX` over the folded constants) the test is evaluated - by the checker, on the expression - at MIN and MAX (must pass) and at MIN-1 and MAX+1 (must refuse)",
    "R-02.10": "a malformed RDATA is a format error whatever helper noticed it: the per-type reader runs entirely inside `with ExceptionWrapper(FormError)` and the wrapper converts every foreign exception, DNS exceptions of other families included (rule of C04 R-04.3, run here directly because C04 adopts C02 rules)",
    "R-02.9": "a field of maximal legal size survives: the constructor validators that every decoder runs accept exactly the interval the wire format allows (C05 R-05.5 adopted: e.g. _as_bytes refuses len > max, not >=)",
    "R-02.8": "names embedded in records decode by the name codec's own bounds: a 63-octet label is legal and pointers go strictly backwards (C01 R-01.3 adopted) - every name-bearing type rests on it",
    "R-02.7": "a wire reader uses everything it reads: every local bound from a parser read (parser.get_*, struct.unpack) in a from_wire_parser / from_value is read afterwards (handed to the constructor, or used as a length/selector); a field read and then dropped decodes to the constructor's default",
    "R-02.1": "for every record class (and helper codec, SVCB parameter, EDNS option) the abstract layout of the writer equals the layout of the reader: integer field widths, names, counted/fixed/rest octet fields, repetitions, optional tails, helper codecs",
    "R-02.2": "every call that reaches a type's from_wire_parser with a length taken from the wire is inside `with parser.restrict_to(length)`; restrict_to raises when the region is not consumed exactly and restores the end",
    "R-02.4": "a flag packed into the high bit(s) of an integer field is split at the same bit on both sides: the constant the writer ORs in / shifts by and the constants the reader tests, clears or subtracts name one bit position",
    "R-02.5": "a wire reader that is given an origin hands it to every callee that takes one (parser.get_name, helper and per-type from_wire_parser, from_wire): an omitted origin silently falls back to the default None and relative names come back absolute",
    "R-02.6": "optional numbers of the record and option codecs (prefix lengths, sizes) are tested for presence by identity with None, never by truthiness (a source prefix length of 0 is legal)",
    "R-02.3": "every RdataType member has a module dns/rdtypes/{ANY,IN,CH}/<NAME>.py with a class of that name deriving from Rdata with all four codec methods, or is in the frozen generic table",
}

INLINE = {("dns.rdtypes.IN.APL.APL._to_wire", "item.to_wire"): "dns.rdtypes.IN.APL.APLItem.to_wire"}
# RdataType members deliberately served by GenericRdata (metatypes, obsolete or unimplemented types); frozen on the pinned tree
GENERIC_OK = {"TYPE0", "NONE", "MD", "MF", "MB", "MG", "MR", "NULL", "MINFO", "SIG0", "NXT", "A6", "UNSPEC", "TA", "IXFR", "AXFR", "MAILB", "MAILA", "ANY", "NXNAME"}
NO_METHOD_OK = {("OPT", "from_text"): "OPT is a pseudo-RR with no master-file syntax"}
# name fields whose writer passes the origin but whose reader does not (one line of reason each)
NAME_ORIGIN_OK = {"dns.rdtypes.ANY.TSIG.TSIG": "the TSIG algorithm name is absolute by construction: from_text reads it with relativize=False and the message layer builds it from the absolute constants in dns.tsig; a TSIG never lives in a zone; reading it with the origin would be wrong, not merely unnecessary: the message parser passes the message's origin to every rdata, so under the root origin (a relativized root-zone transfer) `hmac-sha256.` would come back relative and no key would match"}
# (label, writer function, writer variable, reader function, reader variable) of integer fields that carry a flag in their top bit
PACKED = [
    ("APL negation bit", "dns.rdtypes.IN.APL.APLItem.to_wire", "l", "dns.rdtypes.IN.APL.APL.from_wire_parser", "afdlen"),
    ("AMTRELAY discovery-optional bit", "dns.rdtypes.ANY.AMTRELAY.AMTRELAY._to_wire", "relay_type", "dns.rdtypes.ANY.AMTRELAY.AMTRELAY.from_wire_parser", "relay_type"),
]
HELPER_PAIRS = [("dns.rdtypes.util.Bitmap.to_wire", "dns.rdtypes.util.Bitmap.from_wire_parser"), ("dns.rdtypes.util.Gateway.to_wire", "dns.rdtypes.util.Gateway.from_wire_parser")]


def _strip_origin(toks):
    out = []
    for t in toks:
        if t[0] == "name":
            out.append(("name",))
        elif t[0] in ("rep", "opt"):
            out.append((t[0], _strip_origin(t[1])) + tuple(t[2:]))
        else:
            out.append(t)
    return out


def _is_pow2(n):
    return isinstance(n, int) and n > 0 and n & (n - 1) == 0


def _flag_bits(f, var, width=8):
    """Bit positions named by the constants that combine with / split `var` in function f: (position or None, text, node)."""
    out = []

    def const(e):
        return e.value if isinstance(e, ast.Constant) and isinstance(e.value, int) and not isinstance(e.value, bool) else None

    def add(v, node, how):
        if how == "mask" or how == "sub":
            out.append((v.bit_length() - 1 if _is_pow2(v) else None, src(node), node))
        elif how == "clear":  # var &= C keeps the low bits: the flag is the bit just above them
            out.append(((v + 1).bit_length() - 1 if _is_pow2(v + 1) else None, src(node), node))
        elif how == "shift":
            out.append((v, src(node), node))
        elif how == "ge":
            out.append((v.bit_length() - 1 if _is_pow2(v) else None, src(node), node))

    assigned = set()
    for n in ast.walk(f.node):
        if isinstance(n, ast.Assign) and any(src(t) == var for t in n.targets):
            assigned |= {id(x) for x in ast.walk(n.value)}
    for n in ast.walk(f.node):
        if isinstance(n, ast.AugAssign) and src(n.target) == var and const(n.value) is not None:
            v = const(n.value)
            if isinstance(n.op, ast.BitOr):
                add(v, n, "mask")
            elif isinstance(n.op, (ast.Sub, ast.BitXor)):
                add(v, n, "sub")
            elif isinstance(n.op, ast.BitAnd):
                add(v, n, "clear")
        elif isinstance(n, ast.BinOp):
            l, r = n.left, n.right
            involves = any(isinstance(x, ast.Name) and x.id == var or isinstance(x, ast.Attribute) and x.attr == var for x in ast.walk(n)) or id(n) in assigned
            if not involves:
                continue
            if isinstance(n.op, (ast.LShift, ast.RShift)) and const(r) is not None and (src(l) == var or isinstance(n.op, ast.LShift)):
                add(const(r), n, "shift")
            elif isinstance(n.op, ast.BitOr):
                for x in (l, r):
                    if const(x) is not None:
                        add(const(x), n, "mask")
            elif isinstance(n.op, ast.BitAnd) and src(l) == var and const(r) is not None:
                v = const(r)
                add(v, n, "mask" if _is_pow2(v) else "clear")
        elif isinstance(n, ast.Compare) and len(n.ops) == 1 and src(n.left) == var and const(n.comparators[0]) is not None:
            v = const(n.comparators[0])
            if isinstance(n.ops[0], ast.Gt):
                add(v + 1, n, "ge")
            elif isinstance(n.ops[0], ast.GtE):
                add(v, n, "ge")
            elif isinstance(n.ops[0], ast.Lt):
                add(v, n, "ge")
            elif isinstance(n.ops[0], ast.LtE):
                add(v + 1, n, "ge")
    return out


def _pair(model, rep, rule, label, w, r, ctx, file_name="file", where_=""):
    try:
        wr = Writer(model, w, file_name, INLINE, ctx)
        wt = normalise(wr.run(), "w")
        rt = normalise(Reader(model, r).run(), "r")
        if label in NAME_ORIGIN_OK:
            if compare(wt, rt) is not None and compare(_strip_origin(wt), _strip_origin(rt)) is None:
                rep.excepted(rule, label, where_, "name written with the origin, read without: " + NAME_ORIGIN_OK[label], stmt="name-origin")
            wt, rt = _strip_origin(wt), _strip_origin(rt)
        d = compare(wt, rt)
        arms = []
        for (a, b) in wr.arm_pairs:
            da = compare(normalise(a, "w"), normalise(b, "w"))
            if da:
                arms.append(da)
    except LayoutError as e:
        rep.blind(rule, label, where_, f"layout not understood: {e}", stmt="layout")
        return False
    if d is None and not arms:
        rep.ok(rule, label, where_, f"writer = reader = [{show(wt) or 'empty'}]", stmt="layout", nontrivial=bool(wt))
        return True
    if d is not None:
        rep.bad(rule, label, where_, f"writer and reader disagree: {d}.  writer [{show(wt)}]  reader [{show(rt)}]", stmt="layout")
    for da in arms:
        rep.bad(rule, label, where_, f"the file-writing arm and the bytes-returning arm of the writer disagree: {da}", stmt="arms")
    return False



def check_rdata_class_dispatch(model, rep, rule):
    """get_rdata_class dispatches by (class, type) and memoises under the key it looked up (shared with C05: text of an IN-only type must keep parsing after the type was seen in another class)."""
    g = model.func("dns.rdata.get_rdata_class")
    t = " ".join(src(g.node).split())
    rep.check("rdtype_text = rdtype_text.replace('-', '_')" in t and "cls = getattr(mod, rdtype_text)" in t and "if not cls and use_generic: cls = GenericRdata" in t, rule, g.qualname, where(g, g.node),
              "dispatch by module/class name with GenericRdata fallback", "get_rdata_class dispatch changed", stmt="dispatch-shape")
    # the class cache is filled under the key that was looked up; only a class imported from the ANY directory is (also) stored under (ANY, rdtype)
    stores = [n for n in ast.walk(g.node) if isinstance(n, ast.Assign) and isinstance(n.targets[0], ast.Subscript) and src(n.targets[0].value) == "_rdata_classes"]
    rep.floor(rule + "-cache-stores", len(stores), 4)
    gcfg = CFG(g.node, implicit_exc=False)
    for st in stores:
        key = " ".join(src(st.targets[0].slice).split())
        node = next((n for n in gcfg.stmts() if n.ast is st), None)
        if key in ("(rdclass, rdtype)", "rdclass, rdtype"):
            rep.ok(rule, g.qualname, where(g, st), "stored under the key that was looked up", stmt="cache-key " + key + " <- " + src(st.value), nontrivial=False)
        else:
            anyimp = [n for n in gcfg.stmts() if isinstance(n.ast, ast.Assign) and "import_module" in src(n.ast.value) and "'ANY'" in src(n.ast.value)]
            okk = "dns.rdataclass.ANY" in key and node is not None and bool(anyimp) and gcfg.dominated_by_set(node.id, [a.id for a in anyimp]) and src(st.value) != "GenericRdata"
            rep.check(okk, rule, g.qualname, where(g, st), "stored under (ANY, rdtype) only for a class imported from the ANY directory",
                      f"`{src(st)[:70]}` stores under `{key}` a class that was not imported from the class-independent (ANY) directory: the first lookup of a type with some class poisons the lookup "
                      "of every other class (e.g. GenericRdata cached for an IN-only type)", stmt="cache-key " + key + " <- " + src(st.value))

def run(model, rep, tier):
    rdata = model.cls("dns.rdata.Rdata")
    concrete = []
    for ci in model.subclasses(rdata):
        parts = ci.module.name.split(".")
        if len(parts) == 4 and parts[1] == "rdtypes" and parts[2] in ("ANY", "IN", "CH") and ci.name == parts[3]:
            concrete.append(ci)
    concrete.append(model.cls("dns.rdata.GenericRdata"))
    n_ok = 0
    for ci in sorted(concrete, key=lambda c: c.qualname):
        w = model.lookup_method(ci, "_to_wire")
        r = model.lookup_method(ci, "from_wire_parser")
        if w is None or r is None or w.cls is rdata or r.cls is rdata:
            rep.bad("R-02.1", ci.qualname, ci.file, "codec method missing (falls through to the abstract base, which raises NotImplementedError)", stmt="codec-defined")
            continue
        if _pair(model, rep, "R-02.1", ci.qualname, w, r, ci, "file", f"{w.file}:{w.lineno}"):
            n_ok += 1
    rep.floor("R-02.1", n_ok, 62)
    for (wq, rq) in HELPER_PAIRS:
        w, r = model.func(wq), model.func(rq)
        _pair(model, rep, "R-02.1", w.cls.qualname, w, r, w.cls, "file", f"{w.file}:{w.lineno}")
    n_h = 0
    for ci in sorted(model.classes.values(), key=lambda c: c.qualname):
        if ci.module.name in ("dns.rdtypes.svcbbase", "dns.edns") and "to_wire" in ci.methods and "from_wire_parser" in ci.methods:
            w, r = ci.methods["to_wire"], ci.methods["from_wire_parser"]
            if ci.qualname in ("dns.edns.Option", "dns.rdtypes.svcbbase.Param"):
                continue
            n_h += 1
            _pair(model, rep, "R-02.1", ci.qualname, w, r, ci, "file", f"{w.file}:{w.lineno}")
    rep.floor("R-02.1-helpers", n_h, 18)
    # Relay reuses Gateway's codecs
    rl = model.cls("dns.rdtypes.ANY.AMTRELAY.Relay")
    rep.check(model.lookup_method(rl, "to_wire").cls.name == "Gateway" and model.lookup_method(rl, "from_wire_parser").cls.name == "Gateway", "R-02.1", rl.qualname, rl.file,
              "Relay inherits both codecs from Gateway", "Relay overrides one side of the Gateway codec", stmt="relay-inherits")

    # ---------------------------------------------------------------- R-02.4
    n_p = 0
    for (label, wq, wv, rq, rv) in PACKED:
        wf, rf = model.func(wq), model.func(rq)
        wb, rb = _flag_bits(wf, wv), _flag_bits(rf, rv)
        # the writer's `assert l < 128`-style bound belongs to the same split
        if not wb or not rb:
            rep.blind("R-02.4", label, f"{wf.file}:{wf.lineno}", f"no flag-bit constants found around `{wv}` (writer {len(wb)}) / `{rv}` (reader {len(rb)})", stmt="flag-bit")
            continue
        n_p += 1
        positions = {b for (b, _, _) in wb + rb}
        detail = "writer " + ", ".join(f"`{t}`" for (_, t, _) in wb) + "; reader " + ", ".join(f"`{t}`" for (_, t, _) in rb)
        rep.check(len(positions) == 1 and None not in positions, "R-02.4", label, f"{rf.file}:{rb[0][2].lineno}", f"all constants name bit {sorted(positions, key=str)[0]}: {detail}",
                  f"the flag is not split at one bit position on both sides ({sorted(positions, key=str)}): {detail}", stmt="flag-bit")
    rep.floor("R-02.4", n_p, 2)

    # ---------------------------------------------------------------- R-02.5
    n_fw = 0
    for f in sorted(model.all_functions(), key=lambda g: g.qualname):
        if not (f.module.name.startswith("dns.rdtypes") or f.module.name in ("dns.rdata",)) or "origin" not in f.params():
            continue
        if f.node.name not in ("from_wire_parser", "from_wire", "from_text"):
            continue
        for c in ast.walk(f.node):
            if not isinstance(c, ast.Call):
                continue
            callee = None
            label = src(c.func)
            if isinstance(c.func, ast.Attribute) and c.func.attr == "get_name" and "parser" in src(c.func.value):
                callee = model.func("dns.wire.Parser.get_name")
            elif isinstance(c.func, ast.Attribute) and c.func.attr in ("from_wire_parser", "from_wire"):
                tgt = model.resolve_expr(f, c.func.value)
                if tgt in model.classes:
                    callee = model.lookup_method(model.classes[tgt], c.func.attr)
                    label = f"<{model.classes[tgt].name}>.{c.func.attr}"
                elif isinstance(c.func.value, ast.Name) and c.func.value.id in ("cls",) and f.cls is not None:
                    callee = model.lookup_method(f.cls, c.func.attr)
                elif isinstance(c.func.value, ast.Name) and f.qualname in ("dns.rdata.from_wire_parser", "dns.rdtypes.svcbbase.SVCBBase.from_wire_parser"):
                    callee = model.func("dns.rdata.Rdata.from_wire_parser") if f.qualname == "dns.rdata.from_wire_parser" else model.func("dns.rdtypes.svcbbase.GenericParam.from_wire_parser")
                    label = "<dispatched class>." + c.func.attr
                else:
                    tq = model.resolve_expr(f, c.func)
                    callee = model.functions.get(tq)
            elif isinstance(c.func, ast.Name) and c.func.id in ("from_wire", "from_wire_parser"):
                callee = f.module.functions.get(c.func.id)
            if callee is None or "origin" not in callee.params():
                continue
            n_fw += 1
            params = [p_ for p_ in callee.params() if p_ not in ("self", "cls")]
            idx = params.index("origin")
            passed = (len(c.args) > idx and not any(isinstance(a, ast.Starred) for a in c.args)) or any(k.arg == "origin" for k in c.keywords) or any(k.arg is None for k in c.keywords)
            key = (f.qualname if f.cls is None else f.cls.qualname, "get_name" if label.endswith("get_name") else label)
            if passed:
                rep.ok("R-02.5", f.qualname, where(f, c), f"`{label}` receives the origin", stmt="origin -> " + label, nontrivial=False)
            elif key[0] in NAME_ORIGIN_OK:
                rep.excepted("R-02.5", f.qualname, where(f, c), NAME_ORIGIN_OK[key[0]], stmt="origin -> " + label)
            else:
                rep.bad("R-02.5", f.qualname, where(f, c), f"`{src(c)[:70]}` omits `origin` although {callee.qualname} takes one: with an origin, names decoded there stay absolute and the decoded record differs from the encoded one",
                        stmt="origin -> " + label)
    rep.floor("R-02.5", n_fw, 25)

    # ---------------------------------------------------------------- R-02.6
    from rules.common import presence_by_identity
    presence_by_identity(model, rep, "R-02.6", ("dns.edns", "dns.rdtypes", "dns.rdata"), (), "an optional number",
                         "e.g. an ECS option with source prefix length 0 is re-encoded with the default /24, so decode-then-encode is not a fixed point", 2, "dns.edns / dns.rdtypes / dns.rdata")

    # ---------------------------------------------------------------- R-02.2
    n_sites = 0
    for f in model.all_functions():
        if not any(isinstance(n, ast.Attribute) and n.attr in ("from_wire_parser", "option_from_wire_parser") or isinstance(n, ast.Name) and n.id in ("from_wire_parser", "option_from_wire_parser") for n in ast.walk(f.node)):
            continue
        cfg = CFG(f.node)
        for (n, c) in calls_with_nodes(cfg):
            d = dotted(c.func) or ""
            tgt = model.resolve_expr(f, c.func) or d
            is_rd = tgt == "dns.rdata.from_wire_parser"
            is_opt = tgt in ("dns.edns.option_from_wire_parser",) or d.endswith("option_from_wire_parser")
            is_dyn = d in ("cls.from_wire_parser", "pcls.from_wire_parser") and f.qualname in ("dns.rdata.from_wire_parser", "dns.edns.option_from_wire_parser", "dns.rdtypes.svcbbase.SVCBBase.from_wire_parser")
            if not (is_rd or is_opt or is_dyn):
                continue
            if f.qualname in ("dns.rdata.from_wire_parser", "dns.edns.option_from_wire_parser") and d == "cls.from_wire_parser":
                continue  # the dispatchers themselves; their callers are the sites
            n_sites += 1
            w = [x for x in with_exprs(n) if ".restrict_to(" in x]
            rep.check(bool(w), "R-02.2", f.qualname, where(f, c), f"`{src(c.func)}` runs inside `with {w[0] if w else ''}`",
                      f"`{src(c.func)}(...)` parses a length-delimited region without `with parser.restrict_to(length)`: a record can consume more or less than its declared length", stmt=f"call {src(c.func)}")
    rep.floor("R-02.2", n_sites, 5)
    rt = model.func("dns.wirebase.Parser.restrict_to")
    cfg = CFG(rt.node)
    t = " ".join(src(rt.node).split())
    rep.check("if size > self.remaining(): raise dns.exception.FormError" in t and "self.end = self.current + size" in t and "if self.current != self.end: raise dns.exception.FormError" in t
              and "finally: self.end = saved_end" in t and "saved_end = self.end" in t, "R-02.2", rt.qualname, where(rt, rt.node),
              "restrict_to bounds the region, raises unless it is consumed exactly, restores the end in finally", "Parser.restrict_to no longer enforces exact consumption / restores the end", stmt="restrict-shape")
    gb = model.func("dns.wirebase.Parser.get_bytes")
    t = " ".join(src(gb.node).split())
    rep.check("if size > self.remaining(): raise dns.exception.FormError" in t and "output = self.wire[self.current:self.current + size]" in t and "self.current += size" in t, "R-02.2", gb.qualname, where(gb, gb.node),
              "get_bytes is bounded by remaining() (which honours the restricted end)", "Parser.get_bytes bounds check changed", stmt="get-bytes")
    rm = model.func("dns.wirebase.Parser.remaining")
    rep.check("return self.end - self.current" in src(rm.node), "R-02.2", rm.qualname, where(rm, rm.node), "remaining() = end - current", "remaining() changed", stmt="remaining")

    # ---------------------------------------------------------------- R-02.3
    rt_enum = model.cls("dns.rdatatype.RdataType")
    members = {k: v for k, v in model.enum_members(rt_enum).items() if isinstance(v, int)}
    rep.floor("R-02.3-enum", len(members), 80)
    by_name = {}
    for ci in concrete:
        by_name.setdefault(ci.name, []).append(ci)
    n_impl = 0
    for name in sorted(members):
        modname = name.replace("-", "_")
        cands = [c for c in by_name.get(modname, []) if c.module.name.split(".")[2] in ("ANY", "IN")]
        files = [p for p in (f"dns/rdtypes/ANY/{modname}.py", f"dns/rdtypes/IN/{modname}.py") if os.path.exists(os.path.join(model.repo, p))]
        if cands:
            n_impl += 1
            ci = cands[0]
            missing = [mn for mn in ("to_styled_text", "from_text", "_to_wire", "from_wire_parser") if (model.lookup_method(ci, mn) is None or model.lookup_method(ci, mn).cls is rdata)
                       and (name, mn) not in NO_METHOD_OK]
            rep.check(not missing, "R-02.3", f"RdataType.{name}", ci.file, f"implemented by {ci.qualname} with all four codec methods", f"{ci.qualname} lacks {missing}", stmt="dispatch")
        elif files:
            rep.bad("R-02.3", f"RdataType.{name}", files[0], f"{files[0]} exists but defines no class `{modname}` deriving from Rdata: get_rdata_class raises AttributeError / falls back silently", stmt="dispatch")
        elif name in GENERIC_OK:
            rep.ok("R-02.3", f"RdataType.{name}", "dns/rdatatype.py", "served by GenericRdata (listed)", stmt="dispatch", nontrivial=False)
        else:
            rep.bad("R-02.3", f"RdataType.{name}", "dns/rdatatype.py", "enum member has neither an implementation module nor an entry in the generic table", stmt="dispatch")
    rep.floor("R-02.3", n_impl, 60)
    check_rdata_class_dispatch(model, rep, "R-02.3")
    # ---------------------------------------------------------------- R-02.7
    n_read = 0
    for f7 in sorted(model.all_functions(), key=lambda g: g.qualname):
        if f7.name not in ("from_wire_parser", "from_value") or not (f7.module.name.startswith("dns.rdtypes") or f7.module.name in ("dns.edns", "dns.rdata")):
            continue
        bound = {}
        for a in ast.walk(f7.node):
            if isinstance(a, ast.Assign) and isinstance(a.value, ast.Call) and src(a.value.func).startswith(("parser.", "struct.unpack")):
                for tg in a.targets:
                    for x in ast.walk(tg):
                        if isinstance(x, ast.Name) and not x.id.startswith("_"):
                            bound[x.id] = a
        loads = {x.id for x in ast.walk(f7.node) if isinstance(x, ast.Name) and isinstance(x.ctx, ast.Load)}
        for b_, a in sorted(bound.items()):
            n_read += 1
            rep.check(b_ in loads, "R-02.7", f7.qualname, where(f7, a), f"`{b_}` read from the wire is used",
                      f"`{b_}` is read from the wire (`{src(a)[:50]}`) and never used: the decoded object gets the constructor's default for that field, so a value whose field is non-default "
                      "does not survive encode-then-decode", stmt=f"wire-value-used {b_}")
    rep.floor("R-02.7", n_read, 120)
    mp = model.func("dns.rdtypes.svcbbase.MandatoryParam.__init__")
    srt = [c for c in ast.walk(mp.node) if isinstance(c, ast.Call) and src(c.func) == "sorted"]
    okk13 = len(srt) == 1 and any(isinstance(x, ast.Call) and src(x.func).endswith("_validate_key") for x in ast.walk(srt[0].args[0])) if srt else False
    rep.check(bool(okk13), "R-02.13", mp.qualname, where(mp, srt[0] if srt else mp.node), "keys are validated (mapped to numbers) first and sorted numerically",
              "MandatoryParam does not sort the VALIDATED key numbers (e.g. it sorts the caller's mnemonics alphabetically and maps them afterwards): `mandatory=port,ipv6hint` encodes in descending order and the "
              "library's own decoder rejects it; the duplicate check is defeated the same way", stmt="mandatory-sorted-numerically")
    rep.share(model, "C15", {"R-15.1"}, "R-02.12", "to_wire(canonicalize=False) is what from_wire's fixed point compares with: decode-then-encode must reproduce the case of embedded names")
    from engine.minieval import evaluate, Unsupported
    lw = model.func("dns.rdtypes.ANY.LOC.LOC.from_wire_parser")
    n_rng = 0
    for n in ast.walk(lw.node):
        if not (isinstance(n, ast.If) and any(isinstance(b, ast.Raise) for b in n.body)):
            continue
        names = {x.id for x in ast.walk(n.test) if isinstance(x, ast.Name)}
        consts = sorted(nm_ for nm_ in names if nm_.startswith("_M"))
        var = sorted(names - set(consts))
        if len(consts) != 2 or len(var) != 1:
            continue
        n_rng += 1
        try:
            lo, hi = sorted(int(model.const(lw.module, ast.Name(id=c_, ctx=ast.Load()))) for c_ in consts)
            fold = lambda nd: model.const(lw.module, nd)
            verdict = {v: bool(evaluate(n.test, {var[0]: v}, fold)) for v in (lo - 1, lo, hi, hi + 1)}
            okk = verdict == {lo - 1: True, lo: False, hi: False, hi + 1: True}
            rep.check(okk, "R-02.11", lw.qualname, where(lw, n), f"`{src(n.test)[:60]}` accepts exactly [{lo}, {hi}]",
                      f"`{src(n.test)[:70]}` refuses/accepts the wrong edge (refused at lo-1, lo, hi, hi+1: {[verdict[v] for v in (lo - 1, lo, hi, hi + 1)]}, expected [True, False, False, True]): a coordinate at exactly the "
                      "limit (90 N, 180 E) is built and encoded by the library but its own wire form is rejected", stmt=f"range-edges {var[0]}")
        except (Unsupported, AnalysisError, ValueError) as e:
            rep.blind("R-02.11", lw.qualname, where(lw, n), f"range test `{src(n.test)[:50]}` not evaluable: {e}", stmt=f"range-edges {var[0]}")
    rep.floor("R-02.11", n_rng, 2)
    from rules.c04 import check_wrappers
    check_wrappers(model, rep, "R-02.10")
    rep.share(model, "C05", {"R-05.5", "R-05.15"}, "R-02.9", "every from_wire_parser ends in cls(...), whose __init__ validates each field with _as_bytes/_as_uintN")
    rep.share(model, "C01", {"R-01.3"}, "R-02.8", "parser.get_name() decodes every embedded domain name through dns.name.from_wire_parser")
    # ---------------------------------------------------------------- R-02.14
    NEG14 = {"==": "!=", "!=": "==", "<": ">=", ">=": "<", ">": "<=", "<=": ">", "truthy": "falsy", "falsy": "truthy", "is": "is not", "is not": "is", "in": "not in", "not in": "in"}
    n14 = 0
    for f14 in sorted(model.all_functions(), key=lambda g: g.qualname):
        if not f14.module.name.startswith("dns.rdtypes"):
            continue
        for blk in pat._bodies(f14.node):
            known = []
            for st in blk:
                if isinstance(st, ast.If):
                    nc = normalise_compare(st.test)
                    ats = atoms(nc)
                    for a_ in ats:
                        na = (a_[0], NEG14.get(a_[1]), a_[2])
                        hit = next((k for k in known if k[0] == na), None)
                        if hit is not None and nc[0] in ("and", "atom"):
                            rep.bad("R-02.14", f14.qualname, where(f14, st), f"`{src(st.test)[:70]}` still tests `{a_[0]} {a_[1]} {a_[2]}`, which the refusal `{hit[1][:60]}` above already guarantees: the refusal rejects values this guard was "
                                    "written to let through (well-formed input refused with a format error), or the guard is dead", stmt="refusal-vs-guard")
                    if nc[0] == "or" and not st.orelse and st.body and isinstance(st.body[-1], ast.Raise):
                        n14 += 1
                        known += [(a_, src(st.test)) for a_ in ats]
                stores = {x.id for x in ast.walk(st) if isinstance(x, ast.Name) and isinstance(x.ctx, ast.Store)}
                if stores:
                    known = [k for k in known if not (stores & {x.id for x in ast.walk(ast.parse(k[0][0] + " , " + (k[0][2] or "0"), mode="eval")) if isinstance(x, ast.Name)})]
    rep.floor("R-02.14", n14, 10)
    rep.ok("R-02.14", "dns.rdtypes", "dns/rdtypes", f"{n14} multi-clause refusals: no later guard of the same block re-tests a clause they exclude", stmt="refusal-vs-guard")
    from rules.c04 import check_parser_reads
    check_parser_reads(model, rep, "R-02.15")
    from rules.common import name_slot_agreement
    _CODEC_MODS = ("dns.rdata", "dns.edns", "dns.name", "dns.wire", "dns.wirebase", "dns.tokenizer")
    name_slot_agreement(model, rep, "R-02.16",
                        lambda f, nm, cands: ([g for g in cands if g.module.name.startswith("dns.rdtypes") or g.module.name in _CODEC_MODS]
                                              if (f.module.name.startswith("dns.rdtypes") or f.module.name in ("dns.rdata", "dns.edns")) and nm in ("to_wire", "_to_wire", "from_wire_parser", "from_wire", "from_text") else None),
                        100, "the value is taken for something else (an origin in the `compress` slot is ignored: relative names raise NeedAbsoluteNameOrOrigin on encoding while decoding still relativizes)")
    rep.meta["explanation"] = (
        "Sibling cross-check: for each of ~70 record classes, the helper codecs, 9 SVCB parameter classes and 11 EDNS option classes the writer and the reader are abstractly interpreted into "
        "layout token sequences (struct formats expanded, length fields linked to the data they count, loops/optional tails/helper codecs recognised) and compared. Exact-consumption and dispatch "
        "exhaustiveness are who-calls/with-context and enum-vs-filesystem checks. Value equality after decode and the decode-then-encode fixed point for arbitrary octets are NOT decided.")


WITNESSES = [
    {"id": "c02-amtrelay-origin-in-compress-slot", "rule": "R-02.16", "file": "dns/rdtypes/ANY/AMTRELAY.py", "expect": "fires",
     "old": "        Relay(self.relay_type, self.relay).to_wire(file, compress, origin, canonicalize)", "new": "        Relay(self.relay_type, self.relay).to_wire(file, origin)"},
    {"id": "c02-twin-amtrelay-keywords", "rule": "R-02.16", "file": "dns/rdtypes/ANY/AMTRELAY.py", "expect": "silent",
     "old": "        Relay(self.relay_type, self.relay).to_wire(file, compress, origin, canonicalize)", "new": "        Relay(self.relay_type, self.relay).to_wire(file, compress, origin=origin, canonicalize=canonicalize)"},
    {"id": "c02-gpos-refusal-widened", "rule": "R-02.14", "file": "dns/rdtypes/ANY/GPOS.py", "expect": "fires",
     "old": '    if left == b"" and right == b"":', "new": '    if left == b"" or right == b"":'},
    {"id": "c02-mandatory-sorted-by-spelling", "rule": "R-02.13", "file": "dns/rdtypes/svcbbase.py", "expect": "fires",
     "old": "        keys = sorted([_validate_key(key)[0] for key in keys])", "new": "        keys = [_validate_key(key)[0] for key in sorted(keys)]"},
    {"id": "c02-loc-reader-upper-bound-exclusive", "rule": "R-02.11", "file": "dns/rdtypes/ANY/LOC.py", "expect": "fires",
     "old": "        if latitude < _MIN_LATITUDE or latitude > _MAX_LATITUDE:", "new": "        if not _MIN_LATITUDE <= latitude < _MAX_LATITUDE:"},
    {"id": "c02-twin-loc-reader-chained-closed", "rule": "R-02.11", "file": "dns/rdtypes/ANY/LOC.py", "expect": "silent",
     "old": "        if latitude < _MIN_LATITUDE or latitude > _MAX_LATITUDE:", "new": "        if not _MIN_LATITUDE <= latitude <= _MAX_LATITUDE:"},
    {"id": "c02-ecs-scope-read-and-dropped", "rule": "R-02.7", "file": "dns/edns.py", "expect": "fires",
     "old": "        return cls(addr, src, scope)", "new": "        return cls(addr, src)"},
    {"id": "c02-bitmap-writer-strips-zero-octets", "rule": "R-02.1", "file": "dns/rdtypes/util.py", "expect": "fires",
     "old": "        for window, bitmap in self.windows:\n            file.write(struct.pack(\"!BB\", window, len(bitmap)))", "new": "        for window, bitmap in self.windows:\n            bitmap = bitmap.rstrip(b\"\\x00\")\n            file.write(struct.pack(\"!BB\", window, len(bitmap)))"},
    {"id": "c02-generic-fallback-cached-for-all-classes", "rule": "R-02.3", "file": "dns/rdata.py", "expect": "fires",
     "old": "        cls = GenericRdata\n        _rdata_classes[(rdclass, rdtype)] = cls", "new": "        cls = GenericRdata\n        _rdata_classes[(dns.rdataclass.ANY, rdtype)] = cls"},
    {"id": "c02-ecs-srclen-zero-defaulted", "rule": "R-02.6", "file": "dns/edns.py", "expect": "fires",
     "old": "            if srclen is None:\n                srclen = 24\n", "new": "            srclen = srclen or 24\n"},
    {"id": "c02-amtrelay-helper-without-origin", "rule": "R-02.5", "file": "dns/rdtypes/ANY/AMTRELAY.py", "expect": "fires",
     "old": "        relay = Relay.from_wire_parser(relay_type, parser, origin)", "new": "        relay = Relay.from_wire_parser(relay_type, parser)"},
    {"id": "c02-twin-ipseckey-origin-keyword", "rule": "R-02.5", "file": "dns/rdtypes/IN/IPSECKEY.py", "expect": "silent",
     "old": "        gateway = Gateway.from_wire_parser(gateway_type, parser, origin)", "new": "        gateway = Gateway.from_wire_parser(gateway_type, parser, origin=origin)"},
    {"id": "c02-apl-negation-threshold", "rule": "R-02.4", "file": "dns/rdtypes/IN/APL.py", "expect": "fires",
     "old": "            if afdlen > 127:", "new": "            if afdlen > 128:"},
    {"id": "c02-twin-apl-negation-mask", "rule": "R-02.4", "file": "dns/rdtypes/IN/APL.py", "expect": "silent",
     "old": "            if afdlen > 127:\n                negation = True\n                afdlen -= 128", "new": "            if afdlen & 0x80:\n                negation = True\n                afdlen &= 0x7F"},
    {"id": "c02-amtrelay-clear-mask", "rule": "R-02.4", "file": "dns/rdtypes/ANY/AMTRELAY.py", "expect": "fires",
     "old": "        relay_type &= 0x7F", "new": "        relay_type &= 0x3F"},
    {"id": "c02-hip-server-without-origin", "rule": "R-02.1", "file": "dns/rdtypes/ANY/HIP.py", "expect": "fires",
     "old": "            server = parser.get_name(origin)", "new": "            server = parser.get_name()"},
    {"id": "c02-soa-rname-writer-without-origin", "rule": "R-02.1", "file": "dns/rdtypes/ANY/SOA.py", "expect": "fires",
     "old": "        self.rname.to_wire(file, compress, origin, canonicalize)", "new": "        self.rname.to_wire(file, compress, None, canonicalize)"},
    {"id": "c02-tkey-length-width", "rule": "R-02.1", "file": "dns/rdtypes/ANY/TKEY.py", "expect": "fires",
     "old": "        key = parser.get_counted_bytes(2)", "new": "        key = parser.get_counted_bytes(1)"},
    {"id": "c02-dsync-field-width", "rule": "R-02.1", "file": "dns/rdtypes/ANY/DSYNC.py", "expect": "fires",
     "old": "struct.pack(\"!HBH\", self.rrtype, self.scheme, self.port)", "new": "struct.pack(\"!HHH\", self.rrtype, self.scheme, self.port)"},
    {"id": "c02-hip-lengths-swapped-in-reader", "rule": "R-02.1", "file": "dns/rdtypes/ANY/HIP.py", "expect": "fires",
     "old": "        hit = parser.get_bytes(lh)\n        key = parser.get_bytes(lk)", "new": "        hit = parser.get_bytes(lk)\n        key = parser.get_bytes(lh)"},
    {"id": "c02-opt-no-restrict", "rule": "R-02.2", "file": "dns/rdtypes/ANY/OPT.py", "expect": "fires",
     "old": "            with parser.restrict_to(olen):\n                opt = dns.edns.option_from_wire_parser(otype, parser)", "new": "            opt = dns.edns.option_from_wire_parser(otype, parser)"},
    {"id": "c02-naptr-two-strings", "rule": "R-02.1", "file": "dns/rdtypes/IN/NAPTR.py", "expect": "fires",
     "old": "        for _ in range(3):", "new": "        for _ in range(2):"},
    {"id": "c02-csync-order", "rule": "R-02.1", "file": "dns/rdtypes/ANY/CSYNC.py", "expect": "fires",
     "old": "        file.write(struct.pack(\"!IH\", self.serial, self.flags))", "new": "        file.write(struct.pack(\"!HI\", self.flags, self.serial))"},
    {"id": "c02-svcb-param-len8", "rule": "R-02.1", "file": "dns/rdtypes/svcbbase.py", "expect": "fires",
     "old": "            with dns.renderer.prefixed_length(file, 2):\n                # Note", "new": "            with dns.renderer.prefixed_length(file, 1):\n                # Note"},
    {"id": "c02-bitmap-window-u16", "rule": "R-02.1", "file": "dns/rdtypes/util.py", "expect": "fires",
     "old": "            window = parser.get_uint8()\n            bitmap = parser.get_counted_bytes()", "new": "            window = parser.get_uint16()\n            bitmap = parser.get_counted_bytes()"},
    {"id": "c02-cookie-arm-mismatch", "rule": "R-02.1", "file": "dns/edns.py", "expect": "fires",
     "old": "            return self.client + self.server", "new": "            return self.client"},
    {"id": "c02-twin-local-pack", "rule": "R-02.1", "file": "dns/rdtypes/IN/SRV.py", "expect": "silent",
     "old": "        three_ints = struct.pack(\"!HHH\", self.priority, self.weight, self.port)\n        file.write(three_ints)", "new": "        file.write(struct.pack(\"!HHH\", self.priority, self.weight, self.port))"},
    {"id": "c02-twin-reader-individual-gets", "rule": "R-02.1", "file": "dns/rdtypes/IN/SRV.py", "expect": "silent",
     "old": "        priority, weight, port = parser.get_struct(\"!HHH\")", "new": "        priority = parser.get_uint16()\n        weight = parser.get_uint16()\n        port = parser.get_uint16()"},
    {"id": "c02-wks-address-3", "rule": "R-02.1", "file": "dns/rdtypes/IN/WKS.py", "expect": "fires",
     "old": "        address = parser.get_bytes(4)", "new": "        address = parser.get_bytes(3)"},
]
