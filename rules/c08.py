"""C08 size limit, truncation, padding: size tracking, rollback completeness, reserve/release ordering, padding inputs, TSIG after padding."""
from __future__ import annotations

import ast

from engine.cfg import CFG, normalise_compare, atoms
from engine.model import src, stmt_key, dotted
from engine import pat
from engine.util import own_nodes, calls_with_nodes, where, with_exprs

RULES = {
    "R-08.11": "reservations add up: Renderer.reserve and release_reserved, executed by the checker over small numbers (limit 0..9, two reservations 0..9 each), refuse a reservation exactly when the reservations so far plus this one exceed the original limit, leave max_size = limit - reserved, and release restores the limit - Message.to_wire reserves twice (OPT, then TSIG), so a bound that counts the first reservation twice refuses messages that fit",
    "R-08.10": "signing does not grow the record: dns.tsig.sign derives the signed TSIG from the template only by `.replace(time_signed=..., mac=...)` - the MAC has the reserved size, and no other variable-length field (other data) is added at signing time, after the reserve and the padding were computed",
    "R-08.9": "the size reserved for the TSIG is the size that is written: dns.tsig.mac_sizes agrees with the digest (or truncation) size of every algorithm (C14 R-14.3 adopted) - the placeholder MAC behind the reserve is sized from that table",
    "R-08.8": "the sizes reserved before rendering are those of what is rendered: the placeholder MAC of use_tsig has the size of the algorithm the TSIG template names (one expression for both), and make_response hands the requester's advertised payload (query.payload) to use_edns as request_payload - the default limit of the response",
    "R-08.7": "room for the padding octets themselves: either the renderer bounds the padding it adds by the space left under the limit, or the reserve made before the sections are rendered grows with the block size - otherwise a truncated message plus its padding can exceed the limit and TooBig escapes although truncation was preferred",
    "R-08.6": "the effective limit: max_size 0 means the requester's advertised payload (request_payload) when known, else 65535, and is then clamped to [512, 65535] before the renderer is built; the OPT reserve counts every option the renderer will write (no option is skipped)",
    "R-08.1": "every write to the renderer's output happens inside `with self._track_size()` (header back-patches inside _temporarily_seek_to excepted)",
    "R-08.2": "_track_size rolls back to the start of the record set before raising TooBig; _rollback truncates and drops every compression entry at or beyond the rollback point",
    "R-08.3": "Message.to_wire: reserves precede all sections; release_reserved is passed on every path before OPT/TSIG; TC is set exactly under section < ADDITIONAL when truncation is preferred, else TooBig propagates; the header is written after the last change",
    "R-08.4": "padding length depends on the current size, the OPT reserve and the TSIG reserve; pad = block - remainder (empty when 0); the OPT reserve includes the padding option header",
    "R-08.5": "after padding, every path that writes the TSIG passes no compression table (the reserve assumed an uncompressed owner name)",
}
REN = "dns.renderer.Renderer"


def check_rollback_purge(model, rep, rule):
    """After a rollback no compression-table entry may point at or beyond the truncation offset (shared by C08 R-08.2, C03 R-03.3 and C01 R-01.4:
    a surviving entry makes a later name a pointer to bytes that no longer exist or to itself)."""
    ro = pat.canon_func(model.func(f"{REN}._rollback"), ["__keys_to_delete = []", "for (__k, __v) in self.compress.items():", "for __k in __keys_to_delete:\n    del self.compress[__k]"])
    t = " ".join(src(ro.node).split())
    rep.check("self.output.seek(where) self.output.truncate()" in t, rule, ro.qualname, where(ro, ro.node), "buffer truncated at the rollback point", "buffer is not truncated at the rollback point", stmt="truncate")
    cmp_ = [n for n in ast.walk(ro.node) if isinstance(n, ast.If) and len(atoms(normalise_compare(n.test))) == 1 and "where" in (atoms(normalise_compare(n.test))[0][2], atoms(normalise_compare(n.test))[0][0])]
    if len(cmp_) != 1:
        rep.blind(rule, ro.qualname, where(ro, ro.node), "offset comparison in _rollback not found", stmt="drop-entries")
    else:
        lhs, op, rhs = atoms(normalise_compare(cmp_[0].test))[0]
        if lhs == "where":
            lhs, rhs, op = rhs, lhs, {"<": ">", "<=": ">=", ">": "<", ">=": "<="}.get(op, op)
        rep.check(op == ">=" and lhs == "v", rule, ro.qualname, where(ro, cmp_[0]), "entries with offset >= where are dropped",
                  f"entries are dropped when `{lhs} {op} where`: an entry pointing exactly at the removed record set survives and later names are compressed against bytes that no longer exist", stmt="drop-entries")
    return ro


def check_padded_opt(model, rep, rule):
    """The OPT that add_opt rebuilds in order to append the padding option keeps everything of the original (flags, payload size,
    options), and the renderer remembers that it padded whenever the padding branch ran - with zero pad octets too."""
    ao = model.func(f"{REN}.add_opt")
    cfg = CFG(ao.node, implicit_exc=False)
    mk = [(n, c) for (n, c) in calls_with_nodes(cfg) if src(c.func) == "_make_opt"]
    callee = model.func("dns.renderer._make_opt")
    params = callee.params()
    if len(mk) != 1:
        rep.blind(rule, ao.qualname, where(ao, ao.node), f"{len(mk)} _make_opt calls in add_opt", stmt="padded-opt")
        return
    n, c = mk[0]
    amap = {params[i]: a for i, a in enumerate(c.args) if i < len(params)}
    amap.update({k.arg: k.value for k in c.keywords})
    e = pat.Env()
    okk = set(amap) == set(params) and pat.has(ao.node, "__ttl = opt.ttl", e) and pat.has(ao.node, "__ord = opt[0]", e) and src(amap["flags"]) == e["__ttl"] and src(amap["payload"]) == e["__ord"] + ".rdclass" \
        and pat.has(ao.node, "__options = list(__ord.options)", e) and src(amap["options"]) == e["__options"]
    rep.check(okk, rule, ao.qualname, where(ao, c), "the padded OPT is rebuilt from the original's ttl (flags), rdclass (payload size) and options",
              f"`{src(c)[:70]}` does not pass all of (flags=opt.ttl, payload=<opt rdata>.rdclass, options): what is omitted silently falls back to a default, so a padded message carries different EDNS state "
              "(e.g. payload 1232) from the message that was rendered", stmt="padded-opt")
    wp = [m for m in cfg.nodes if isinstance(m.ast, ast.Assign) and src(m.ast) == "self.was_padded = True"]
    doms = []
    if len(wp) == 1:
        for t_ in cfg.nodes:
            if t_.kind == "test" and isinstance(t_.ast, ast.If):
                for k in ("t", "f"):
                    if cfg.edge_dominated(wp[0].id, {(t_.id, k)}):
                        doms.append((k, src(t_.ast.test)))
    rep.check(len(wp) == 1 and doms == [("t", "pad")], rule, ao.qualname, where(ao, wp[0].ast if wp else ao.node), "was_padded is recorded whenever the padding branch runs",
              f"`self.was_padded = True` is conditioned on {doms} instead of just `pad`: with a zero remainder the TSIG key name is compressed after all and the final length is off the block size", stmt="was-padded-cond")


def run(model, rep, tier):
    ren = model.cls(REN)
    # ---------------------------------------------------------------- R-08.1
    n_w = 0
    for name, f in sorted(ren.methods.items()):
        cfg = CFG(f.node)
        for n in cfg.stmts():
            if n.copy_of_finally:
                continue
            writes = []
            for e in own_nodes(n.ast):
                if isinstance(e, ast.Call) and isinstance(e.func, ast.Attribute):
                    if src(e.func.value) == "self.output" and e.func.attr in ("write", "truncate", "writelines"):
                        writes.append(e)
                    elif e.func.attr in ("to_wire", "_to_wire") and any(src(a) == "self.output" for a in e.args):
                        writes.append(e)
            for e in writes:
                n_w += 1
                w = with_exprs(n)
                if name == "__init__":
                    rep.ok("R-08.1", f.qualname, where(f, e), "constructor writes the 12-octet header placeholder", stmt=stmt_key(n.ast), nontrivial=False)
                elif name == "_rollback":
                    rep.ok("R-08.1", f.qualname, where(f, e), "truncation only shrinks the message", stmt=stmt_key(n.ast), nontrivial=False)
                elif any(x.startswith("self._temporarily_seek_to(") for x in w):
                    rep.ok("R-08.1", f.qualname, where(f, e), "back-patch inside _temporarily_seek_to (length unchanged)", stmt=stmt_key(n.ast))
                else:
                    rep.check("self._track_size()" in w, "R-08.1", f.qualname, where(f, e), "write inside `with self._track_size()`",
                              f"`{src(e)[:50]}` grows the message outside `with self._track_size()`: the size limit is not enforced for it", stmt=stmt_key(n.ast))
    rep.floor("R-08.1", n_w, 9)
    # the section is advanced BEFORE the tracked write, so that Renderer.section names the section being attempted when TooBig is raised
    for mname in ("add_question", "add_rrset", "add_rdataset", "_write_tsig"):
        f = ren.methods.get(mname)
        if f is None:
            continue
        cfgs = CFG(f.node, implicit_exc=False)
        ss = [n.id for (n, c) in calls_with_nodes(cfgs) if src(c.func) == "self._set_section"]
        ws = [n for n in cfgs.nodes if isinstance(n.ast, ast.With) and any(src(i.context_expr) == "self._track_size()" for i in n.ast.items)]
        rep.check(bool(ss) and bool(ws) and all(cfgs.dominated_by_set(w.id, ss) for w in ws), "R-08.3", f.qualname, where(f, f.node), "_set_section() precedes the size-tracked write",
                  "the section is not advanced before the tracked write: on TooBig `r.section` still names the previous section and TC is decided wrongly", stmt="section-before-write")
    # back-patches write exactly the region they seek to
    ts = pat.canon_func(model.func(f"{REN}._temporarily_seek_to"), ["__current = self.output.tell()"])
    t = " ".join(src(ts.node).split())
    rep.check("current = self.output.tell()" in t and "finally: self.output.seek(current)" in t, "R-08.1", ts.qualname, where(ts, ts.node), "position restored in finally", "_temporarily_seek_to does not restore the position", stmt="restore")

    # ---------------------------------------------------------------- R-08.2
    tr = pat.canon_func(model.func(f"{REN}._track_size"), ["__start = self.output.tell()"])
    cfg = CFG(tr.node, implicit_exc=False)
    ys = [n for n in cfg.nodes if n.ast is not None and any(isinstance(e, ast.Yield) for e in own_nodes(n.ast))]
    st = [n for n in cfg.nodes if isinstance(n.ast, ast.Assign) and src(n.ast) == "start = self.output.tell()"]
    rb = [n for (n, c) in calls_with_nodes(cfg) if src(c.func) == "self._rollback" and [src(a) for a in c.args] == ["start"]]
    rs = [n for n in cfg.nodes if isinstance(n.ast, ast.Raise) and "TooBig" in src(n.ast)]
    tt = [n for n in cfg.nodes if n.kind == "test" and atoms(normalise_compare(n.ast.test)) == [("self.output.tell()", ">", "self.max_size")]]
    okk = len(ys) == 1 and len(st) == 1 and len(rb) == 1 and len(rs) == 1 and len(tt) == 1 and cfg.dominated_by_set(ys[0].id, [st[0].id]) and cfg.dominated_by_set(rs[0].id, [rb[0].id]) \
        and cfg.edge_dominated(rs[0].id, {(tt[0].id, "t")}) and cfg.dominated_by_set(tt[0].id, [ys[0].id])
    rep.check(okk, "R-08.2", tr.qualname, where(tr, tr.node), "start taken before the body; after it `tell() > max_size` => _rollback(start) then TooBig",
              "_track_size no longer (records the start, compares tell() > max_size after the body, rolls back to start, raises TooBig)", stmt="track-shape")
    ro = check_rollback_purge(model, rep, "R-08.2")
    t = " ".join(src(ro.node).split())
    rep.check("for (k, v) in self.compress.items():" in t.replace("for k, v in", "for (k, v) in") and "for k in keys_to_delete: del self.compress[k]" in t, "R-08.2", ro.qualname, where(ro, ro.node),
              "all entries are examined, matching ones deleted after the scan", "_rollback no longer scans the whole table", stmt="scan-all")

    # ---------------------------------------------------------------- R-08.3
    tw = pat.canon_func(model.func("dns.message.Message.to_wire"), ["__r = dns.renderer.Renderer(...)", "__opt_reserve = self._compute_opt_reserve()", "__tsig_reserve = self._compute_tsig_reserve()"])
    cfg = CFG(tw.node, implicit_exc=False)
    cn = {}
    for (n, c) in calls_with_nodes(cfg):
        cn.setdefault(src(c.func), []).append((n, c))
    reserves = cn.get("r.reserve", [])
    adds = cn.get("r.add_question", []) + cn.get("r.add_rrset", []) + cn.get("r.add_rdataset", [])
    rel = cn.get("r.release_reserved", [])
    opt = cn.get("r.add_opt", [])
    wts = cn.get("r._write_tsig", [])
    wh = cn.get("r.write_header", [])
    rep.floor("R-08.3-adds", len(adds), 4)
    okk = len(reserves) == 2 and {src(c.args[0]) for (_n, c) in reserves} == {"opt_reserve", "tsig_reserve"} and all(cfg.dominated_by_set(a.id, [n.id for (n, _c) in reserves][i:i + 1]) for (a, _c) in adds for i in (0, 1))
    rep.check(okk, "R-08.3", tw.qualname, where(tw, tw.node), "OPT and TSIG space is reserved before any section is rendered", "a section is rendered before the OPT/TSIG reserves are taken", stmt="reserve-first")
    okk = len(rel) == 1 and cfg.dominated_by_set(cfg.exit.id, [rel[0][0].id]) and all(cfg.dominated_by_set(n.id, [rel[0][0].id]) for (n, _c) in opt + wts) \
        and all(rel[0][0].id in cfg.reachable([a.id]) and a.id not in cfg.reachable([rel[0][0].id]) for (a, _c) in adds)
    rep.check(okk, "R-08.3", tw.qualname, where(tw, tw.node), "release_reserved() is passed on every path (normal and TooBig-truncated) after the sections and before OPT/TSIG",
              "release_reserved() is skipped on some path or happens before a section is rendered: OPT/TSIG may not fit or sections overrun the budget", stmt="release")
    # truncation arm
    hs = [h for h in ast.walk(tw.node) if isinstance(h, ast.ExceptHandler) and h.type is not None and src(h.type).endswith("TooBig")]
    okk = False
    if len(hs) == 1:
        t = " ".join(src(hs[0]).split())
        okk = pat.ends_with(hs[0], "...\nif prefer_truncation:\n    if r.section < dns.renderer.ADDITIONAL:\n        r.flags |= dns.flags.TC\nelse:\n    raise")
    rep.check(okk, "R-08.3", tw.qualname, where(tw, hs[0] if hs else tw.node), "TooBig: with prefer_truncation set TC iff section < ADDITIONAL, otherwise re-raise",
              "the truncation arm changed (TC condition is not exactly `r.section < ADDITIONAL`, or TooBig is swallowed without prefer_truncation)", stmt="tc-arm")
    whs = [n.id for (n, _c) in wh]
    okk = bool(wh) and all(cfg.postdominated_by_set(n.id, whs) for (n, _c) in opt + adds)
    rep.check(okk, "R-08.3", tw.qualname, where(tw, tw.node), "write_header() after the last section/OPT on every path", "the header is not rewritten after the last change to flags/counts", stmt="header-last")
    ms = " ".join(src(tw.node).split())
    rep.check("if max_size < 512: max_size = 512 elif max_size > 65535: max_size = 65535" in ms, "R-08.3", tw.qualname, where(tw, tw.node), "effective limit clamped to [512, 65535]", "limit clamping changed", stmt="clamp")
    rs = model.func(f"{REN}.reserve")
    t = " ".join(src(rs.node).split())
    rep.check("self.reserved += size self.max_size -= size" in t, "R-08.3", rs.qualname, where(rs, rs.node), "reserve lowers the budget by what it records", "reserve bookkeeping changed", stmt="reserve-shape")
    rl = model.func(f"{REN}.release_reserved")
    t = " ".join(src(rl.node).split())
    rep.check("self.max_size += self.reserved self.reserved = 0" in t, "R-08.3", rl.qualname, where(rl, rl.node), "release returns exactly what was reserved", "release bookkeeping changed", stmt="release-shape")

    # ---------------------------------------------------------------- R-08.4
    ao = pat.canon_func(model.func(f"{REN}.add_opt"), ["__size_without_padding = self.output.tell() + opt_size + tsig_size\n__remainder = __size_without_padding % pad"])
    defs = {}
    for n in ast.walk(ao.node):
        if isinstance(n, ast.Assign) and isinstance(n.targets[0], ast.Name):
            defs.setdefault(n.targets[0].id, []).append(" ".join(src(n.value).split()))
    swp = defs.get("size_without_padding", [])
    names = {x.id for v in [n.value for n in ast.walk(ao.node) if isinstance(n, ast.Assign) and src(n.targets[0]) == "size_without_padding"] for x in ast.walk(v) if isinstance(x, ast.Name)}
    rep.check(len(swp) == 1 and {"opt_size", "tsig_size"} <= names and "self.output.tell()" in swp[0] and swp[0].count("+") == 2 and "-" not in swp[0], "R-08.4", ao.qualname, where(ao, ao.node),
              "size before padding = current size + OPT reserve + TSIG reserve", f"padding is computed from `{swp}`: the final length (TSIG included) is not a multiple of the block size", stmt="pad-inputs")
    rep.check(defs.get("remainder") == ["size_without_padding % pad"], "R-08.4", ao.qualname, where(ao, ao.node), "remainder = size % block", f"remainder = {defs.get('remainder')}", stmt="remainder")
    t = " ".join(src(ao.node).split())
    rep.check("if remainder: pad = b'\\x00' * (pad - remainder) else: pad = b''" in t, "R-08.4", ao.qualname, where(ao, ao.node), "pad = block - remainder octets, none when already aligned", "pad length formula changed", stmt="pad-length")
    check_padded_opt(model, rep, "R-08.4")
    rep.check("self.was_padded = True" in t and "dns.edns.GenericOption(dns.edns.OptionType.PADDING, pad)" in t, "R-08.4", ao.qualname, where(ao, ao.node), "padding option appended and was_padded recorded",
              "padding option / was_padded flag no longer set", stmt="pad-option")
    co = pat.canon_func(model.func("dns.message.Message._compute_opt_reserve"), ["__size = 11", "__wire = __option.to_wire()"])
    t = " ".join(src(co.node).split())
    rep.check("size = 11" in t and "size += len(wire) + 4" in t and "if self.pad:" in t and t.count("size += 4") == 1, "R-08.4", co.qualname, where(co, co.node),
              "OPT reserve = 11 + sum(option + 4) + 4 for the padding option header", "OPT reserve no longer accounts for the padding option header", stmt="opt-reserve")
    rep.check(pat.has(co.node, "for __option in ___opts.options:\n    __wire = __option.to_wire()\n    size += len(__wire) + 4"), "R-08.6", co.qualname, where(co, co.node),
              "every option of the OPT contributes len(wire) + 4 to the reserve",
              "the loop over the OPT's options no longer adds len(option wire) + 4 for EVERY option (an option is skipped or counted differently): the renderer still writes all of them, so the reserve is "
              "short and the padded length is no multiple of the block / TooBig escapes although truncation is preferred", stmt="opt-reserve-every-option")
    twn = model.func("dns.message.Message.to_wire").node
    rep.check(pat.has(twn, "if max_size == 0:\n    if self.request_payload != 0:\n        max_size = self.request_payload\n    else:\n        max_size = 65535"), "R-08.6", tw.qualname, where(tw, tw.node),
              "max_size 0 -> request_payload if known else 65535",
              "the default limit is no longer (request_payload if non-zero else 65535): e.g. the message's OWN advertised payload limits a re-rendered TCP response", stmt="default-limit")
    rep.check(pat.has(twn, "if max_size < 512:\n    max_size = 512\nelif max_size > 65535:\n    max_size = 65535\n__r = dns.renderer.Renderer(self.id, self.flags, max_size, ...)"), "R-08.6", tw.qualname, where(tw, tw.node),
              "the limit is clamped to [512, 65535] and handed to the renderer", "the limit is not clamped to [512, 65535] immediately before the renderer is built with it", stmt="limit-clamp")
    ao7 = model.func(f"{REN}.add_opt")
    pad_arm = [n for n in ast.walk(ao7.node) if isinstance(n, ast.If) and any(a[0] == "pad" and a[1] == "truthy" for a in atoms(normalise_compare(n.test)))]
    bounded = any(src(x) == "self.max_size" for n in pad_arm for b in n.body for x in ast.walk(b))
    res_arm = [n for n in ast.walk(co.node) if isinstance(n, ast.If) and any(a[0] == "self.pad" and a[1] == "truthy" for a in atoms(normalise_compare(n.test)))]
    reserved = any(isinstance(x, (ast.AugAssign, ast.Assign)) and any(src(y) == "self.pad" for y in ast.walk(x.value)) for n in res_arm for b in n.body for x in ast.walk(b))
    rep.check(bounded or reserved, "R-08.7", ao7.qualname, where(ao7, pad_arm[0] if pad_arm else ao7.node), "the padding is bounded by the room left / reserved in advance",
              "the padding octets are neither reserved before the sections are rendered (the OPT reserve adds only the 4-octet option header under `if self.pad`) nor bounded by self.max_size in add_opt: "
              "after truncation the padded OPT can be up to block-1 octets larger than the room that was kept, and add_rrset raises TooBig although prefer_truncation was given", stmt="padding-bounded")
    ut = model.func("dns.message.Message.use_tsig")
    mk = [c for c in ast.walk(ut.node) if isinstance(c, ast.Call) and src(c.func) == "self._make_tsig"]
    if len(mk) != 1 or len(mk[0].args) < 5:
        rep.blind("R-08.8", ut.qualname, where(ut, ut.node), "the `self._make_tsig(keyname, algorithm, time, fudge, mac, ...)` call was not found", stmt="placeholder-mac")
    else:
        alg = src(mk[0].args[1])
        sizes = [x for x in ast.walk(mk[0].args[4]) if isinstance(x, ast.Subscript) and src(x.value) == "dns.tsig.mac_sizes"]
        rep.check(len(sizes) == 1 and src(sizes[0].slice) == alg, "R-08.8", ut.qualname, where(ut, mk[0]), f"placeholder MAC sized by mac_sizes[{alg}], the algorithm of the template",
                  f"the TSIG template names algorithm `{alg}` but its placeholder MAC is sized by `{src(sizes[0].slice) if sizes else '?'}`: for a key of another algorithm the TSIG reserve and the padding "
                  "arithmetic use the wrong MAC length (TooBig escapes near the limit; the padded length is no multiple of the block)", stmt="placeholder-mac")
    # the zero-reserve arm of _compute_tsig_reserve and the TSIG-writing arm of to_wire test the same attribute
    ctn = model.func("dns.message.Message._compute_tsig_reserve").node
    zero = [n for n in ast.walk(ctn) if isinstance(n, ast.If) and any(isinstance(b, ast.Return) and src(b.value) == "0" for b in n.body)]
    wr = [n for n in ast.walk(model.func("dns.message.Message.to_wire").node) if isinstance(n, ast.If) and any(isinstance(c, ast.Call) and src(c.func).endswith("_write_tsig") for b in n.body for c in ast.walk(b))]
    subj_r = {a[0] for n in zero for a in atoms(normalise_compare(n.test))}
    subj_w = {a[0] for n in wr for a in atoms(normalise_compare(n.test))}
    rep.check(len(zero) == 1 and len(wr) == 1 and subj_r == subj_w and len(subj_r) == 1, "R-08.8", "dns.message.Message._compute_tsig_reserve", where(model.func("dns.message.Message._compute_tsig_reserve"), zero[0] if zero else ctn),
              f"no reserve exactly when no TSIG will be written (both arms test `{next(iter(subj_r), '?')}`)",
              f"the reserve is skipped under {sorted(subj_r)} but the TSIG is written under {sorted(subj_w)}: a message whose TSIG came off the wire (tsig set, want_tsig_sign False) is re-rendered with 0 octets "
              "reserved for it, so TooBig escapes near the limit and the padded length is off by the TSIG size", stmt="reserve-guard")
    ue8 = model.func("dns.message.Message.use_edns")
    st8 = [x for x in ast.walk(ue8.node) if isinstance(x, ast.Assign) and any(src(t_) == "self.request_payload" for t_ in x.targets)]
    cond8 = [n for n in ast.walk(ue8.node) if isinstance(n, ast.If) and any(a[0] == "request_payload" for a in atoms(normalise_compare(n.test))) and any(any(y is s_ for y in ast.walk(b)) for s_ in st8 for b in n.body + n.orelse)]
    rep.check(bool(st8) and not cond8, "R-08.8", ue8.qualname, where(ue8, cond8[0] if cond8 else (st8[0] if st8 else ue8.node)), "the requester's payload is stored whether or not it was defaulted",
              "`self.request_payload = ...` sits inside the `if request_payload is None` arm: an explicitly given request_payload (what make_response passes) is dropped, so the default limit of the "
              "response is 65535 and an over-long reply is rendered whole", stmt="request-payload-stored")
    mr = model.func("dns.message.make_response")
    ue = [c for c in ast.walk(mr.node) if isinstance(c, ast.Call) and isinstance(c.func, ast.Attribute) and c.func.attr == "use_edns"]
    uef = model.func("dns.message.Message.use_edns")
    ps = [p_ for p_ in uef.params() if p_ != "self"]
    if len(ue) != 1 or "request_payload" not in ps:
        rep.blind("R-08.8", mr.qualname, where(mr, mr.node), "the `response.use_edns(...)` call / the request_payload parameter was not found", stmt="request-payload")
    else:
        i_ = ps.index("request_payload")
        got = ue[0].args[i_] if len(ue[0].args) > i_ else next((k.value for k in ue[0].keywords if k.arg == "request_payload"), None)
        rep.check(got is not None and src(got) == "query.payload", "R-08.8", mr.qualname, where(mr, ue[0]), "the response remembers the requester's payload (request_payload=query.payload)",
                  f"make_response passes {('`' + src(got) + '`') if got is not None else 'nothing'} as request_payload: the response's default size limit becomes our own payload (or 65535) instead of what the "
                  "requester advertised, so an over-long response is rendered whole - no TooBig, no truncation, no TC", stmt="request-payload")
    ct = pat.canon_func(model.func("dns.message.Message._compute_tsig_reserve"), ["__f = io.BytesIO()"])
    t = " ".join(src(ct.node).split())
    rep.check("self.tsig.to_wire(f)" in t and "return len(f.getvalue())" in t, "R-08.4", ct.qualname, where(ct, ct.node), "TSIG reserve = uncompressed size of the TSIG RR", "TSIG reserve is no longer the uncompressed size", stmt="tsig-reserve")
    oc = [c for c in ast.walk(tw.node) if isinstance(c, ast.Call) and src(c.func) == "r.add_opt"]
    rep.check(len(oc) == 1 and [src(a) for a in oc[0].args] == ["self.opt", "self.pad", "opt_reserve", "tsig_reserve"], "R-08.4", tw.qualname, where(tw, tw.node), "add_opt receives pad and both reserves",
              "add_opt is not given (pad, opt_reserve, tsig_reserve)", stmt="add-opt-args")

    # ---------------------------------------------------------------- R-08.5
    wt = pat.canon_func(model.func(f"{REN}._write_tsig"), ["__compress = self.compress"])
    cfg2 = CFG(wt.node, implicit_exc=False)
    tests = [n for n in cfg2.nodes if n.kind == "test" and atoms(normalise_compare(n.ast.test)) == [("self.was_padded", "truthy", "")]]
    cd = [n for n in cfg2.nodes if isinstance(n.ast, ast.Assign) and src(n.ast.targets[0]) == "compress"]
    okk = len(tests) == 1 and len(cd) == 2
    if okk:
        none_def = [n for n in cd if src(n.ast.value) == "None"]
        tab_def = [n for n in cd if src(n.ast.value) == "self.compress"]
        okk = len(none_def) == 1 and len(tab_def) == 1 and cfg2.edge_dominated(none_def[0].id, {(tests[0].id, "t")}) and cfg2.edge_dominated(tab_def[0].id, {(tests[0].id, "f")})
    kc = [c for c in ast.walk(wt.node) if isinstance(c, ast.Call) and src(c.func) == "keyname.to_wire"]
    okk = okk and len(kc) == 1 and [src(a) for a in kc[0].args] == ["self.output", "compress", "self.origin"]
    tc = [c for c in ast.walk(wt.node) if isinstance(c, ast.Call) and src(c.func) == "tsig.to_wire"]
    okk = okk and len(tc) == 1 and [src(a) for a in tc[0].args] == ["self.output"]
    rep.check(okk, "R-08.5", wt.qualname, where(wt, wt.node), "TSIG owner is written without the table when the message was padded; TSIG RDATA is never compressed",
              "_write_tsig can compress the TSIG owner after padding: the message comes out shorter than a multiple of the block size", stmt="write-tsig-compress")
    bad_adds = [c for c in ast.walk(tw.node) if isinstance(c, ast.Call) and src(c.func) in ("r.add_rrset", "r.add_rdataset") and any("self.tsig" in src(a) for a in c.args)]
    rep.check(not bad_adds and len(wts) == 1, "R-08.5", tw.qualname, where(tw, bad_adds[0] if bad_adds else tw.node), "Message.to_wire emits the TSIG only through Renderer._write_tsig",
              "Message.to_wire adds the TSIG through add_rrset (compression on) although the reserve assumed it off: padded+signed messages miss the block size", stmt="tsig-via-write-tsig")
    if wts:
        rep.check([src(a) for a in wts[0][1].args] == ["self.tsig[0]", "self.tsig.name"], "R-08.5", tw.qualname, where(tw, wts[0][1]), "_write_tsig(self.tsig[0], self.tsig.name)", "wrong TSIG handed to _write_tsig", stmt="write-tsig-args")
    t = " ".join(src(wt.node).split())
    rep.check("self.counts[ADDITIONAL] += 1 with self._temporarily_seek_to(10): self.output.write(struct.pack('!H', self.counts[ADDITIONAL]))" in t, "R-08.5", wt.qualname, where(wt, wt.node),
              "ARCOUNT is incremented and back-patched at offset 10", "ARCOUNT back-patch changed", stmt="arcount-patch")
    sg10 = model.func("dns.tsig.sign")
    reps10 = [c for c in ast.walk(sg10.node) if isinstance(c, ast.Call) and isinstance(c.func, ast.Attribute) and c.func.attr == "replace"]
    bad10 = [c for c in reps10 if {k.arg for k in c.keywords} - {"time_signed", "mac"}]
    rep.check(bool(reps10) and not bad10, "R-08.10", sg10.qualname, where(sg10, bad10[0] if bad10 else sg10.node), "sign() changes only time_signed and mac of the template",
              f"`{src(bad10[0])[:70]}` changes {sorted({k.arg for k in bad10[0].keywords} - {'time_signed', 'mac'})} at signing time: the TSIG written is larger than the placeholder the reserve and the padding were "
              "computed from (the padded length is off; TooBig escapes near the limit)" if bad10 else "no `.replace(time_signed=..., mac=...)` found in sign()", stmt="sign-keeps-size")
    rep.share(model, "C14", {"R-14.3"}, "R-08.9", "Message.use_tsig sizes the placeholder MAC with dns.tsig.mac_sizes[algorithm]; _compute_tsig_reserve renders that placeholder")
    # ---------------------------------------------------------------- R-08.11
    from engine.minieval import run_block, Raised, Unsupported
    rsv, rel = model.func("dns.renderer.Renderer.reserve"), model.func("dns.renderer.Renderer.release_reserved")
    if [a.arg for a in rsv.node.args.args] != ["self", "size"]:
        rep.blind("R-08.11", rsv.qualname, where(rsv, rsv.node), "reserve(self, size) signature changed", stmt="reserve-arithmetic")
    else:
        wrong = None
        try:
            for M in range(0, 10):
                for a in range(0, 10):
                    for b in range(0, 10):
                        env = {"self.max_size": M, "self.reserved": 0}
                        total = 0
                        for amount in (a, b):
                            env["size"] = amount
                            try:
                                run_block(rsv.node.body, env)
                                accepted = True
                            except Raised:
                                accepted = False
                            want = total + amount <= M
                            if accepted != want:
                                wrong = wrong or f"limit {M}, reserved {total}: reserve({amount}) is {'accepted' if accepted else 'refused'}"
                            if accepted:
                                total += amount
                            if (env["self.max_size"], env["self.reserved"]) != (M - total, total):
                                wrong = wrong or f"limit {M} after reserving {total}: max_size={env['self.max_size']} reserved={env['self.reserved']}"
                        run_block(rel.node.body, env)
                        if (env["self.max_size"], env["self.reserved"]) != (M, 0):
                            wrong = wrong or f"limit {M} after release: max_size={env['self.max_size']} reserved={env['self.reserved']}"
            rep.check(wrong is None, "R-08.11", rsv.qualname, where(rsv, rsv.node), "1000 two-step reservation histories evaluated: refusal exactly when the total exceeds the limit; release restores it",
                      f"reservation arithmetic is wrong, e.g. {wrong}: Message.to_wire reserves the OPT and then the TSIG, so messages whose records fit are refused (ValueError) or the reserve is too small (TooBig after truncation)",
                      stmt="reserve-arithmetic")
        except Unsupported as e:
            rep.blind("R-08.11", rsv.qualname, where(rsv, rsv.node), f"reserve/release_reserved not evaluable: {e}", stmt="reserve-arithmetic")
    rep.meta["explanation"] = (
        "Lexical with-context check for size tracking, dominance rules on _track_size/_rollback and on the ordering of reserve/sections/release/OPT/header/TSIG in Message.to_wire, "
        "def-use completeness of the padding length, and a sibling cross-check of the two TSIG-writing paths. That the truncated prefix parses for every limit value is NOT decided.")


WITNESSES = [
    {"id": "c08-reserve-counts-reserved-twice", "rule": "R-08.11", "file": "dns/renderer.py", "expect": "fires",
     "old": "        if size > self.max_size:\n            raise ValueError(\"cannot reserve more than the maximum size\")", "new": "        if size > self.max_size - self.reserved:\n            raise ValueError(\"cannot reserve more than the maximum size\")"},
    {"id": "c08-release-forgets-reserved", "rule": "R-08.11", "file": "dns/renderer.py", "expect": "fires",
     "old": "        self.max_size += self.reserved\n        self.reserved = 0", "new": "        self.reserved = 0\n        self.max_size += self.reserved"},
    {"id": "c08-twin-reserve-test-flipped", "rule": "R-08.11", "file": "dns/renderer.py", "expect": "silent",
     "old": "        if size > self.max_size:\n            raise ValueError(\"cannot reserve more than the maximum size\")", "new": "        remaining = self.max_size - size\n        if remaining < 0:\n            raise ValueError(\"cannot reserve more than the maximum size\")"},
    {"id": "c08-sign-adds-other-data", "rule": "R-08.10", "file": "dns/tsig.py", "expect": "fires",
     "old": "    ctx = _digest(wire, key, rdata, time, request_mac, ctx, multi)\n    mac = ctx.sign()\n    tsig = rdata.replace(time_signed=time, mac=mac)",
     "new": "    if rdata.error == 18 and not rdata.other:\n        rdata = rdata.replace(other=struct.pack(\"!HI\", time >> 32, time & 0xFFFFFFFF))\n    ctx = _digest(wire, key, rdata, time, request_mac, ctx, multi)\n    mac = ctx.sign()\n    tsig = rdata.replace(time_signed=time, mac=mac)"},
    {"id": "c08-request-payload-stored-only-when-defaulted", "rule": "R-08.8", "file": "dns/message.py", "expect": "fires",
     "old": "                request_payload = payload\n            self.request_payload = request_payload", "new": "                request_payload = payload\n                self.request_payload = request_payload"},
    {"id": "c08-tsig-reserve-under-want-sign", "rule": "R-08.8", "file": "dns/message.py", "expect": "fires",
     "old": "        if not self.tsig:\n            return 0", "new": "        if not self.want_tsig_sign:\n            return 0"},
    {"id": "c08-placeholder-mac-from-argument", "rule": "R-08.8", "file": "dns/message.py", "expect": "fires",
     "old": "            b\"\\x00\" * dns.tsig.mac_sizes[self.keyring.algorithm],", "new": "            b\"\\x00\" * dns.tsig.mac_sizes[algorithm],"},
    {"id": "c08-make-response-drops-request-payload", "rule": "R-08.8", "file": "dns/message.py", "expect": "fires",
     "old": "        response.use_edns(0, 0, our_payload, query.payload, pad=pad)", "new": "        response.use_edns(0, 0, payload=our_payload, pad=pad)"},
    {"id": "c08-twin-make-response-keywords", "rule": "R-08.8", "file": "dns/message.py", "expect": "silent",
     "old": "        response.use_edns(0, 0, our_payload, query.payload, pad=pad)", "new": "        response.use_edns(0, 0, payload=our_payload, request_payload=query.payload, pad=pad)"},
    {"id": "c08-default-limit-from-own-payload", "rule": "R-08.6", "file": "dns/message.py", "expect": "fires",
     "old": "            if self.request_payload != 0:\n                max_size = self.request_payload", "new": "            if self.payload != 0:\n                max_size = self.payload"},
    {"id": "c08-reserve-skips-existing-padding", "rule": "R-08.6", "file": "dns/message.py", "expect": "fires",
     "old": "        for option in opt_rdata.options:\n            wire = option.to_wire()", "new": "        for option in opt_rdata.options:\n            if self.pad and option.otype == dns.edns.OptionType.PADDING:\n                continue\n            wire = option.to_wire()"},
    {"id": "c08-twin-default-limit-spelled-with-or", "rule": "R-08.6", "file": "dns/message.py", "expect": "silent",
     "old": "            if self.request_payload != 0:\n                max_size = self.request_payload\n            else:\n                max_size = 65535",
     "new": "            if not self.request_payload != 0:\n                max_size = 65535\n            else:\n                max_size = self.request_payload"},
    {"id": "c08-padded-opt-loses-payload", "rule": "R-08.4", "file": "dns/renderer.py", "expect": "fires",
     "old": "            opt = _make_opt(ttl, opt_rdata.rdclass, options)  # pyright: ignore", "new": "            opt = _make_opt(flags=ttl, options=options)"},
    {"id": "c08-twin-padded-opt-keywords", "rule": "R-08.4", "file": "dns/renderer.py", "expect": "silent",
     "old": "            opt = _make_opt(ttl, opt_rdata.rdclass, options)  # pyright: ignore", "new": "            opt = _make_opt(flags=ttl, payload=opt_rdata.rdclass, options=options)"},
    {"id": "c08-was-padded-only-with-pad-octets", "rule": "R-08.4", "file": "dns/renderer.py", "expect": "fires",
     "old": "                pad = b\"\\x00\" * (pad - remainder)\n", "new": "                pad = b\"\\x00\" * (pad - remainder)\n                self.was_padded = True\n"},
    {"id": "c08-rollback-keeps-equal", "rule": "R-08.2", "file": "dns/renderer.py", "expect": "fires", "old": "            if v >= where:", "new": "            if v > where:"},
    {"id": "c08-write-outside-track", "rule": "R-08.1", "file": "dns/renderer.py", "expect": "fires",
     "old": "        with self._track_size():\n            qname.to_wire(self.output, self.compress, self.origin)\n            self.output.write(struct.pack(\"!HH\", rdtype, rdclass))",
     "new": "        with self._track_size():\n            qname.to_wire(self.output, self.compress, self.origin)\n        self.output.write(struct.pack(\"!HH\", rdtype, rdclass))"},
    {"id": "c08-tc-le", "rule": "R-08.3", "file": "dns/message.py", "expect": "fires",
     "old": "                if r.section < dns.renderer.ADDITIONAL:", "new": "                if r.section <= dns.renderer.ADDITIONAL:"},
    {"id": "c08-pad-without-tsig", "rule": "R-08.4", "file": "dns/renderer.py", "expect": "fires",
     "old": "            size_without_padding = self.output.tell() + opt_size + tsig_size", "new": "            size_without_padding = self.output.tell() + opt_size"},
    {"id": "c08-tsig-compressed-after-pad", "rule": "R-08.5", "file": "dns/renderer.py", "expect": "fires",
     "old": "        if self.was_padded:\n            compress = None\n        else:\n            compress = self.compress", "new": "        compress = self.compress"},
    {"id": "c08-tsig-via-add-rrset", "rule": "R-08.5", "file": "dns/message.py", "expect": "fires",
     "old": "            r._write_tsig(self.tsig[0], self.tsig.name)", "new": "            r.add_rrset(dns.renderer.ADDITIONAL, self.tsig)\n            r.write_header()"},
    {"id": "c08-release-only-on-success", "rule": "R-08.3", "file": "dns/message.py", "expect": "fires",
     "old": "                r.add_rrset(dns.renderer.ADDITIONAL, rrset, **kw)\n        except dns.exception.TooBig:", "new": "                r.add_rrset(dns.renderer.ADDITIONAL, rrset, **kw)\n            r.release_reserved()\n        except dns.exception.TooBig:"},
    {"id": "c08-no-rollback", "rule": "R-08.2", "file": "dns/renderer.py", "expect": "fires",
     "old": "            self._rollback(start)\n            raise dns.exception.TooBig", "new": "            raise dns.exception.TooBig"},
    {"id": "c08-twin-ge-flipped", "rule": "R-08.2", "file": "dns/renderer.py", "expect": "silent", "old": "            if v >= where:", "new": "            if where <= v:"},
    {"id": "c08-pad-full-block", "rule": "R-08.4", "file": "dns/renderer.py", "expect": "fires",
     "old": "            if remainder:\n                pad = b\"\\x00\" * (pad - remainder)\n            else:\n                pad = b\"\"", "new": "            pad = b\"\\x00\" * (pad - remainder)"},
    {"id": "c08-section-after-write", "rule": "R-08.3", "file": "dns/renderer.py", "expect": "fires",
     "old": "        self._set_section(section)\n        with self._track_size():\n            n = rrset.to_wire(self.output, self.compress, self.origin, **kw)\n        self.counts[section] += n",
     "new": "        with self._track_size():\n            n = rrset.to_wire(self.output, self.compress, self.origin, **kw)\n        self._set_section(section)\n        self.counts[section] += n"},
]
